(* Control-skeleton tie of the index maps of emd/_cycles_support.py (property C16; notes/TIE_MAPS.md).
   THE REVIEWABLE PART: the value universe, ONE primitive mapping table for all eighteen translated programs
   of gen/Gen_Skel_Maps.v, the initial environments and the rendering of model results. Definitions only;
   the proofs are in proofs/SkelFacts_Maps.v, the statements in props/Prop_Tie_Maps.v.

   The numpy expressions of the source are opaque primitives of the translated programs; each is mapped here
   to the list operation of lib/NpLite.v that model/CycleMaps.v is written with (positions, py_index,
   nth_error, assign_at). The rows named after the translated functions themselves (a function calling
   another one: "map_sample_to_cycle", "project_subset_to_cycles", ...) are the model/CycleMaps.v definitions,
   rendered; the theorem about each function shows that its own translated program computes exactly its row
   ([res_outcome (call_<f> ...)]), so these rows are proved, not assumed. *)
From Coq Require Import String List Bool Arith ZArith Lia.
From EmdV Require Import lib.PyLoop lib.PyLoopTools lib.NpLite model.CycleMaps gen.Gen_Skel_Maps.
Import ListNotations.
Open Scope string_scope.

(* ---- the value universe: what a `VSig` is in these programs ------------------------------------- *)
(* A = the type of the per-cycle values that the projections move around; nan is [None] *)
Inductive mval (A : Type) :=
| MVec (l : list Z)               (* an integer ndarray: cycle_vect / subset_vect / chain_vect *)
| MInt (z : Z)                    (* a numpy integer scalar (an element of such a vector; may be -1) *)
| MMask (m : list bool)           (* a boolean ndarray: vect == ii *)
| MIdx (l : list nat)             (* an index array: np.where(mask)[0] *)
| MArr (l : list (option A))      (* a float ndarray, nan = None *)
| MCell (c : option A).           (* a float scalar, nan = None *)
Arguments MVec {A}. Arguments MInt {A}. Arguments MMask {A}. Arguments MIdx {A}. Arguments MArr {A}.
Arguments MCell {A}.

(* how an outcome of a primitive shows as the outcome of a function that returns it *)
Definition res_outcome {V : Type} (r : res (val V)) : outcome V :=
  match r with Ok v => Return v | Exc x => Raise x | Bad => Stuck end.

Section MapsPrims.
  Variable A : Type.
  Local Notation V := (mval A).
  Local Notation val := (val V).

  Definition vvec (l : list Z) : val := VSig (MVec l).
  Definition vint (z : Z) : val := VSig (MInt z).
  Definition vidx (l : list nat) : val := VSig (MIdx l).
  Definition varr (l : list (option A)) : val := VSig (MArr l).

  (* an integer: a Python int >= 0 (literals, range elements) or a numpy integer scalar *)
  Definition as_int (v : val) : option Z :=
    match v with
    | VNat n => Some (Z.of_nat n)
    | VSig (MInt z) => Some z
    | _ => None
    end.

  (* the right operand of `vect == ii`: an integer, or an index array with exactly one element (numpy
     broadcasts a length-1 array against any vector). Any other array is NOT modelled (numpy broadcasts it
     when the lengths happen to agree or the vector has length 1, and raises ValueError otherwise). *)
  Definition as_scalar (v : val) : option Z :=
    match v with
    | VSig (MIdx [k]) => Some (Z.of_nat k)
    | _ => as_int v
    end.

  (* a forward map's model result at the Python level: None / a numpy integer / IndexError *)
  Definition fwd_res (f : fwd) : res val :=
    match f with FNone => Ok VNone | FVal z => Ok (vint z) | FErr => Exc "IndexError" end.

  (* wrappers that the evaluator of the proofs does not unfold *)
  Definition cell_at (l : list (option A)) (i : nat) : option (option A) := nth_error l i.
  Definition in_range (n : nat) (inds : list nat) : bool := forallb (fun k => (k <? n)%nat) inds.
  Fixpoint all_ok (l : list (res val)) : res (list val) :=
    match l with
    | [] => Ok []
    | Ok v :: t => match all_ok t with Ok r => Ok (v :: r) | Exc x => Exc x | Bad => Bad end
    | Exc x :: _ => Exc x
    | Bad :: _ => Bad
    end.
  (* the concatenation of a list of index arrays *)
  Fixpoint hstack_idx (l : list val) : option (list nat) :=
    match l with
    | [] => Some []
    | VSig (MIdx x) :: t => match hstack_idx t with Some r => Some (x ++ r)%list | None => None end
    | _ => None
    end.

  (* ---- the rows of the translated functions themselves (callee = model/CycleMaps.v, rendered) ------- *)
  (* sample indices are Python ints >= 0 (the model's [nat]); cycle / subset / chain indices are integers
     (the model's [Z]: numpy scalars read from a vector, or range elements) *)
  Definition call_map_sample_to_cycle (cv : list Z) (ii : val) : res val :=
    match ii with VNat i => fwd_res (map_sample_to_cycle cv i) | _ => Bad end.
  Definition call_map_cycle_to_subset (sv : list Z) (ii : val) : res val :=
    match as_int ii with Some k => fwd_res (map_cycle_to_subset sv k) | None => Bad end.
  Definition call_map_sample_to_subset (sv cv : list Z) (ii : val) : res val :=
    match ii with VNat i => fwd_res (map_sample_to_subset sv cv i) | _ => Bad end.
  Definition call_map_subset_to_chain (chv : list Z) (ii : val) : res val :=
    match as_int ii with Some j => fwd_res (map_subset_to_chain chv j) | None => Bad end.
  Definition call_map_cycle_to_chain (chv sv : list Z) (ii : val) : res val :=
    match as_int ii with Some k => fwd_res (map_cycle_to_chain chv sv k) | None => Bad end.
  Definition call_map_sample_to_chain (chv sv cv : list Z) (ii : val) : res val :=
    match ii with VNat i => fwd_res (map_sample_to_chain chv sv cv i) | _ => Bad end.

  Definition call_map_cycle_to_samples (cv : list Z) (ii : val) : res val :=
    match as_scalar ii with Some k => Ok (vidx (map_cycle_to_samples cv k)) | None => Bad end.
  Definition call_map_subset_to_cycle (sv : list Z) (ii : val) : res val :=
    match as_scalar ii with Some j => Ok (vidx (map_subset_to_cycle sv j)) | None => Bad end.
  Definition call_map_chain_to_subset (chv : list Z) (ii : val) : res val :=
    match as_scalar ii with Some c => Ok (vidx (map_chain_to_subset chv c)) | None => Bad end.
  (* the model's None (the subset index does not select exactly one cycle) = the broadcast that is not
     modelled: Bad, i.e. the tie says nothing there (see notes/TIE_MAPS.md, finding F2) *)
  Definition call_map_subset_to_sample (sv cv : list Z) (ii : val) : res val :=
    match as_scalar ii with
    | Some j => match map_subset_to_sample sv cv j with Some l => Ok (vidx l) | None => Bad end
    | None => Bad
    end.
  (* np.hstack([]) raises ValueError: a chain without members is an error in the code, [] in the model
     (finding F3); everywhere else the row is the model *)
  Definition call_map_chain_to_cycle (chv sv : list Z) (ii : val) : res val :=
    match as_scalar ii with
    | Some c => match map_chain_to_subset chv c with
                | [] => Exc "ValueError"
                | _ => Ok (vidx (map_chain_to_cycle chv sv c))
                end
    | None => Bad
    end.
  Definition call_map_chain_to_samples (chv sv cv : list Z) (ii : val) : res val :=
    match as_scalar ii with
    | Some c => match map_chain_to_subset chv c with
                | [] => Exc "ValueError"
                | _ => match map_chain_to_samples chv sv cv c with Some l => Ok (vidx l) | None => Bad end
                end
    | None => Bad
    end.

  (* a projection of the cells [cells] (per-item values, nan allowed) along the vector [vect] *)
  Definition call_project (cells : list (option A)) (vect : list Z) : res val :=
    Ok (varr (join_opt (project_by vect cells))).

  (* the comprehensions `[f(.., jj) for jj in inds]`: the callee's row once per element of the index array
     (the elements are numpy integers), collected in a Python list *)
  Definition comp_subset_to_cycle (sv : list Z) (js : list nat) : res val :=
    match all_ok (map (fun j => call_map_subset_to_cycle sv (vint (Z.of_nat j))) js) with
    | Ok l => Ok (VList l) | Exc x => Exc x | Bad => Bad
    end.
  Definition comp_subset_to_sample (sv cv : list Z) (js : list nat) : res val :=
    match all_ok (map (fun j => call_map_subset_to_sample sv cv (vint (Z.of_nat j))) js) with
    | Ok l => Ok (VList l) | Exc x => Exc x | Bad => Bad
    end.
  (* np.hstack(list of index arrays): the concatenation; ValueError on the empty list *)
  Definition hstack_res (l : list val) : res val :=
    match l with
    | [] => Exc "ValueError"
    | _ => match hstack_idx l with Some r => Ok (vidx r) | None => Bad end
    end.

  (* ---- handler shapes ------------------------------------------------------------------------------ *)
  Definition h_vec_int (f : list Z -> val -> res val) : handler V :=
    fun args kw => match args, kw with [VSig (MVec a); ii], [] => f a ii | _, _ => Bad end.
  Definition h_vec_vec_int (f : list Z -> list Z -> val -> res val) : handler V :=
    fun args kw => match args, kw with [VSig (MVec a); VSig (MVec b); ii], [] => f a b ii | _, _ => Bad end.
  Definition h_vec_vec_vec_int (f : list Z -> list Z -> list Z -> val -> res val) : handler V :=
    fun args kw => match args, kw with
                   | [VSig (MVec a); VSig (MVec b); VSig (MVec c); ii], [] => f a b c ii
                   | _, _ => Bad
                   end.
  (* the contiguity guards: `np.all(...)` is a numpy bool, never the object `False`, so `... is False` is
     False for every argument (finding F1: the guards are dead code) *)
  Definition h_is_False : handler V :=
    fun args kw => match args, kw with [VSig (MIdx _)], [] => Ok (VBool false) | _, _ => Bad end.
  Definition h_zeros_like : handler V :=
    fun args kw => match args, kw with [VSig (MVec l)], [] => Ok (VOpaque "zeros_like" [vvec l]) | _, _ => Bad end.
  Definition h_project : handler V :=
    fun args kw => match args, kw with
                   | [VSig (MArr cells); VSig (MVec vect)], [] => call_project cells vect
                   | _, _ => Bad
                   end.

  (* ---- THE TABLE: primitive name as emitted -> operation ------------------------------------------- *)
  Definition maps_table : list (string * handler V) :=
    [ (* vect == ii : elementwise comparison with an integer (or a one-element array) *)
      ("==", fun args kw => match args, kw with
                            | [VSig (MVec l); ii], [] =>
                                match as_scalar ii with
                                | Some k => Ok (VSig (MMask (map (fun c => Z.eqb c k) l)))
                                | None => Bad
                                end
                            | _, _ => Bad
                            end);
      (* np.where(mask) : a 1-tuple holding the positions of the True elements *)
      ("np.where", fun args kw => match args, kw with
                                  | [VSig (MMask m)], [] => Ok (VList [vidx (positions (fun b => b) m)])
                                  | _, _ => Bad
                                  end);
      (* vect[ii] with an integer ii: Python indexing (negative wraps, IndexError out of range);
         vals[ii] with a range element *)
      ("getitem", fun args kw => match args, kw with
                                 | [VSig (MVec l); ii], [] =>
                                     match as_int ii with
                                     | Some z => match py_index l z with
                                                 | Some c => Ok (vint c)
                                                 | None => Exc "IndexError"
                                                 end
                                     | None => Bad
                                     end
                                 | [VSig (MArr l); VNat i], [] =>
                                     match cell_at l i with
                                     | Some c => Ok (VSig (MCell c))
                                     | None => Exc "IndexError"
                                     end
                                 | _, _ => Bad
                                 end);
      (* all_cycle_ind < 0 *)
      ("<", fun args kw => match args, kw with
                           | [a; b], [] => match as_int a, as_int b with
                                           | Some x, Some y => Ok (VBool (Z.ltb x y))
                                           | _, _ => Bad
                                           end
                           | _, _ => Bad
                           end);
      ("subset_ind if subset_ind > -1 else None",
        fun args kw => match args, kw with
                       | [VSig (MInt s)], [] => Ok (if Z.ltb (-1) s then vint s else VNone)
                       | _, _ => Bad
                       end);
      ("len", fun args kw => match args, kw with
                             | [VSig (MIdx l)], [] => Ok (VNat (length l))
                             | [VSig (MArr l)], [] => Ok (VNat (length l))
                             | _, _ => Bad
                             end);
      ("range", range_handler);
      ("np.all(np.diff(sample_inds) == 1) is False", h_is_False);
      ("np.all(np.diff(subset_inds) == 1) is False", h_is_False);
      ("np.all(np.diff(cycle_ind) == 1) is False", h_is_False);
      (* the comprehensions: one callee row per element of the index array (elements are numpy integers) *)
      ("[map_subset_to_cycle(subset_vect, jj) for jj in subset_ind]",
        fun args kw => match args, kw with
                       | [VSig (MVec sv); VSig (MIdx js)], [] => comp_subset_to_cycle sv js
                       | _, _ => Bad
                       end);
      ("[map_subset_to_sample(subset_vect, cycle_vect, jj) for jj in subset_inds]",
        fun args kw => match args, kw with
                       | [VSig (MVec sv); VSig (MVec cv); VSig (MIdx js)], [] => comp_subset_to_sample sv cv js
                       | _, _ => Bad
                       end);
      ("np.hstack", fun args kw => match args, kw with [VList l], [] => hstack_res l | _, _ => Bad end);
      (* out = np.zeros_like(vect).astype(float) * np.nan : one nan per element of vect *)
      ("np.zeros_like(cycle_vect).astype(float)", h_zeros_like);
      ("np.zeros_like(subset_vect).astype(float)", h_zeros_like);
      ("np.zeros_like(chain_vect).astype(float)", h_zeros_like);
      ("np.nan", fun args kw => match args, kw with [], [] => Ok (VOpaque "nan" []) | _, _ => Bad end);
      ("*", fun args kw => match args, kw with
                           | [VOpaque t [VSig (MVec l)]; n], [] =>
                               if String.eqb t "zeros_like" && is_opaque0 n "nan"
                               then Ok (varr (map (fun _ => None) l)) else Bad
                           | _, _ => Bad
                           end);
      (* N11 store out[inds] = v : the new value of out; IndexError if an index is out of range *)
      ("out[inds] =", fun args kw => match args, kw with
                                     | [VSig (MArr out); VSig (MIdx inds); VSig (MCell c)], [] =>
                                         if in_range (length out) inds
                                         then Ok (varr (assign_at out inds c 0)) else Exc "IndexError"
                                     | _, _ => Bad
                                     end);
      (* the translated functions, as callees *)
      ("map_sample_to_cycle", h_vec_int call_map_sample_to_cycle);
      ("map_cycle_to_samples", h_vec_int call_map_cycle_to_samples);
      ("map_cycle_to_subset", h_vec_int call_map_cycle_to_subset);
      ("map_subset_to_cycle", h_vec_int call_map_subset_to_cycle);
      ("map_sample_to_subset", h_vec_vec_int call_map_sample_to_subset);
      ("map_subset_to_sample", h_vec_vec_int call_map_subset_to_sample);
      ("map_subset_to_chain", h_vec_int call_map_subset_to_chain);
      ("map_chain_to_subset", h_vec_int call_map_chain_to_subset);
      ("project_subset_to_cycles", h_project);
      ("project_chain_to_subset", h_project);
      ("project_chain_to_cycles",
        fun args kw => match args, kw with
                       | [VSig (MArr cells); VSig (MVec chv); VSig (MVec sv)], [] =>
                           Ok (varr (join_opt (project_by sv (join_opt (project_by chv cells)))))
                       | _, _ => Bad
                       end);
      ("project_cycles_to_samples", h_project) ].
  Definition maps_prims : prims V := prims_of maps_table.

  (* ---- initial environments: the parameters in def-line order --------------------------------------- *)
  Definition names_map_sample_to_cycle := Eval cbv in assigned prog_map_sample_to_cycle params_map_sample_to_cycle.
  Definition names_map_cycle_to_samples := Eval cbv in assigned prog_map_cycle_to_samples params_map_cycle_to_samples.
  Definition names_map_cycle_to_subset := Eval cbv in assigned prog_map_cycle_to_subset params_map_cycle_to_subset.
  Definition names_map_subset_to_cycle := Eval cbv in assigned prog_map_subset_to_cycle params_map_subset_to_cycle.
  Definition names_map_sample_to_subset := Eval cbv in assigned prog_map_sample_to_subset params_map_sample_to_subset.
  Definition names_map_subset_to_sample := Eval cbv in assigned prog_map_subset_to_sample params_map_subset_to_sample.
  Definition names_map_subset_to_chain := Eval cbv in assigned prog_map_subset_to_chain params_map_subset_to_chain.
  Definition names_map_chain_to_subset := Eval cbv in assigned prog_map_chain_to_subset params_map_chain_to_subset.
  Definition names_map_cycle_to_chain := Eval cbv in assigned prog_map_cycle_to_chain params_map_cycle_to_chain.
  Definition names_map_chain_to_cycle := Eval cbv in assigned prog_map_chain_to_cycle params_map_chain_to_cycle.
  Definition names_map_sample_to_chain := Eval cbv in assigned prog_map_sample_to_chain params_map_sample_to_chain.
  Definition names_map_chain_to_samples := Eval cbv in assigned prog_map_chain_to_samples params_map_chain_to_samples.
  Definition names_project_cycles_to_samples :=
    Eval cbv in assigned prog_project_cycles_to_samples params_project_cycles_to_samples.
  Definition names_project_subset_to_cycles :=
    Eval cbv in assigned prog_project_subset_to_cycles params_project_subset_to_cycles.
  Definition names_project_subset_to_samples :=
    Eval cbv in assigned prog_project_subset_to_samples params_project_subset_to_samples.
  Definition names_project_chain_to_subset :=
    Eval cbv in assigned prog_project_chain_to_subset params_project_chain_to_subset.
  Definition names_project_chain_to_cycles :=
    Eval cbv in assigned prog_project_chain_to_cycles params_project_chain_to_cycles.
  Definition names_project_chain_to_samples :=
    Eval cbv in assigned prog_project_chain_to_samples params_project_chain_to_samples.

  (* (vector, index) *)
  Definition env0_map_sample_to_cycle (cv : list Z) (ii : val) : env V :=
    frame params_map_sample_to_cycle names_map_sample_to_cycle [vvec cv; ii].
  Definition env0_map_cycle_to_samples (cv : list Z) (ii : val) : env V :=
    frame params_map_cycle_to_samples names_map_cycle_to_samples [vvec cv; ii].
  Definition env0_map_cycle_to_subset (sv : list Z) (ii : val) : env V :=
    frame params_map_cycle_to_subset names_map_cycle_to_subset [vvec sv; ii].
  Definition env0_map_subset_to_cycle (sv : list Z) (ii : val) : env V :=
    frame params_map_subset_to_cycle names_map_subset_to_cycle [vvec sv; ii].
  Definition env0_map_sample_to_subset (sv cv : list Z) (ii : val) : env V :=
    frame params_map_sample_to_subset names_map_sample_to_subset [vvec sv; vvec cv; ii].
  Definition env0_map_subset_to_sample (sv cv : list Z) (ii : val) : env V :=
    frame params_map_subset_to_sample names_map_subset_to_sample [vvec sv; vvec cv; ii].
  Definition env0_map_subset_to_chain (chv : list Z) (ii : val) : env V :=
    frame params_map_subset_to_chain names_map_subset_to_chain [vvec chv; ii].
  Definition env0_map_chain_to_subset (chv : list Z) (ii : val) : env V :=
    frame params_map_chain_to_subset names_map_chain_to_subset [vvec chv; ii].
  Definition env0_map_cycle_to_chain (chv sv : list Z) (ii : val) : env V :=
    frame params_map_cycle_to_chain names_map_cycle_to_chain [vvec chv; vvec sv; ii].
  Definition env0_map_chain_to_cycle (chv sv : list Z) (ii : val) : env V :=
    frame params_map_chain_to_cycle names_map_chain_to_cycle [vvec chv; vvec sv; ii].
  Definition env0_map_sample_to_chain (chv sv cv : list Z) (ii : val) : env V :=
    frame params_map_sample_to_chain names_map_sample_to_chain [vvec chv; vvec sv; vvec cv; ii].
  Definition env0_map_chain_to_samples (chv sv cv : list Z) (ii : val) : env V :=
    frame params_map_chain_to_samples names_map_chain_to_samples [vvec chv; vvec sv; vvec cv; ii].
  (* (vals, vectors) *)
  Definition env0_project_cycles_to_samples (cells : list (option A)) (cv : list Z) : env V :=
    frame params_project_cycles_to_samples names_project_cycles_to_samples [varr cells; vvec cv].
  Definition env0_project_subset_to_cycles (cells : list (option A)) (sv : list Z) : env V :=
    frame params_project_subset_to_cycles names_project_subset_to_cycles [varr cells; vvec sv].
  Definition env0_project_subset_to_samples (cells : list (option A)) (sv cv : list Z) : env V :=
    frame params_project_subset_to_samples names_project_subset_to_samples [varr cells; vvec sv; vvec cv].
  Definition env0_project_chain_to_subset (cells : list (option A)) (chv : list Z) : env V :=
    frame params_project_chain_to_subset names_project_chain_to_subset [varr cells; vvec chv].
  Definition env0_project_chain_to_cycles (cells : list (option A)) (chv sv : list Z) : env V :=
    frame params_project_chain_to_cycles names_project_chain_to_cycles [varr cells; vvec chv; vvec sv].
  Definition env0_project_chain_to_samples (cells : list (option A)) (chv sv cv : list Z) : env V :=
    frame params_project_chain_to_samples names_project_chain_to_samples [varr cells; vvec chv; vvec sv; vvec cv].

  (* ---- rendering of model results -------------------------------------------------------------------- *)
  Definition fwd_outcome (f : fwd) : outcome V := res_outcome (fwd_res f).
  Definition idx_outcome (l : list nat) : outcome V := Return (vidx l).
  (* a model projection: one [option A] per element (None = nan) *)
  Definition proj_outcome (l : list (option A)) : outcome V := Return (varr l).
  (* per-item values without nan, as the model's projections take them *)
  Definition cells_of (vals : list A) : list (option A) := map Some vals.
End MapsPrims.
