(* TIE of emd/support.py (ensure_vector, ensure_1d_with_singleton, ensure_2d, ensure_equal_dims) to model/Shapes.v:
   THE REVIEWABLE PART - the primitive mapping table, the initial environments, the rendering. Definitions only;
   the proofs are in proofs/SkelFacts_Support.v, the statements in props/Prop_Tie_Support.v.

   gen/Gen_Skel_Support.v (regenerated from /repo on every run by harness/gen_skel_support.py) holds the four
   bodies as programs of lib/PyLoop.v. The abstract value type is the type of SHAPES: an array is [VSig s] with
   s : list nat, its data are not represented (every reshape below is a C-order view; data preservation is the
   ORACLE part of C19). A tuple of ints (xx.shape) is a list of nats [VList (map VNat s)]; the list `to_check` is
   [VList (map VSig l)]; `names` is a list [VList ns] of arbitrary values, `func_name` an arbitrary value.

   NAME CLASH: model/Shapes.v and lib/PyLoop.v both define Ok / bind. Here the unqualified names are PyLoop's
   ([Ok v | Exc name | Bad], the result of a primitive); the model's are written [Shapes.Ok], [Shapes.Err]. *)
From Coq Require Import String List Bool Arith.
From EmdV Require Import model.Shapes lib.PyLoop lib.PyLoopTools gen.Gen_Skel_Support.
Import ListNotations.
Open Scope string_scope.

(* ---- how model values show at the Python level ------------------------------------------------- *)
Definition exn_name (e : err) : string :=
  match e with IndexErr => "IndexError" | ValueErr => "ValueError" end.

(* the result of a reshape of the model, as the result of a primitive *)
Definition lift (r : result shape) : res (val shape) :=
  match r with Shapes.Ok s => Ok (VSig s) | Shapes.Err e => Exc (exn_name e) end.

Definition arrays (l : list shape) : val shape := VList (map VSig l).      (* a list / tuple of arrays *)
Definition int_tuple (d : list nat) : val shape := VList (map VNat d).     (* xx.shape *)

(* ---- list primitives ---------------------------------------------------------------------------- *)
Definition set_nth {A : Type} (i : nat) (v : A) (l : list A) : list A := (firstn i l ++ v :: skipn (S i) l)%list.

(* enumerate(l) from index i: [(i, l0); (i+1, l1); ...] *)
Fixpoint enum_from (i : nat) (l : list (val shape)) : list (val shape) :=
  match l with
  | [] => []
  | v :: t => VList [VNat i; v] :: enum_from (S i) t
  end.

(* o[i][<reshape f>]: the i-th array of the list o through the model's reshape f *)
Definition item_reshape (f : shape -> result shape) (o : list (val shape)) (i : nat) : res (val shape) :=
  match nth_error o i with
  | Some (VSig s) => lift (f s)
  | Some _ => Bad
  | None => Exc "IndexError"
  end.

(* o[i].ndim *)
Definition item_ndim (o : list (val shape)) (i : nat) : res (val shape) :=
  match nth_error o i with
  | Some (VSig s) => Ok (VNat (length s))
  | Some _ => Bad
  | None => Exc "IndexError"
  end.

(* o[i].shape *)
Definition item_shape (o : list (val shape)) (i : nat) : res (val shape) :=
  match nth_error o i with
  | Some (VSig s) => Ok (int_tuple s)
  | Some _ => Bad
  | None => Exc "IndexError"
  end.

(* N11, `o[i] = v`: the NEW value of the list *)
Definition store (o : list (val shape)) (i : nat) (v : val shape) : res (val shape) :=
  if (i <? length o)%nat then Ok (VList (set_nth i v o)) else Exc "IndexError".

(* msg.format(func_name, names[idx], ...): the text is not modelled, `names[idx]` is (IndexError) *)
Definition format_name (ns : list (val shape)) (i : nat) : res (val shape) :=
  match nth_error ns i with Some _ => Ok (VStr "") | None => Exc "IndexError" end.

(* ---- numpy primitives on tuples of ints / lists of bools ---------------------------------------- *)
(* elementwise `tuple == array` *)
Definition val_eq (x y : val shape) : val shape :=
  match x, y with VNat a, VNat b => VBool (a =? b)%nat | _, _ => VNone end.
Fixpoint elt_eq (a b : list (val shape)) : list (val shape) :=
  match a, b with
  | x :: a', y :: b' => val_eq x y :: elt_eq a' b'
  | _, _ => []
  end.
(* np.all of a list of bools (anything else: Bad) *)
Fixpoint all_true (bs : list (val shape)) : option bool :=
  match bs with
  | [] => Some true
  | VBool b :: t => match all_true t with Some r => Some (b && r) | None => None end
  | _ => None
  end.
Definition np_all (bs : list (val shape)) : res (val shape) :=
  match all_true bs with Some b => Ok (VBool b) | None => Bad end.
(* np.ones_like(t) *)
Definition ones_like (l : list (val shape)) : list (val shape) := map (fun _ => VNat 1) l.

(* ---- the two comprehensions of ensure_equal_dims ------------------------------------------------- *)
(* a list value all of whose elements are arrays / tuples of ints (represented as VSig) *)
Fixpoint sigs (l : list (val shape)) : option (list shape) :=
  match l with
  | [] => Some []
  | VSig s :: t => match sigs t with Some r => Some (s :: r) | None => None end
  | _ => None
  end.

(* [tuple(np.array(x.shape)[dim]) for x in to_check]: the model's [compared_dims], array after array, the
   first IndexError raises; a tuple of compared lengths is represented as VSig (a list nat) *)
Definition all_dims_of (dim : option nat) (r0 : nat) (l : list (val shape)) : res (val shape) :=
  match sigs l with
  | None => Bad
  | Some ss => match map_result (compared_dims dim r0) ss with
               | Shapes.Ok ds => Ok (arrays ds)
               | Shapes.Err e => Exc (exn_name e)
               end
  end.

(* [all_dims[0] == all_dims[ii + 1] for ii in range(len(all_dims[1:]))]; all_dims[0] is not evaluated when
   all_dims is empty (range(0)) *)
Definition pairwise_of (ds : list (val shape)) : res (val shape) :=
  match sigs ds with
  | None => Bad
  | Some [] => Ok (VList [])
  | Some (d0 :: t) => Ok (VList (map (fun d => VBool (dims_eqb d0 d)) t))
  end.

(* ---- THE TABLE (one for the four functions; the names are copied from gen/Gen_Skel_Support.v) ------ *)
Definition support_table : list (string * handler shape) :=
  [ (* builtins *)
    ("list", fun args kw => match args, kw with [VList l], [] => Ok (VList l) | _, _ => Bad end);
    ("enumerate", fun args kw => match args, kw with [VList l], [] => Ok (VList (enum_from 0 l)) | _, _ => Bad end);
    ("range", range_handler);
    ("len", len_handler);
    (* attributes of one array *)
    ("xx.ndim", fun args kw => match args, kw with [VSig s], [] => Ok (VNat (length s)) | _, _ => Bad end);
    ("xx.shape", fun args kw => match args, kw with [VSig s], [] => Ok (int_tuple s) | _, _ => Bad end);
    ("xx.shape[1:]", fun args kw => match args, kw with [VSig s], [] => Ok (int_tuple (tl s)) | _, _ => Bad end);
    ("to_check[idx].ndim", fun args kw => match args, kw with [VList l; VNat i], [] => item_ndim l i | _, _ => Bad end);
    ("to_check[0].ndim", fun args kw => match args, kw with [VList l], [] => item_ndim l 0 | _, _ => Bad end);
    ("to_check[ii].shape", fun args kw => match args, kw with [VList l; VNat i], [] => item_shape l i | _, _ => Bad end);
    (* numpy on tuples / bool lists *)
    ("np.ones_like", fun args kw => match args, kw with [VList l], [] => Ok (VList (ones_like l)) | _, _ => Bad end);
    ("==", fun args kw => match args, kw with
                          | [VList a; VList b], [] =>
                              if (length a =? length b)%nat then Ok (VList (elt_eq a b)) else Bad
                          | [VBool a; VBool b], [] => Ok (VBool (Bool.eqb a b))
                          | _, _ => Bad end);
    ("np.all", fun args kw => match args, kw with [VList bs], [] => np_all bs | _, _ => Bad end);
    ("+", fun args kw => match args, kw with
                         | [VList a; VList b], [] => Ok (VList (a ++ b))
                         | [VStr a; VStr b], [] => Ok (VStr (a ++ b))
                         | _, _ => Bad end);
    (* THE RESHAPES: the shape operations of model/Shapes.v *)
    ("np.squeeze(xx)[:, np.newaxis]",
       fun args kw => match args, kw with [VSig s], [] => lift (add_axis1 (squeeze s)) | _, _ => Bad end);
    ("out_args[idx][:, 0]",
       fun args kw => match args, kw with [VList o; VNat i], [] => item_reshape drop_axis1 o i | _, _ => Bad end);
    ("out_args[idx][:, np.newaxis]",
       fun args kw => match args, kw with [VList o; VNat i], [] => item_reshape add_axis1 o i | _, _ => Bad end);
    ("out_args[idx] =", fun args kw => match args, kw with [VList o; VNat i; v], [] => store o i v | _, _ => Bad end);
    (* messages *)
    ("msg.format(func_name, names[idx], xx.shape)",
       fun args kw => match args, kw with [VStr _; _; VList ns; VNat i; VSig _], [] => format_name ns i | _, _ => Bad end);
    ("msg.format(func_name, names[idx])",
       fun args kw => match args, kw with [VStr _; _; VList ns; VNat i], [] => format_name ns i | _, _ => Bad end);
    ("str.format", fun args kw => match args, kw with VStr _ :: _, [] => Ok (VStr "") | _, _ => Bad end);
    (* ensure_equal_dims *)
    ("np.arange", fun args kw => match args, kw with [VNat r], [] => Ok (VOpaque "arange" [VNat r]) | _, _ => Bad end);
    ("[tuple(np.array(x.shape)[dim]) for x in to_check]",
       fun args kw => match args, kw with
                      | [VOpaque t [VNat r]; VList l], [] =>                    (* dim = np.arange(r) *)
                          if String.eqb t "arange" then all_dims_of None r l else Bad
                      | [VList [VNat d]; VList l], [] => all_dims_of (Some d) 0 l      (* dim = [d] *)
                      | _, _ => Bad end);
    ("[all_dims[0] == all_dims[ii + 1] for ii in range(len(all_dims[1:]))]",
       fun args kw => match args, kw with [VList ds], [] => pairwise_of ds | _, _ => Bad end) ].

Definition support_prims : prims shape := prims_of support_table.

(* ---- initial environments: the call f(to_check, names, func_name[, dim]) ---------------------------- *)
Definition ev_names : list string := Eval cbv in assigned prog_ensure_vector params_ensure_vector.
Definition e1d_names : list string :=
  Eval cbv in assigned prog_ensure_1d_with_singleton params_ensure_1d_with_singleton.
Definition e2d_names : list string := Eval cbv in assigned prog_ensure_2d params_ensure_2d.
Definition eqd_names : list string := Eval cbv in assigned prog_ensure_equal_dims params_ensure_equal_dims.

Definition ev_env0 (l : list shape) (ns : list (val shape)) (fn : val shape) : env shape :=
  frame params_ensure_vector ev_names [arrays l; VList ns; fn].
Definition e1d_env0 (l : list shape) (ns : list (val shape)) (fn : val shape) : env shape :=
  frame params_ensure_1d_with_singleton e1d_names [arrays l; VList ns; fn].
Definition e2d_env0 (l : list shape) (ns : list (val shape)) (fn : val shape) : env shape :=
  frame params_ensure_2d e2d_names [arrays l; VList ns; fn].

Definition dim_val (dim : option nat) : val shape := match dim with None => VNone | Some d => VNat d end.
Definition eqd_env0 (l : list shape) (ns : list (val shape)) (fn : val shape) (dim : option nat) : env shape :=
  frame params_ensure_equal_dims eqd_names [arrays l; VList ns; fn; dim_val dim].

(* ---- rendering ---------------------------------------------------------------------------------------- *)
(* `return out_args[0] if there is one array else out_args`; an error of the model is the exception raised *)
Definition render_arrays (r : result (list shape)) : outcome shape :=
  match r with
  | Shapes.Err e => Raise (exn_name e)
  | Shapes.Ok [s] => Return (VSig s)
  | Shapes.Ok l => Return (arrays l)
  end.

(* ensure_equal_dims returns nothing: it falls off its end (some final environment) or raises *)
Definition agrees_unit (o : outcome shape) (r : result unit) : Prop :=
  match r with
  | Shapes.Err e => o = Raise (exn_name e)
  | Shapes.Ok _ => exists e, o = Normal e
  end.
