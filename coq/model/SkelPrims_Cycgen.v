(* Control-skeleton tie of the four GENERATOR methods of emd.cycles.IterateCycles (iterate_cycles, iterate_valids,
   iterate_subset, iterate_chains) and of IterateCycles.__init__ (properties C14 / C15; notes/TIE_CYCGEN.md).
   THE REVIEWABLE PART: the list-level models of what each iteration mode yields, the rows added to the table of
   model/SkelPrims_Cyciter.v, the initial environments and the rendering. Definitions only; the proofs are in
   proofs/SkelFacts_Cycgen.v, the statements in props/Prop_Tie_Cycgen.v.

   The generators are translated by the opt-in normalisation N19 (generators_as_lists) of harness/gen_skeleton.py:
   prog_<f> is the function that RETURNS THE LIST of the yielded values, in order (what list(f()) computes): a hidden
   accumulator "__yield" = [] at the top, `yield e` -> __yield = "list.append"(__yield, e), a final `return __yield`.
   Laziness / interleaving with the consumer is not modelled; when the generator raises, the values yielded before
   the exception are not in the outcome (as with list(f())).

   Value universe, attribute rows of an IterateCycles object (ILoop lp), the callee rows map_cycle_to_samples /
   map_cycle_to_samples_augmented (aug_res, proved against the callee's own program in Prop_Tie_Cyciter.v) come from
   model/SkelPrims_Cyciter.v (imported, not edited). *)
From Coq Require Import String List Bool Arith ZArith Lia.
From EmdV Require Import lib.NpLite model.CycleMaps model.CycleVec model.CycleStat model.CyclesObj.
From EmdV Require Import lib.PyLoop lib.PyLoopTools.
From EmdV Require Import model.SkelPrims_Cyciter gen.Gen_Skel_Cycgen.
Import ListNotations.
Open Scope string_scope.

Local Notation V := ival.
Local Notation val := (val V).

(* ====================================================================================================== *)
(* 1. list-level models: what each iteration mode yields                                                   *)
(* ====================================================================================================== *)
(* a yielded pair (index, sample indices); None = the Python None that map_cycle_to_samples_augmented returns
   when the previous cycle has no sample above the trough *)
Definition item := (nat * option (list nat))%type.
(* what one call of a sample map answers: an index array, None, an exception; Bad = not modelled *)
Definition inds_res := res (option (list nat)).

(* the loop of a generator: [step a] is what the body does for the element a:
   Ok (Some it) = it is yielded, Ok None = nothing is yielded (`continue`), Exc = the generator raises there *)
Fixpoint gen_collect {A : Type} (step : A -> res (option item)) (l : list A) : res (list item) :=
  match l with
  | [] => Ok []
  | a :: t =>
      match step a with
      | Ok o => match gen_collect step t with
                | Ok r => Ok (match o with Some it => it :: r | None => r end)
                | Exc x => Exc x
                | Bad => Bad
                end
      | Exc x => Exc x
      | Bad => Bad
      end
  end.

(* `yield idx, inds` (inds may be None) *)
Definition yield_item (idx : nat) (r : inds_res) : res (option item) :=
  match r with Ok o => Ok (Some (idx, o)) | Exc x => Exc x | Bad => Bad end.
(* `if inds is None: continue` before `yield idx, inds` (iterate_valids) *)
Definition yield_skip (idx : nat) (r : inds_res) : res (option item) :=
  match r with Ok (Some l) => Ok (Some (idx, Some l)) | Ok None => Ok None | Exc x => Exc x | Bad => Bad end.

(* enumerate(l) *)
Definition enumerate {A : Type} (l : list A) : list (nat * A) := combine (seq 0 (length l)) l.

Section CycgenModels.
  Variable trough : Z.                         (* integer code of 1.5*pi, as CyclesObj.s_trough *)

  (* map_cycle_to_samples_augmented as the CODE behaves (SkelPrims_Cyciter.aug_res, at the level of index lists) *)
  Definition aug_inds (cv ph : list Z) (k : Z) : inds_res :=
    match filter (fun i => Z.ltb trough (nth i ph 0%Z)) (map_cycle_to_samples cv (k - 1)) with
    | [] => Ok None
    | _ :: _ => match map_cycle_to_samples_aug trough cv ph k with
                | Some l => Ok (Some l)
                | None => Exc "IndexError"
                end
    end.

  (* the mode dispatch of iterate_cycles / iterate_valids for the cycle k; a missing phase in augmented mode
     (TypeError in Python) is not modelled *)
  Definition cycle_inds (m : pymode) (cv : list Z) (ph : option (list Z)) (k : Z) : inds_res :=
    match m with
    | PyMode MCycle => Ok (Some (map_cycle_to_samples cv k))
    | PyMode MAug => match ph with Some p => aug_inds cv p k | None => Bad end
    | PyOther => Exc "ValueError"
    end.

  (* the mode dispatch of iterate_subset for the subset index j; a subset index that does not select exactly one
     cycle is the numpy broadcast that CycleMaps.map_subset_to_sample does not model either (Bad) *)
  Definition subset_inds (m : pymode) (sv cv : list Z) (ph : option (list Z)) (j : Z) : inds_res :=
    match m with
    | PyMode MCycle => match map_subset_to_sample sv cv j with Some l => Ok (Some l) | None => Bad end
    | PyMode MAug => match ph with
                     | Some p => match map_subset_to_cycle sv j with
                                 | [k] => aug_inds cv p (Z.of_nat k)
                                 | _ => Bad
                                 end
                     | None => Bad
                     end
    | PyOther => Exc "ValueError"
    end.

  (* map_chain_to_samples as the code behaves (row of Prop_Tie_Maps.v): np.hstack([]) raises for a chain without
     members; otherwise the model CycleMaps.map_chain_to_samples *)
  Definition chain_inds (chv sv cv : list Z) (c : Z) : inds_res :=
    match map_chain_to_subset chv c with
    | [] => Exc "ValueError"
    | _ => match map_chain_to_samples chv sv cv c with Some l => Ok (Some l) | None => Bad end
    end.

  (* ---- THE FOUR MODELS ---------------------------------------------------------------------------------- *)
  (* iterate_cycles: every cycle index 0 .. ncycles-1; in augmented mode a cycle without augmented samples is
     yielded WITH None (not skipped) *)
  Definition gen_cycles (m : pymode) (cv : list Z) (ph : option (list Z)) : res (list item) :=
    gen_collect (fun k => yield_item k (cycle_inds m cv ph (Z.of_nat k))) (seq 0 (ncycles cv)).

  (* iterate_valids: the cycles whose flag is set, in increasing order; the yielded index is the POSITION idx in
     that selection (enumerate), not the cycle number; an augmented None is skipped (idx still counts) *)
  Definition gen_valids (m : pymode) (valids : list bool) (cv : list Z) (ph : option (list Z)) : res (list item) :=
    gen_collect (fun ik => yield_skip (fst ik) (cycle_inds m cv ph (Z.of_nat (snd ik))))
                (enumerate (where_mask valids)).

  (* iterate_subset: every subset index 0 .. nsubset-1 *)
  Definition gen_subset (m : pymode) (sv cv : list Z) (ph : option (list Z)) : res (list item) :=
    gen_collect (fun j => yield_item j (subset_inds m sv cv ph (Z.of_nat j))) (seq 0 (nsubset sv)).

  (* iterate_chains: every chain index 0 .. nchain-1 (no mode) *)
  Definition gen_chains (chv sv cv : list Z) : res (list item) :=
    gen_collect (fun c => yield_item c (chain_inds chv sv cv (Z.of_nat c))) (seq 0 (nchains chv)).
End CycgenModels.

(* the items that correspond to the visits of SkelPrims_Cyciter.iter_subset_cycles (mode 'cycle'): the samples
   of the cycle(s) each subset index selects *)
Definition subset_items (cv : list Z) (visits : list (nat * list nat)) : list item :=
  map (fun jc => (fst jc, Some (flat_map (fun k => map_cycle_to_samples cv (Z.of_nat k)) (snd jc)))) visits.

(* ====================================================================================================== *)
(* 2. values                                                                                               *)
(* ====================================================================================================== *)
Definition vinds (o : option (list nat)) : val := match o with Some l => vidx l | None => VNone end.
(* the tuple (idx, inds) *)
Definition vitem (it : item) : val := VList [VNat (fst it); vinds (snd it)].
Definition inds_val (r : inds_res) : res val :=
  match r with Ok o => Ok (vinds o) | Exc x => Exc x | Bad => Bad end.
(* an element of enumerate(np.where(valids)[0]): a Python int and a numpy integer *)
Definition venum (ik : nat * nat) : val := VList [VNat (fst ik); vint (Z.of_nat (snd ik))].

(* ---- an object under construction (IterateCycles.__init__): its attribute dictionary, in order of first store *)
Definition vobj (attrs : list val) : val := VOpaque "object" attrs.
Definition attr (name : string) (v : val) : val := VList [VStr name; v].
Fixpoint set_attr (name : string) (v : val) (attrs : list val) : list val :=
  match attrs with
  | [] => [attr name v]
  | VList [VStr n; w] :: t =>
      if String.eqb n name then attr name v :: t else VList [VStr n; w] :: set_attr name v t
  | x :: t => x :: set_attr name v t
  end.
Fixpoint get_attr (name : string) (attrs : list val) : option val :=
  match attrs with
  | [] => None
  | VList [VStr n; w] :: t => if String.eqb n name then Some w else get_attr name t
  | _ :: t => get_attr name t
  end.

(* n + 1 for the maximum of a vector; None: `.max()` of an empty array raises, no such object exists *)
Definition count_val (l : list Z) : option val :=
  match vec_max l with Some z => Some (vint (z + 1)) | None => None end.
Definition count_attr (name : string) (o : option (list Z)) : list val :=
  match o with
  | Some l => match count_val l with Some v => [attr name v] | None => [] end
  | None => []
  end.

(* THE OBJECT THAT [ILoop lp] STANDS FOR: the attributes __init__ stores, in the order it stores them
   (ncycles / nsamples / nsubset / nchain exist only when the vector was given) *)
Definition looper_attrs (lp : looper) : list val :=
  ([ attr "cycle_vect" (voptvec (l_cv lp)); attr "subset_vect" (voptvec (l_sv lp));
     attr "chain_vect" (voptvec (l_chv lp)); attr "phase" (voptvec (l_ph lp));
     attr "valids" (vbools (l_valids lp)); attr "mode" (VStr (mode_str (l_mode lp)));
     attr "iter_through" (VStr (through_str (l_through lp))) ]
   ++ count_attr "ncycles" (l_cv lp)
   ++ match l_cv lp with Some cv => [attr "nsamples" (VNat (length cv))] | None => [] end
   ++ count_attr "nsubset" (l_sv lp)
   ++ count_attr "nchain" (l_chv lp))%list.

(* ====================================================================================================== *)
(* 3. the table: rows added in front of SkelPrims_Cyciter.iter_table                                       *)
(* ====================================================================================================== *)
Section CycgenPrims.
  Variable trough : Z.

  (* the rows of the Cyciter table (its oracles gm / gcv belong to rows that these programs never call) *)
  Definition base_table : list (string * handler V) := iter_table trough Bad Bad.
  Definition fallback (name : string) : handler V :=
    fun args kw => match table_lookup base_table name with Some h => h args kw | None => Bad end.

  (* self.<name> = v on an object under construction; self.<name> read from it *)
  Definition h_store (name : string) : handler V :=
    fun args kw => match args, kw with
                   | [VOpaque t attrs; v], [] =>
                       if String.eqb t "object" then Ok (vobj (set_attr name v attrs)) else Bad
                   | _, _ => Bad
                   end.
  Definition load (name : string) (attrs : list val) : res val :=
    match get_attr name attrs with Some v => Ok v | None => Exc "AttributeError" end.
  (* an attribute row: an object under construction answers from its dictionary, anything else goes to [other] *)
  Definition h_attr (name : string) (other : handler V) : handler V :=
    fun args kw => match args, kw with
                   | [VOpaque t attrs], [] => if String.eqb t "object" then load name attrs else Bad
                   | _, _ => other args kw
                   end.
  (* self.ncycles / nsubset / nchain of a finished object: AttributeError when the vector was not given *)
  Definition h_count (field : looper -> option (list Z)) : handler V :=
    fun args kw => match args, kw with
                   | [VSig (ILoop lp)], [] =>
                       match field lp with
                       | None => Exc "AttributeError"
                       | Some l => match count_val l with Some v => Ok v | None => Bad end
                       end
                   | _, _ => Bad
                   end.
  Definition h_max : handler V :=
    fun args kw => match args, kw with [VSig (IVec l)], [] => max_res (Some l) | _, _ => Bad end.

  (* callee rows. map_subset_to_sample / map_chain_to_samples: as tied in Prop_Tie_Maps.v (row_map_subset_to_sample,
     row_map_chain_to_samples); map_subset_to_sample_augmented: as tied in Prop_Tie_Cyciter.v
     (skeleton_map_subset_to_sample_augmented) *)
  Definition call_sub_sample (sv cv : list Z) (ii : val) : res val :=
    match as_scalar ii with
    | Some j => match map_subset_to_sample sv cv j with Some l => Ok (vidx l) | None => Bad end
    | None => Bad
    end.
  Definition call_sub_aug (sv cv : list Z) (ii : val) (ph : list Z) : res val :=
    match as_scalar ii with
    | Some j => match map_subset_to_cycle sv j with [k] => aug_res trough cv ph (Z.of_nat k) | _ => Bad end
    | None => Bad
    end.
  Definition call_chain_samples (chv sv cv : list Z) (ii : val) : res val :=
    match as_scalar ii with
    | Some c => match map_chain_to_subset chv c with
                | [] => Exc "ValueError"
                | _ => match map_chain_to_samples chv sv cv c with Some l => Ok (vidx l) | None => Bad end
                end
    | None => Bad
    end.

  (* list concatenation under its own name (the evaluator of the proofs unfolds it, but not List.app) *)
  Fixpoint table_app (a b : list (string * handler V)) : list (string * handler V) :=
    match a with [] => b | r :: t => r :: table_app t b end.

  Definition gen_rows : list (string * handler V) :=
    [ (* N19: the accumulator; the primitive returns the list AFTER the append *)
      ("list.append", fun args kw => match args, kw with
                                     | [VList l; v], [] => Ok (VList (l ++ [v]))
                                     | _, _ => Bad
                                     end);
      (* ---- attributes of a finished IterateCycles object (ILoop lp = the object with looper_attrs lp) ---- *)
      ("self.mode", h_attr "mode"
         (fun args kw => match args, kw with [VSig (ILoop lp)], [] => Ok (VStr (mode_str (l_mode lp))) | _, _ => Bad end));
      ("self.valids", h_attr "valids"
         (fun args kw => match args, kw with [VSig (ILoop lp)], [] => Ok (vbools (l_valids lp)) | _, _ => Bad end));
      ("self.phase", h_attr "phase"
         (fun args kw => match args, kw with
                         | [VSig (ILoop lp)], [] => Ok (voptvec (l_ph lp))
                         | _, _ => fallback "self.phase" args kw
                         end));
      ("self.cycle_vect", h_attr "cycle_vect" (fallback "self.cycle_vect"));
      ("self.subset_vect", h_attr "subset_vect" (fallback "self.subset_vect"));
      ("self.chain_vect", h_attr "chain_vect" (fallback "self.chain_vect"));
      ("self.ncycles", h_count l_cv);
      ("self.nsubset", h_count l_sv);
      ("self.nchain", h_count l_chv);
      (* ---- iterate_valids ---- *)
      ("enumerate", fun args kw => match args, kw with
                                   | [VSig (IIdx l)], [] => Ok (VList (map venum (enumerate l)))
                                   | _, _ => Bad
                                   end);
      (* ---- iterate_subset / iterate_chains: callees ---- *)
      ("_cycles_support.map_subset_to_sample",
        fun args kw => match args, kw with
                       | [VSig (IVec sv); VSig (IVec cv); ii], [] => call_sub_sample sv cv ii
                       | _, _ => Bad
                       end);
      ("_cycles_support.map_subset_to_sample_augmented",
        fun args kw => match args, kw with
                       | [VSig (IVec sv); VSig (IVec cv); ii; VSig (IVec ph)], [] => call_sub_aug sv cv ii ph
                       | _, _ => Bad
                       end);
      ("_cycles_support.map_chain_to_samples",
        fun args kw => match args, kw with
                       | [VSig (IVec chv); VSig (IVec sv); VSig (IVec cv); ii], [] => call_chain_samples chv sv cv ii
                       | _, _ => Bad
                       end);
      (* ---- IterateCycles.__init__: N11 attribute stores on the object under construction ---- *)
      ("self.cycle_vect =", h_store "cycle_vect");
      ("self.subset_vect =", h_store "subset_vect");
      ("self.chain_vect =", h_store "chain_vect");
      ("self.phase =", h_store "phase");
      ("self.valids =", h_store "valids");
      ("self.mode =", h_store "mode");
      ("self.iter_through =", h_store "iter_through");
      ("self.ncycles =", h_store "ncycles");
      ("self.nsamples =", h_store "nsamples");
      ("self.nsubset =", h_store "nsubset");
      ("self.nchain =", h_store "nchain");
      ("cycle_vect.max()", h_max);
      ("subset_vect.max()", h_max);
      ("chain_vect.max()", h_max);
      ("cycle_vect.shape", fun args kw => match args, kw with
                                          | [VSig (IVec l)], [] => Ok (VList [VNat (length l)])
                                          | _, _ => Bad
                                          end) ].
  (* the new rows first, then range, np.where, +, _cycles_support.map_cycle_to_samples(_augmented), ... *)
  Definition gen_table : list (string * handler V) := table_app gen_rows base_table.
  Definition gen_prims : prims V := prims_of gen_table.

  (* ---- initial environments ----------------------------------------------------------------------------- *)
  Definition names_init := Eval cbv in assigned prog_IterateCycles_init params_IterateCycles_init.
  Definition names_gcycles :=
    Eval cbv in assigned prog_IterateCycles_iterate_cycles params_IterateCycles_iterate_cycles.
  Definition names_gvalids :=
    Eval cbv in assigned prog_IterateCycles_iterate_valids params_IterateCycles_iterate_valids.
  Definition names_gsubset :=
    Eval cbv in assigned prog_IterateCycles_iterate_subset params_IterateCycles_iterate_subset.
  Definition names_gchains :=
    Eval cbv in assigned prog_IterateCycles_iterate_chains params_IterateCycles_iterate_chains.

  (* IterateCycles(iter_through=t, mode=m, valids=v, cycle_vect=cv, subset_vect=sv, chain_vect=chv, phase=ph):
     self is the fresh object (no attributes) *)
  Definition env0_init (t : through) (m : pymode) (v : option (list bool)) (cv sv chv ph : option (list Z)) : env V :=
    frame params_IterateCycles_init names_init
          [vobj []; VStr (through_str t); VStr (mode_str m); vbools v; voptvec cv; voptvec sv; voptvec chv; voptvec ph].
  Definition env0_gcycles (lp : looper) : env V :=
    frame params_IterateCycles_iterate_cycles names_gcycles [vloop lp].
  Definition env0_gvalids (lp : looper) : env V :=
    frame params_IterateCycles_iterate_valids names_gvalids [vloop lp].
  Definition env0_gsubset (lp : looper) : env V :=
    frame params_IterateCycles_iterate_subset names_gsubset [vloop lp].
  Definition env0_gchains (lp : looper) : env V :=
    frame params_IterateCycles_iterate_chains names_gchains [vloop lp].

  (* ---- rendering: the translated generator returns the list of yielded tuples ---------------------------- *)
  Definition gen_render (r : res (list item)) : outcome V :=
    match r with Ok l => Return (VList (map vitem l)) | Exc x => Raise x | Bad => Stuck end.
End CycgenPrims.
