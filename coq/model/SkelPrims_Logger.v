(* Control-skeleton tie of emd/logger.py (notes/TIE_LOGGER.md, property C20): THE REVIEWABLE PART.
   Definitions only: the state-passing encoding, the primitive mapping tables, the initial environments and the
   rendering of the results of model/Logger.v. Proofs: proofs/SkelFacts_Logger.v; statements: props/Prop_Tie_Logger.v.

   THE ENCODING OF THE GLOBAL LOGGER STATE.  The primitives of lib/PyLoop.v are pure functions of their arguments
   and the mini language has no global state, whereas everything these functions do is reading and writing the
   process-global `logging` state, in EXPRESSION STATEMENTS whose value is dropped (`set_level(level=tmp_level)`,
   `handler.setLevel(..)`, `logging.disable(..)`).  The translator cannot be told about that, so the standard
   state-passing translation is applied IN COQ to the generated program ([thread], below, 40 lines):
     - one designated variable "$logger" (not a Python identifier: it cannot clash) holds the state;
     - a call of a primitive listed in [readers] receives the current value of "$logger" as an extra FIRST argument;
     - an expression statement `w(args)` with w listed in [writers] becomes `$logger = w($logger, args)`: a
       writer returns the NEW state;
     - nothing else changes.  A writer called anywhere else than as an expression statement is left as it is,
       does not get the state, does not match its row of the table and is therefore Stuck (fail closed).
   [erase] is the inverse plumbing-removal; proofs/SkelFacts_Logger.v checks [erase (thread prog) = prog] for every
   program tied here, i.e. that [thread] added the state plumbing and nothing else.  The theorems are about
   [exec P (thread prog_f)]; the final state is read off "$logger" in [final_env] (the environment in which the
   execution stopped - also after a Return or a Raise).
   ASSUMPTION made by listing the call of func (the wrapped function) as a reader: the wrapped function may LOOK at the logger
   state (its result [fres s] is an arbitrary function of the state it runs in) but does not change it.  This is
   also the assumption of model/Logger.v ([call] computes the state from [s] and [verbose] alone).

   TWO LAYERS.
   (1) [inner_verbose] is tied directly to model/Logger.v: the state is an [lstate], the primitives "get_level" /
       "set_level" ARE [Logger.get_level] / [Logger.set_level], the result is [Logger.step s (Call v o)].
   (2) [set_level], [get_level], [disable], [enable], [is_active] are tied one level below: the state is a [world] =
       the handler list of logging.getLogger('emd') (kind and level of each handler) + the logging.disable flag +
       the logger's own `disabled` attribute; what is opaque is the manipulation of ONE handler / flag.  [abs] maps a
       world to the [lstate] of model/Logger.v, and the theorems say that the translated functions commute with
       [abs]: this justifies the two rows "get_level" / "set_level" of layer (1). *)
From Coq Require Import String List Bool Arith ZArith.
From EmdV Require Import lib.PyLoop lib.PyLoopTools gen.Gen_Skel_Logger.
From EmdV Require model.Logger.
Import ListNotations.
Open Scope string_scope.

(* ================================================================================================ *)
(* 0. the state-passing translation                                                                  *)
(* ================================================================================================ *)
Definition mem (x : string) (l : list string) : bool := existsb (String.eqb x) l.

Section Thread.
  Variable st : string.                       (* the designated state variable *)
  Variable readers writers : list string.     (* primitive names, as emitted by the translator *)

  Fixpoint texpr (e : expr) : expr :=
    match e with
    | ECall f args kw =>
        let args' := map texpr args in
        let kw' := map (fun ka => (fst ka, texpr (snd ka))) kw in
        if mem f readers then ECall f (EVar st :: args') kw' else ECall f args' kw'
    | EIsNone a => EIsNone (texpr a)
    | ENot a => ENot (texpr a)
    | EOr a b => EOr (texpr a) (texpr b)
    | EAnd a b => EAnd (texpr a) (texpr b)
    | ECmp op a b => ECmp op (texpr a) (texpr b)
    | EArith op a b => EArith op (texpr a) (texpr b)
    | EList es => EList (map texpr es)
    | EIndex a i => EIndex (texpr a) (texpr i)
    | EVar _ | ENone | EBool _ | ENat _ | EStr _ => e
    end.

  Fixpoint thread (s : stmt) : stmt :=
    match s with
    | SExpr (ECall f args kw) =>
        if mem f writers
        then SAssign st (ECall f (EVar st :: map texpr args) (map (fun ka => (fst ka, texpr (snd ka))) kw))
        else SExpr (texpr (ECall f args kw))
    | SExpr e => SExpr (texpr e)
    | SAssign x e => SAssign x (texpr e)
    | SUnpack xs e => SUnpack xs (texpr e)
    | SSeq a b => SSeq (thread a) (thread b)
    | SIf c a b => SIf (texpr c) (thread a) (thread b)
    | SWhile c b => SWhile (texpr c) (thread b)
    | SRaise exn args => SRaise exn (map texpr args)
    | SReturn e => SReturn (texpr e)
    | SFor x it b => SFor x (texpr it) (thread b)
    | STry b hs f => STry (thread b) (map (fun nh => (fst nh, thread (snd nh))) hs) (thread f)
    | SSkip | SContinue => s
    end.

  (* the inverse: remove the plumbing *)
  Definition is_st (e : expr) : bool := match e with EVar x => String.eqb x st | _ => false end.

  Fixpoint eexpr (e : expr) : expr :=
    match e with
    | ECall f args kw =>
        let args' := map eexpr args in
        let kw' := map (fun ka => (fst ka, eexpr (snd ka))) kw in
        match args' with
        | a :: t => if mem f readers && is_st a then ECall f t kw' else ECall f args' kw'
        | [] => ECall f args' kw'
        end
    | EIsNone a => EIsNone (eexpr a)
    | ENot a => ENot (eexpr a)
    | EOr a b => EOr (eexpr a) (eexpr b)
    | EAnd a b => EAnd (eexpr a) (eexpr b)
    | ECmp op a b => ECmp op (eexpr a) (eexpr b)
    | EArith op a b => EArith op (eexpr a) (eexpr b)
    | EList es => EList (map eexpr es)
    | EIndex a i => EIndex (eexpr a) (eexpr i)
    | EVar _ | ENone | EBool _ | ENat _ | EStr _ => e
    end.

  Fixpoint erase (s : stmt) : stmt :=
    match s with
    | SAssign x (ECall f (a :: args) kw) =>
        if String.eqb x st && mem f writers && is_st a
        then SExpr (ECall f (map eexpr args) (map (fun ka => (fst ka, eexpr (snd ka))) kw))
        else SAssign x (eexpr (ECall f (a :: args) kw))
    | SAssign x e => SAssign x (eexpr e)
    | SExpr e => SExpr (eexpr e)
    | SUnpack xs e => SUnpack xs (eexpr e)
    | SSeq a b => SSeq (erase a) (erase b)
    | SIf c a b => SIf (eexpr c) (erase a) (erase b)
    | SWhile c b => SWhile (eexpr c) (erase b)
    | SRaise exn args => SRaise exn (map eexpr args)
    | SReturn e => SReturn (eexpr e)
    | SFor x it b => SFor x (eexpr it) (erase b)
    | STry b hs f => STry (erase b) (map (fun nh => (fst nh, erase (snd nh))) hs) (erase f)
    | SSkip | SContinue => s
    end.
End Thread.

(* the one instance used for emd/logger.py *)
Definition st_var : string := "$logger".
Definition readers : list string :=
  [ "get_level"; "func(*args, **kwargs)";                                        (* layer 1 *)
    "logger.handlers"; "handler.get_name()"; "handler.level"; "isinstance";      (* layer 2 *)
    "logger.disabled is False" ].
Definition writers : list string :=
  [ "set_level";                                                                 (* layer 1 *)
    "handler.setLevel(getattr(logging, level))"; "logging.disable" ].            (* layer 2 *)
Definition thread_logger : stmt -> stmt := thread st_var readers writers.
Definition erase_logger : stmt -> stmt := erase st_var readers writers.

(* the programs the theorems are about: CLOSED terms, recomputed from the generated programs at every build *)
Definition tprog_inner_verbose : stmt := Eval cbv in thread_logger prog_inner_verbose.
Definition tprog_set_level : stmt := Eval cbv in thread_logger prog_set_level.
Definition tprog_get_level : stmt := Eval cbv in thread_logger prog_get_level.
Definition tprog_disable : stmt := Eval cbv in thread_logger prog_disable.
Definition tprog_enable : stmt := Eval cbv in thread_logger prog_enable.
Definition tprog_is_active : stmt := Eval cbv in thread_logger prog_is_active.

(* ================================================================================================ *)
(* values                                                                                            *)
(* ================================================================================================ *)
(* a handler of logging.getLogger('emd'): what get_name() / isinstance(_, NullHandler) tell about it, and its level *)
Inductive hkind := HConsole | HFile | HNull | HOther.
Record world := { handlers : list (hkind * Z);    (* logger.handlers, in order *)
                  mgr_disabled : bool;            (* logging.disable(sys.maxsize) in force *)
                  logger_disabled : bool }.       (* the attribute logger.disabled (NOT set by logging.disable) *)

(* the carrier ("signal type") of this tie: the model's data *)
Inductive lval := LInt (z : Z) | LState (s : Logger.lstate) | LWorld (w : world).
Definition lv := val lval.

Definition int_val (z : Z) : lv := VSig (LInt z).                               (* the int z (a handler level) *)
Definition name_val (z : Z) : lv := VOpaque "levelname" [VSig (LInt z)].        (* the NAME of level z: 'INFO' for 20, ...;
                                                                                   getattr(logging, name) = z, _levelToName[z] = name *)
Definition state_val (s : Logger.lstate) : lv := VSig (LState s).
Definition world_val (w : world) : lv := VSig (LWorld w).
Definition level_val (o : option Z) : lv := match o with Some z => int_val z | None => VNone end.

(* what a Python caller gets from a function body: `return v` / falling off the end (None) / an exception *)
Definition py_result (o : outcome lval) : res lv :=
  match o with
  | Return v => Ok v
  | Normal _ => Ok VNone
  | Raise x => Exc x
  | Continue _ | Stuck | OutOfFuel => Bad
  end.

(* an execution and its effect: the outcome, and the value of "$logger" where the execution stopped *)
Definition run_eff (P : prims lval) (p : stmt) (fuel : nat) (e : env lval) : outcome lval * option lv :=
  (exec P p fuel e, lookup st_var (final_env P p fuel e)).

(* ================================================================================================ *)
(* 1. wrap_verbose.inner_verbose  <->  Logger.step s (Call verbose outcome)                          *)
(* ================================================================================================ *)
Section VerbosePrims.
  Variable kwv : option (option Z).           (* kwargs: no 'verbose' key / verbose=None / verbose=<name of level z> *)
  Variable registered : Z -> bool.            (* is z a key of logging._levelToName? *)
  Variable fres : Logger.lstate -> res lv.    (* the wrapped function, run in logger state s: a value or an exception *)

  Definition verbose_table : list (string * handler lval) :=
    [ ("'verbose' in kwargs",
        fun args kw => match args, kw with
                       | [_], [] => Ok (VBool (match kwv with Some _ => true | None => false end))
                       | _, _ => Bad end);
      ("kwargs['verbose']",
        fun args kw => match args, kw with
                       | [_], [] => match kwv with
                                    | Some (Some z) => Ok (name_val z)
                                    | Some None => Ok VNone
                                    | None => Exc "KeyError"
                                    end
                       | _, _ => Bad end);
      (* reader: get_level() IS Logger.get_level *)
      ("get_level",
        fun args kw => match args, kw with
                       | [VSig (LState s)], [] => Ok (level_val (Logger.get_level s))
                       | _, _ => Bad end);
      (* writer: set_level(level=<name of z>) IS Logger.set_level _ z; it returns the new state *)
      ("set_level",
        fun args kw => match args, kw with
                       | [VSig (LState s)], [(k, VOpaque t [VSig (LInt z)])] =>
                           if String.eqb k "level" && String.eqb t "levelname"
                           then Ok (state_val (Logger.set_level s z)) else Bad
                       | _, _ => Bad end);
      ("logging._levelToName",
        fun args kw => match args, kw with [], [] => Ok (VOpaque "logging._levelToName" []) | _, _ => Bad end);
      (* logging._levelToName[current_level] *)
      ("getitem",
        fun args kw => match args, kw with
                       | [t; VSig (LInt z)], [] =>
                           if is_opaque0 t "logging._levelToName"
                           then (if registered z then Ok (name_val z) else Exc "KeyError") else Bad
                       | _, _ => Bad end);
      (* reader: the wrapped function sees the state, returns or raises, and leaves the state alone *)
      ("func(*args, **kwargs)",
        fun args kw => match args, kw with [VSig (LState s); _; _; _], [] => fres s | _, _ => Bad end) ].
  Definition verbose_prims : prims lval := prims_of verbose_table.

  (* the frame: the state variable, the closure variable func, then the parameters *args, **kwargs *)
  Definition verbose_entry : list string := st_var :: "func" :: params_inner_verbose.
  Definition verbose_names : list string := Eval cbv in assigned tprog_inner_verbose verbose_entry.
  Definition verbose_env0 (s : Logger.lstate) (func args kwargs : lv) : env lval :=
    frame verbose_entry verbose_names [state_val s; func; args; kwargs].

  (* ---- the model side ---- *)
  (* the model's `verbose` argument: no key and verbose=None are the same thing (no override) *)
  Definition verbose_of : option Z := match kwv with Some (Some z) => Some z | _ => None end.
  (* the logger state in which the wrapped function runs *)
  Definition seen_state (s : Logger.lstate) : Logger.lstate :=
    match verbose_of with Some z => Logger.set_level s z | None => s end.
  (* the model's outcome of the wrapped function *)
  Definition outcome_of (r : res lv) : Logger.outcome :=
    match r with Exc _ => Logger.Raises | _ => Logger.Returns end.
  (* the model step this call is *)
  Definition verbose_op (s : Logger.lstate) : Logger.op :=
    Logger.Call verbose_of (outcome_of (fres (seen_state s))).

  (* how a result of Logger.step shows at the Python level: the caller sees the function's own value / its own
     exception, and the logger is left in the model's state *)
  Definition verbose_render (r : res lv) (m : Logger.lstate * option Logger.seen) : outcome lval * option lv :=
    (match snd m, r with
     | Some Logger.SawResult, Ok v => Return v
     | Some Logger.SawFunctionError, Exc x => Raise x
     | _, _ => Stuck
     end,
     Some (state_val (fst m))).

  (* the levels the module itself ever gives the console handler are registered ones (set_up: INFO; set_level:
     getattr(logging, <name>)); a level written directly into the handler need not be *)
  Definition level_registered (s : Logger.lstate) : Prop :=
    Logger.is_set_up s = true -> registered (Logger.console s) = true.
End VerbosePrims.

(* ================================================================================================ *)
(* 2. set_level, get_level, disable, enable, is_active  <->  Logger.set_level / get_level / Disable / Enable *)
(* ================================================================================================ *)
(* a reference to the i-th handler of the logger (handlers are mutable objects: the loops hold references) *)
Definition href (i : nat) : lv := VOpaque "handler" [VNat i].
Fixpoint refs_from (i : nat) (hs : list (hkind * Z)) : list lv :=
  match hs with [] => [] | _ :: t => href i :: refs_from (S i) t end.

Definition hnth (hs : list (hkind * Z)) (i : nat) : option (hkind * Z) := nth_error hs i.
Fixpoint hset (i : nat) (z : Z) (hs : list (hkind * Z)) : list (hkind * Z) :=
  match hs, i with
  | [], _ => []
  | (k, _) :: t, O => (k, z) :: t
  | h :: t, S j => h :: hset j z t
  end.

(* handler.get_name(): the dictConfig names; a NullHandler has no name *)
Definition kind_name (k : hkind) : lv :=
  match k with HConsole => VStr "console" | HFile => VStr "file" | HNull => VNone | HOther => VStr "other" end.
Definition is_console (h : hkind * Z) : bool := match fst h with HConsole => true | _ => false end.
Definition is_file (h : hkind * Z) : bool := match fst h with HFile => true | _ => false end.
Definition is_null (h : hkind * Z) : bool := match fst h with HNull => true | _ => false end.
(* `level in ['INFO', 'DEBUG']`: only decides whether a message is logged *)
Definition info_or_debug (z : Z) : bool := (Z.eqb z 20 || Z.eqb z 10)%bool.

Definition with_handlers (w : world) (hs : list (hkind * Z)) : world :=
  {| handlers := hs; mgr_disabled := mgr_disabled w; logger_disabled := logger_disabled w |}.
Definition with_mgr (w : world) (b : bool) : world :=
  {| handlers := handlers w; mgr_disabled := b; logger_disabled := logger_disabled w |}.

Definition world_table : list (string * handler lval) :=
  [ ("logging.getLogger",
      fun args kw => match args, kw with
                     | [VStr n], [] => if String.eqb n "emd" then Ok (VOpaque "emd_logger" []) else Bad
                     | _, _ => Bad end);
    (* reader: references to the handlers, in order *)
    ("logger.handlers",
      fun args kw => match args, kw with
                     | [VSig (LWorld w); l], [] =>
                         if is_opaque0 l "emd_logger" then Ok (VList (refs_from 0 (handlers w))) else Bad
                     | _, _ => Bad end);
    ("len", len_handler);
    (* reader *)
    ("handler.get_name()",
      fun args kw => match args, kw with
                     | [VSig (LWorld w); VOpaque t [VNat i]], [] =>
                         if String.eqb t "handler"
                         then match hnth (handlers w) i with Some h => Ok (kind_name (fst h)) | None => Bad end
                         else Bad
                     | _, _ => Bad end);
    (* None == 'console' (a NullHandler's name) is False; strings are compared natively *)
    ("==",
      fun args kw => match args, kw with [VNone; VStr _], [] => Ok (VBool false) | _, _ => Bad end);
    (* reader *)
    ("handler.level",
      fun args kw => match args, kw with
                     | [VSig (LWorld w); VOpaque t [VNat i]], [] =>
                         if String.eqb t "handler"
                         then match hnth (handlers w) i with Some h => Ok (int_val (snd h)) | None => Bad end
                         else Bad
                     | _, _ => Bad end);
    ("level in ['INFO', 'DEBUG']",
      fun args kw => match args, kw with
                     | [VOpaque t [VSig (LInt z)]], [] =>
                         if String.eqb t "levelname" then Ok (VBool (info_or_debug z)) else Bad
                     | _, _ => Bad end);
    (* writer: the level of handler i becomes getattr(logging, <name of z>) = z *)
    ("handler.setLevel(getattr(logging, level))",
      fun args kw => match args, kw with
                     | [VSig (LWorld w); VOpaque t [VNat i]; VOpaque t' [VSig (LInt z)]], [] =>
                         if String.eqb t "handler" && String.eqb t' "levelname"
                         then match hnth (handlers w) i with
                              | Some _ => Ok (world_val (with_handlers w (hset i z (handlers w))))
                              | None => Bad
                              end
                         else Bad
                     | _, _ => Bad end);
    ("sys.maxsize", fun args kw => match args, kw with [], [] => Ok (VOpaque "sys.maxsize" []) | _, _ => Bad end);
    ("logging.NOTSET", fun args kw => match args, kw with [], [] => Ok (VOpaque "logging.NOTSET" []) | _, _ => Bad end);
    (* writer: logging.disable(sys.maxsize) / logging.disable(logging.NOTSET) *)
    ("logging.disable",
      fun args kw => match args, kw with
                     | [VSig (LWorld w); a], [] =>
                         if is_opaque0 a "sys.maxsize" then Ok (world_val (with_mgr w true))
                         else if is_opaque0 a "logging.NOTSET" then Ok (world_val (with_mgr w false))
                         else Bad
                     | _, _ => Bad end);
    ("logging.NullHandler",
      fun args kw => match args, kw with [], [] => Ok (VOpaque "logging.NullHandler" []) | _, _ => Bad end);
    (* reader: isinstance(<handler i>, logging.NullHandler) *)
    ("isinstance",
      fun args kw => match args, kw with
                     | [VSig (LWorld w); VOpaque t [VNat i]; c], [] =>
                         if String.eqb t "handler" && is_opaque0 c "logging.NullHandler"
                         then match hnth (handlers w) i with Some h => Ok (VBool (is_null h)) | None => Bad end
                         else Bad
                     | _, _ => Bad end);
    (* reader: the logger's own attribute *)
    ("logger.disabled is False",
      fun args kw => match args, kw with
                     | [VSig (LWorld w); l], [] =>
                         if is_opaque0 l "emd_logger" then Ok (VBool (negb (logger_disabled w))) else Bad
                     | _, _ => Bad end) ].
Definition world_prims : prims lval := prims_of world_table.

(* ---- the abstraction: which lstate of model/Logger.v a world is ---- *)
Definition first_console (hs : list (hkind * Z)) : option Z := option_map snd (find is_console hs).
Definition abs (w : world) : Logger.lstate :=
  {| Logger.is_set_up := existsb is_console (handlers w);
     Logger.console := match first_console (handlers w) with Some z => z | None => 0%Z end;
     Logger.disabled := mgr_disabled w;
     Logger.to_file := existsb is_file (handlers w) |}.

(* ---- what the functions do to a world ---- *)
Definition set_console (z : Z) (h : hkind * Z) : hkind * Z := if is_console h then (fst h, z) else h.
Definition w_set_level (w : world) (z : Z) : world := with_handlers w (map (set_console z) (handlers w)).
Definition w_get_level (w : world) : option Z := first_console (handlers w).
(* is_active(): model/Logger.v has no such operation; this is what the code computes *)
Definition w_is_active (w : world) : bool :=
  match handlers w with
  | [h] => if is_null h then false else negb (logger_disabled w)
  | _ => negb (logger_disabled w)
  end.

(* ---- frames ---- *)
Definition set_level_entry : list string := st_var :: params_set_level.
Definition set_level_names : list string := Eval cbv in assigned tprog_set_level set_level_entry.
(* set_level(level=<name of z>, handler=<anything>) in world w *)
Definition set_level_env0 (w : world) (z : Z) (hd : lv) : env lval :=
  frame set_level_entry set_level_names [world_val w; name_val z; hd].

Definition get_level_entry : list string := st_var :: params_get_level.
Definition get_level_names : list string := Eval cbv in assigned tprog_get_level get_level_entry.
Definition get_level_env0 (w : world) (hd : lv) : env lval :=
  frame get_level_entry get_level_names [world_val w; hd].

Definition disable_entry : list string := st_var :: params_disable.
Definition disable_names : list string := Eval cbv in assigned tprog_disable disable_entry.
Definition disable_env0 (w : world) : env lval := frame disable_entry disable_names [world_val w].

Definition enable_entry : list string := st_var :: params_enable.
Definition enable_names : list string := Eval cbv in assigned tprog_enable enable_entry.
Definition enable_env0 (w : world) : env lval := frame enable_entry enable_names [world_val w].

Definition is_active_entry : list string := st_var :: params_is_active.
Definition is_active_names : list string := Eval cbv in assigned tprog_is_active is_active_entry.
Definition is_active_env0 (w : world) : env lval := frame is_active_entry is_active_names [world_val w].

(* the Python-level result and the final world of a function that ran to its end *)
Definition eff_result (r : outcome lval * option lv) : res lv * option lv := (py_result (fst r), snd r).
