(* Model of emd/spectra.py hilberthuang, hilberthuang_1d and holospectrum
   (properties C10, C11).  Definitions only; lemmas in proofs/SpectraFacts.v.

   Frequencies, amplitudes and bin edges are integers (the harness uses
   integer-valued floats, so digitize and the sums are exact).  Arrays are
   lists: infr, inam : [time][imf];  infr2, inam2 : [time][imf1][imf2]. *)
From Coq Require Import ZArith List Bool Lia.
From EmdV Require Import lib.NpLite.
Import ListNotations.
Open Scope Z_scope.

(* np.digitize(x, edges) for increasing edges, right=False: number of edges <= x *)
Fixpoint digitize (x : Z) (edges : list Z) : nat :=
  match edges with
  | [] => 0%nat
  | e :: t => if e <=? x then S (digitize x t) else 0%nat
  end.
(* NOTE: for increasing edges the count of edges <= x is the length of the
   prefix of edges that are <= x, which is what this recursion computes. *)

Definition weight (energy : bool) (a : Z) : Z := if energy then a * a else a.

(* scipy.sparse.coo_matrix(...).toarray(): duplicate coordinates are summed *)
Definition coo_cell (entries : list (nat * nat * Z)) (r c : nat) : Z :=
  zsum (map (fun e => let '(y, x, v) := e in if (Nat.eqb y r && Nat.eqb x c)%bool then v else 0) entries).

Definition coo_dense (entries : list (nat * nat * Z)) (nrows ncols : nat) : list (list Z) :=
  map (fun r => map (fun c => coo_cell entries r c) (seq 0 ncols)) (seq 0 nrows).

(* [(t, j, f, a)] in reshape(-1) (row-major) order *)
Fixpoint enum_from {A} (i : nat) (l : list A) : list (nat * A) :=
  match l with [] => [] | x :: t => (i, x) :: enum_from (S i) t end.
Definition enumerate {A} (l : list A) := enum_from 0 l.

Definition samples2 (infr inam : list (list Z)) : list (nat * nat * Z * Z) :=
  flat_map (fun tr => let '(t, (fr, ar)) := tr in
              map (fun ja => let '(j, (f, a)) := ja in (t, j, f, a)) (enumerate (combine fr ar)))
           (enumerate (combine infr inam)).

(* ---- hilberthuang (spectra.py 597-618), repaired form --------------------------
   yinds = digitize - 1 (as an integer: -1 for below-range); goods = 0 <= yinds < nbins *)
Definition hht_entries (energy : bool) (edges : list Z) (infr inam : list (list Z)) : list (nat * nat * Z) :=
  let nbins := (length edges - 1)%nat in
  flat_map (fun s => let '(t, j, f, a) := s in
              let d := digitize f edges in
              if ((1 <=? d)%nat && (d <=? nbins)%nat)%bool then [((d - 1)%nat, t, weight energy a)] else [])
           (samples2 infr inam).

Definition hilberthuang (energy : bool) (edges : list Z) (infr inam : list (list Z)) : list (list Z) :=
  coo_dense (hht_entries energy edges infr inam) (length edges - 1) (length infr).

(* the code before the repair: yinds < 0 clamped to 0 and then kept by (yinds == 0) *)
Definition hht_entries_v0 (energy : bool) (edges : list Z) (infr inam : list (list Z)) : list (nat * nat * Z) :=
  let nbins := (length edges - 1)%nat in
  flat_map (fun s => let '(t, j, f, a) := s in
              let y := (digitize f edges - 1)%nat in      (* nat subtraction clamps -1 to 0 *)
              if ((y <? nbins)%nat || Nat.eqb y 0)%bool then [(y, t, weight energy a)] else [])
           (samples2 infr inam).
Definition hilberthuang_v0 (energy : bool) (edges : list Z) (infr inam : list (list Z)) : list (list Z) :=
  coo_dense (hht_entries_v0 energy edges infr inam) (length edges - 1) (length infr).

(* ---- hilberthuang_1d (spectra.py 654-671): [bins][imfs] ------------------------ *)
(* out-of-range frequencies become NaN, which np.digitize sends past the last edge *)
Definition finds_1d (edges : list Z) (f : Z) : nat :=
  if (f <? hd 0 edges) || (last edges 0 <? f) then length edges else digitize f edges.

Definition column {A} (d : A) (m : list (list A)) (j : nat) : list A := map (fun row => nth j row d) m.

Definition hilberthuang_1d (energy : bool) (edges : list Z) (infr inam : list (list Z)) : list (list Z) :=
  let nimf := length (hd [] infr) in
  map (fun b => map (fun j =>
          zsum (map (fun fa => let '(f, a) := fa in
                      if Nat.eqb (finds_1d edges f) (S b) then weight energy a else 0)
                    (combine (column 0 infr j) (column 0 inam j))))
        (seq 0 nimf)) (seq 0 (length edges - 1)).

(* ---- holospectrum (spectra.py 498-539) ------------------------------------------ *)
Definition samples3 (infr : list (list Z)) (infr2 inam2 : list (list (list Z)))
  : list (nat * Z * Z * Z) :=   (* (t, f1, f2, a) *)
  flat_map (fun tr => let '(t, (f1row, (f2m, a2m))) := tr in
      flat_map (fun mr => let '(f1, (f2row, arow)) := mr in
                  map (fun fa => let '(f2, a) := fa in (t, f1, f2, a)) (combine f2row arow))
               (combine f1row (combine f2m a2m)))
    (enumerate (combine infr (combine infr2 inam2))).

Definition holo_entries (energy : bool) (edges edges2 : list Z)
           (infr : list (list Z)) (infr2 inam2 : list (list (list Z))) : list (nat * nat * Z) :=
  let D1 := S (length edges) in
  map (fun s => let '(t, f1, f2, a) := s in
         (t, (digitize f1 edges + digitize f2 edges2 * D1)%nat, weight energy a))
      (samples3 infr infr2 inam2).

(* full [T][D2][D1] array: toarray().reshape(T, D2, D1) *)
Definition holo_full (energy : bool) (edges edges2 : list Z)
           (infr : list (list Z)) (infr2 inam2 : list (list (list Z))) : list (list (list Z)) :=
  let D1 := S (length edges) in
  let D2 := S (length edges2) in
  let es := holo_entries energy edges edges2 infr infr2 inam2 in
  map (fun t => map (fun a => map (fun c => coo_cell es t (c + a * D1)) (seq 0 D1)) (seq 0 D2))
      (seq 0 (length infr)).

Definition trim {A} (l : list A) : list A := removelast (tl l).     (* [1:-1] *)

(* squash_time=False *)
Definition holospectrum (energy : bool) (edges edges2 : list Z)
           (infr : list (list Z)) (infr2 inam2 : list (list (list Z))) : list (list (list Z)) :=
  map (fun plane => map trim (trim plane)) (holo_full energy edges edges2 infr infr2 inam2).

(* squash_time='sum': the sparse matrix is summed over its rows before unfolding *)
Definition holospectrum_sum (energy : bool) (edges edges2 : list Z)
           (infr : list (list Z)) (infr2 inam2 : list (list (list Z))) : list (list Z) :=
  let D1 := S (length edges) in
  let D2 := S (length edges2) in
  let es := holo_entries energy edges edges2 infr infr2 inam2 in
  let colsum col := zsum (map (fun t => coo_cell es t col) (seq 0 (length infr))) in
  map trim (trim (map (fun a => map (fun c => colsum (c + a * D1)%nat) (seq 0 D1)) (seq 0 D2))).
(* squash_time='mean' is holospectrum_sum divided by the number of time points (exact in Q);
   the harness compares  mean * T = sum  on power-of-two T. *)

(* ---- rendering ------------------------------------------------------------------- *)
Definition render2 (m : list (list Z)) : list Z := flat_map (fun r => r ++ [-99999]) m.
Definition render3 (m : list (list (list Z))) : list Z := flat_map (fun p => render2 p ++ [-99998]) m.

Definition run_hht (edges : list Z) (infr inam : list (list Z)) : list Z :=
  render2 (hilberthuang true edges infr inam) ++ [-99997]
  ++ render2 (hilberthuang false edges infr inam) ++ [-99997]
  ++ render2 (hilberthuang_1d true edges infr inam) ++ [-99997]
  ++ render2 (hilberthuang_1d false edges infr inam).

Definition run_holo (edges edges2 : list Z) (infr : list (list Z)) (infr2 inam2 : list (list (list Z))) : list Z :=
  render3 (holospectrum true edges edges2 infr infr2 inam2) ++ [-99997]
  ++ render3 (holospectrum false edges edges2 infr infr2 inam2) ++ [-99997]
  ++ render2 (holospectrum_sum true edges edges2 infr infr2 inam2) ++ [-99997]
  ++ render2 (holospectrum_sum false edges edges2 infr infr2 inam2).

(* ---- specification vocabulary used by the theorems ------------------------------ *)
(* f lies in the half-open bin [edges[b], edges[b+1]) *)
Definition in_bin (edges : list Z) (b : nat) (f : Z) : bool :=
  match nth_error edges b, nth_error edges (S b) with
  | Some lo, Some hi => (lo <=? f) && (f <? hi)
  | _, _ => false
  end.

Definition rectangular {A} (m : list (list A)) (ncols : nat) : Prop := Forall (fun r => length r = ncols) m.
