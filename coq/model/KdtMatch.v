(* Model of emd/cycles.py kdt_match (871-922) and _unique_inds (925-942), property C17.
   Definitions only; lemmas in proofs/KdtMatchFacts.v.

   Input is the result of the K-nearest-neighbour query: D[r][c] (distance of the
   c-th candidate of row r; only its order matters, so it is an integer here and
   "no neighbour" is any value larger than every real distance) and inds[r][c]
   (row of y; ny means "no neighbour").  The query itself is an oracle. *)
From Coq Require Import ZArith List Bool Lia.
From EmdV Require Import lib.NpLite.
Import ListNotations.
Open Scope Z_scope.

Definition column {A} (d : A) (m : list (list A)) (c : nat) : list A := map (fun row => nth c row d) m.

Definition mem_nat (x : nat) (l : list nat) : bool := existsb (Nat.eqb x) l.

(* np.argmin over the rows listed (ascending): first row attaining the minimum *)
Fixpoint argmin_rows (Dc : list Z) (rows : list nat) : option nat :=
  match rows with
  | [] => None
  | r :: t =>
      match argmin_rows Dc t with
      | None => Some r
      | Some r' => if nth r Dc 0 <=? nth r' Dc 0 then Some r else Some r'
      end
  end.

(* the row that claims candidate y in this column: the closest among ALL rows whose entry is y
   (repaired _unique_inds: occurrences are looked up in the unsorted column) *)
Definition claimant (Dc : list Z) (Ic : list nat) (y : nat) : option nat :=
  argmin_rows Dc (positions (Nat.eqb y) Ic).

Record kstate := { marks : list (option nat);   (* column in which the row was marked *)
                   selected : list nat }.       (* y rows already assigned *)

Definition is_marked (o : option nat) : bool := match o with Some _ => true | None => false end.

Fixpoint mapi_from {A B} (f : nat -> A -> B) (i : nat) (l : list A) : list B :=
  match l with [] => [] | x :: t => f i x :: mapi_from f (S i) t end.

(* new marks of column c: row r is marked iff it has no earlier mark, its candidate is not
   yet selected, and it is the closest claimant of that candidate *)
Definition new_marks (Dc : list Z) (Ic : list nat) (s : kstate) : list bool :=
  mapi_from (fun r y =>
      negb (is_marked (nth r (marks s) None))
      && negb (mem_nat y (selected s))
      && match claimant Dc Ic y with Some r' => Nat.eqb r' r | None => false end) 0 Ic.

Definition col_step (D : list (list Z)) (inds : list (list nat)) (s : kstate) (c : nat) : kstate :=
  let Dc := column 0 D c in
  let Ic := column 0%nat inds c in
  let nm := new_marks Dc Ic s in
  {| marks := map (fun mo => match mo with
                            | (Some c0, _) => Some c0
                            | (None, true) => Some c
                            | (None, false) => None
                            end) (combine (marks s) nm);
     selected := selected s ++ map snd (filter fst (combine nm Ic)) |}.

Definition run_cols (D : list (list Z)) (inds : list (list nat)) (K : nat) : kstate :=
  fold_left (col_step D inds) (seq 0 K) {| marks := map (fun _ => None) inds; selected := [] |}.

(* final selection (903-917): left-most mark, rejected if it points at "no neighbour" *)
Definition final_row (ny : nat) (row : list nat) (m : option nat) : option nat :=
  match m with
  | Some c => let y := nth c row 0%nat in
              if (c <? ny)%nat && (y <? ny)%nat then Some y else None
  | None => None
  end.

Definition kdt_pairs (D : list (list Z)) (inds : list (list nat)) (K ny : nat) : list (nat * nat) :=
  let s := run_cols D inds K in
  flat_map (fun rm => let '(r, (row, m)) := rm in
              match final_row ny row m with Some y => [(r, y)] | None => [] end)
           (combine (seq 0 (length inds)) (combine inds (marks s))).

(* ---- the code before the repair: _unique_inds sorted the column in place and looked
   occurrences up in the SORTED copy, so "rows" were positions in the sorted column ---- *)
Fixpoint insert_sorted (x : nat) (l : list nat) : list nat :=
  match l with [] => [x] | y :: t => if (x <=? y)%nat then x :: l else y :: insert_sorted x t end.
Definition sort_nat (l : list nat) : list nat := fold_right insert_sorted [] l.

Fixpoint nodup_sorted (l : list nat) : list nat :=
  match l with
  | a :: (b :: _) as t => if Nat.eqb a b then nodup_sorted t else a :: nodup_sorted t
  | _ => l
  end.

Fixpoint somes {A} (l : list (option A)) : list A :=
  match l with [] => [] | Some x :: t => x :: somes t | None :: t => somes t end.

(* positions (in the sorted copy!) of the closest occurrence of each unique value *)
Definition closest_v0 (Dc : list Z) (Ic : list nat) : list nat :=
  let srt := sort_nat Ic in
  somes (map (fun u => argmin_rows Dc (positions (Nat.eqb u) srt)) (nodup_sorted srt)).

Definition new_marks_v0 (Dc : list Z) (Ic : list nat) (s : kstate) : list bool :=
  let cl := closest_v0 Dc Ic in
  mapi_from (fun r y =>
      negb (is_marked (nth r (marks s) None))
      && negb (mem_nat y (selected s))
      && mem_nat r cl) 0 Ic.

Definition col_step_v0 (D : list (list Z)) (inds : list (list nat)) (s : kstate) (c : nat) : kstate :=
  let Dc := column 0 D c in
  let Ic := column 0%nat inds c in
  let nm := new_marks_v0 Dc Ic s in
  {| marks := map (fun mo => match mo with
                            | (Some c0, _) => Some c0
                            | (None, true) => Some c
                            | (None, false) => None
                            end) (combine (marks s) nm);
     selected := selected s ++ map snd (filter fst (combine nm Ic)) |}.

Definition kdt_pairs_v0 (D : list (list Z)) (inds : list (list nat)) (K ny : nat) : list (nat * nat) :=
  let s := fold_left (col_step_v0 D inds) (seq 0 K)
                     {| marks := map (fun _ => None) inds; selected := [] |} in
  flat_map (fun rm => let '(r, (row, m)) := rm in
              match final_row ny row m with Some y => [(r, y)] | None => [] end)
           (combine (seq 0 (length inds)) (combine inds (marks s))).

(* ---- rendering ---------------------------------------------------------------------- *)
Definition run_kdt (D : list (list Z)) (inds : list (list Z)) (K ny : Z) : list Z :=
  let indsn := map (map Z.to_nat) inds in
  let ps := kdt_pairs D indsn (Z.to_nat K) (Z.to_nat ny) in
  map (fun p => Z.of_nat (fst p)) ps ++ [-7] ++ map (fun p => Z.of_nat (snd p)) ps.
