(* Control-skeleton tie of the masked-sift helpers (notes/TIE_MASK.md, notes/TIE_AGENT_BRIEF.md): THE REVIEWABLE PART.
   gen/Gen_Skel_Mask.v is regenerated from emd/sift.py on every run (harness/gen_skel_mask.py):
     prog_get_next_imf_mask   whole body of get_next_imf_mask
     prog_get_mask_freqs      whole body of get_mask_freqs
     prog_mask_sift_pre       mask_sift, top-level statements 0..3: the option pre-processing above the outer loop
   This file says which oracle of model/MaskSift.v (model/Variants.v: mask_cap) each opaque call of those programs
   stands for, what the initial environments are and how a model result shows at the Python level. Definitions only;
   the refinement proofs are proofs/SkelFacts_Mask.v, the statements props/Prop_Tie_Mask.v.

   Conventions. A signal / column is [VSig x]. An [nsamples x k] array is [mat_val cols] = VOpaque "matrix" [VSig c0; ..]
   (one entry per column). The types A (amplitudes) and F (frequencies) of the model are abstract and have no Python
   value of their own: an INPUT of such a type is a section variable and is passed as a tagged opaque value
   (VOpaque "z" [], VOpaque "amp" [], VOpaque "first_mask_mode" [], VOpaque "mask_step_factor" []); a handler that
   receives the tag uses the section variable, and anything else in that position is Bad (Stuck). Lists of
   frequencies are rendered by an arbitrary [fv : F -> val V]. *)
From Coq Require Import String List Bool Arith QArith.
From EmdV Require Import lib.PyLoop lib.PyLoopTools model.SiftCore model.Variants model.MaskSift gen.Gen_Skel_Mask.
Import ListNotations.
Open Scope string_scope.

(* ---- values ------------------------------------------------------------------------------------------------ *)
Fixpoint sigs_of {V : Type} (l : list (val V)) : option (list V) :=
  match l with
  | [] => Some []
  | VSig x :: t => match sigs_of t with Some r => Some (x :: r) | None => None end
  | _ => None
  end.

Fixpoint bools_of {V : Type} (l : list (val V)) : option (list bool) :=
  match l with
  | [] => Some []
  | VBool b :: t => match bools_of t with Some r => Some (b :: r) | None => None end
  | _ => None
  end.

(* an [nsamples x k] array, by columns *)
Definition mat_val {V : Type} (cols : list V) : val V := VOpaque "matrix" (map VSig cols).
Definition cols_of {V : Type} (v : val V) : option (list V) :=
  match v with VOpaque t l => if String.eqb t "matrix" then sigs_of l else None | _ => None end.

(* the argument list of starmap: one 1-element argument list [a] per task *)
Definition args_val {V : Type} (l : list V) : val V := VList (map (fun a => VList [VSig a]) l).
Definition args_of {V : Type} (v : val V) : option (list V) :=
  match v with
  | VList l => all_some (map (fun r => match r with VList [VSig a] => Some a | _ => None end) l)
  | _ => None
  end.

(* what starmap returns: one (imf, continue_flag) tuple per task *)
Definition imf_part {V : Type} (pf : V * bool) : V := fst pf.
Definition flag_part {V : Type} (pf : V * bool) : bool := snd pf.
Definition res_val {V : Type} (l : list (V * bool)) : val V :=
  VList (map (fun pf => VList [VSig (imf_part pf); VBool (flag_part pf)]) l).

(* [r[k] for r in v] *)
Definition column {V : Type} (k : nat) (v : val V) : option (list (val V)) :=
  match v with
  | VList l => all_some (map (fun r => match r with VList t => nth_error t k | _ => None end) l)
  | _ => None
  end.

(* every task returned: the (imf, flag) pairs; None = some task raised *)
Fixpoint imf_pairs {V : Type} (res : list (gni_result V)) : option (list (V * bool)) :=
  match res with
  | [] => Some []
  | Imf p f _ :: t => match imf_pairs t with Some r => Some ((p, f) :: r) | None => None end
  | _ => None
  end.

(* [cols[ii] for ii in range(k)]; None = IndexError *)
Definition take_cols {V : Type} (cols : list V) (k : nat) : option (list V) :=
  all_some (map (nth_error cols) (seq 0 k)).

(* VOpaque tag [a] -> a *)
Definition opaque1 {V : Type} (v : val V) (tag : string) : option (val V) :=
  match v with VOpaque t [a] => if String.eqb t tag then Some a else None | _ => None end.

(* `if imf_opts is None: imf_opts = {}` *)
Definition io_eff {V : Type} (io : val V) : val V := match io with VNone => VOpaque "{}" [] | _ => io end.

(* ============================================================================================== *)
(* 1. get_next_imf_mask  <->  MaskSift.gni_mask_pool / gni_mask                                     *)
(* ============================================================================================== *)
Section GnmPrims.
  Variables V A F : Type.
  Variable vzero : V.
  Variable vadd vsub : V -> V -> V.
  Variable vscale : A -> V -> V.
  Variable vdivn : nat -> V -> V.
  Variable cosm : F -> Q -> V.
  (* get_next_imf(a, envelope_opts=eo, extrema_opts=xo, **io) as computed by worker w: [gni eo xo io w a].
     The three option values are WHATEVER reached functools.partial: the theorem instantiates the model's
     [extract] with [gni envelope_opts extrema_opts imf_opts], so forwarding a wrong bundle is a different model *)
  Variable gni : val V -> val V -> val V -> nat -> V -> gni_result V.
  Variable sched : schedule.                   (* the completion order of this call's pool: ANY list of events *)
  Variable z : F.                              (* the parameter z,   passed as VOpaque "z" [] *)
  Variable amp : A.                            (* the parameter amp, passed as VOpaque "amp" [] *)

  (* a - b on [nsamples x k] arrays of the same shape, column by column (broadcasting is not modelled: Bad) *)
  Fixpoint sub_cols (a b : list V) : option (list V) :=
    match a, b with
    | [], [] => Some []
    | x :: a', y :: b' => match sub_cols a' b' with Some r => Some (vsub x y :: r) | None => None end
    | _, _ => None
    end.

  Definition sub_mats (a b : val V) : res (val V) :=
    match cols_of a, cols_of b with
    | Some la, Some lb => match sub_cols la lb with Some r => Ok (mat_val r) | None => Bad end
    | _, _ => Bad
    end.

  (* np.concatenate(list of columns, axis=1); the empty list raises ValueError *)
  Definition concat_cols (v : val V) : res (val V) :=
    match v with
    | VList l => match sigs_of l with
                 | Some [] => Exc "ValueError"
                 | Some cols => Ok (mat_val cols)
                 | None => Bad
                 end
    | _ => Bad
    end.

  (* args = [[X + m[:, ii, np.newaxis]] for ii in range(nphases)] *)
  Definition mk_args (x : V) (m : val V) (k : nat) : res (val V) :=
    match cols_of m with
    | Some cols => match take_cols cols k with
                   | Some cs => Ok (args_val (map (vadd x) cs))
                   | None => Exc "IndexError"
                   end
    | None => Bad
    end.

  (* p.starmap(partial(get_next_imf, envelope_opts=eo, extrema_opts=xo, **io), args): the pool contract
     MaskSift.collect under the schedule [sched]; a task that raised makes the call raise; a result that never
     arrives (impossible under a valid schedule) is not a Python outcome: Bad *)
  Definition starmap (p f a : val V) : res (val V) :=
    match opaque1 p "pool", f, args_of a with
    | Some _, VOpaque tf [eo; xo; io], Some l =>
        if String.eqb tf "partial" then
          match collect V (gni_result V) (gni eo xo io) sched l with
          | Some res => match imf_pairs res with
                        | Some pairs => Ok (res_val pairs)
                        | None => Exc "EMDSiftCovergeError"
                        end
          | None => Bad
          end
        else Bad
    | _, _, _ => Bad
    end.

  Definition col_list (k : nat) (v : val V) : res (val V) :=
    match column k v with Some l => Ok (VList l) | None => Bad end.

  Definition mean_cols (m : val V) : res (val V) :=
    match cols_of m with Some l => Ok (VSig (vmean V vzero vadd vdivn l)) | None => Bad end.

  Definition any_flags (v : val V) : res (val V) :=
    match v with
    | VList l => match bools_of l with Some bs => Ok (VBool (existsb (fun b => b) bs)) | None => Bad end
    | _ => Bad
    end.

  (* the mask construction, lines `zf = ..` to `m = ..`: each intermediate keeps its provenance, and the product
     amp * np.cos(zf * t + phases) over k phases is the model's mask list [masks z amp k] *)
  Definition mul_handler : handler V :=
    fun args kw =>
      match args, kw with
      | [a; b], [] =>
          if is_opaque0 a "z" then match b with VNat 2 => Ok (VOpaque "z*2" []) | _ => Bad end
          else if is_opaque0 a "z*2" then (if is_opaque0 b "np.pi" then Ok (VOpaque "zf" []) else Bad)
          else if is_opaque0 a "zf" then
            match opaque1 b "t" with Some (VNat k) => Ok (VOpaque "zf*t" [VNat k]) | _ => Bad end
          else if is_opaque0 a "amp" then
            match opaque1 b "cos" with
            | Some (VNat k) => Ok (mat_val (masks V A F vscale cosm z amp k))
            | _ => Bad
            end
          else Bad
      | _, _ => Bad
      end.

  Definition gnm_table : list (string * handler V) :=
    [ ("ensure_1d_with_singleton",
        fun args kw => match args, kw with
                       | [VList [VSig x]; VList [VStr _]; VStr _], [] => Ok (VSig x)
                       | _, _ => Bad
                       end);
      ("{}", fun args kw => match args, kw with [], [] => Ok (VOpaque "{}" []) | _, _ => Bad end);
      ("np.pi", fun args kw => match args, kw with [], [] => Ok (VOpaque "np.pi" []) | _, _ => Bad end);
      ("*", mul_handler);
      (* the time column 0..N-1; its length is that of X and is part of the oracle cosm *)
      ("np.arange(X.shape[0])[:, np.newaxis]",
        fun args kw => match args, kw with [VSig _], [] => Ok (VOpaque "arange" []) | _, _ => Bad end);
      ("np.repeat",
        fun args kw => match args, kw with
                       | [a; VNat k], [(_, VNat 1)] =>
                           if is_opaque0 a "arange" && keys_are kw ["axis"] then Ok (VOpaque "t" [VNat k]) else Bad
                       | _, _ => Bad
                       end);
      (* the k phases j/k turns, j < k (MaskSift.phases k) *)
      ("np.linspace(0, 2 * np.pi, nphases + 1)[:nphases]",
        fun args kw => match args, kw with [VNat k], [] => Ok (VOpaque "phases" [VNat k]) | _, _ => Bad end);
      (* zf * t + phases: [N x k1] + [k2] broadcasts only when k1 = k2 (k1 = 1 or k2 = 1 aside) *)
      ("+", fun args kw => match args, kw with
                           | [a; b], [] =>
                               match opaque1 a "zf*t", opaque1 b "phases" with
                               | Some (VNat k1), Some (VNat k2) =>
                                   if Nat.eqb k1 k2 then Ok (VOpaque "zf*t+phases" [VNat k1]) else Exc "ValueError"
                               | _, _ => Bad
                               end
                           | _, _ => Bad
                           end);
      ("np.cos", fun args kw => match args, kw with
                                | [a], [] => match opaque1 a "zf*t+phases" with
                                             | Some (VNat k) => Ok (VOpaque "cos" [VNat k])
                                             | _ => Bad
                                             end
                                | _, _ => Bad
                                end);
      (* the global function get_next_imf in value position (N15) *)
      ("get_next_imf", fun args kw => match args, kw with [], [] => Ok (VOpaque "get_next_imf" []) | _, _ => Bad end);
      ("functools.partial",
        fun args kw => match args, kw with
                       | [g], [(_, eo); (_, xo); (_, io)] =>
                           if is_opaque0 g "get_next_imf" && keys_are kw ["envelope_opts"; "extrema_opts"; "**"]
                           then Ok (VOpaque "partial" [eo; xo; io]) else Bad
                       | _, _ => Bad
                       end);
      ("[[X + m[:, ii, np.newaxis]] for ii in range(nphases)]",
        fun args kw => match args, kw with [VSig x; m; VNat k], [] => mk_args x m k | _, _ => Bad end);
      (* N12: the context manager is not modelled; nprocesses is any value *)
      ("mp.Pool", fun args kw => match args, kw with
                                 | [], [(_, np)] => if keys_are kw ["processes"] then Ok (VOpaque "pool" [np]) else Bad
                                 | _, _ => Bad
                                 end);
      ("p.starmap(my_get_next_imf, args)",
        fun args kw => match args, kw with [p; f; a], [] => starmap p f a | _, _ => Bad end);
      ("[r[0] for r in res]", fun args kw => match args, kw with [r], [] => col_list 0 r | _, _ => Bad end);
      ("[r[1] for r in res]", fun args kw => match args, kw with [r], [] => col_list 1 r | _, _ => Bad end);
      ("np.concatenate",
        fun args kw => match args, kw with
                       | [c], [(_, VNat 1)] => if keys_are kw ["axis"] then concat_cols c else Bad
                       | _, _ => Bad
                       end);
      ("-", fun args kw => match args, kw with [a; b], [] => sub_mats a b | _, _ => Bad end);
      ("imfs.mean(axis=1)[:, np.newaxis]", fun args kw => match args, kw with [m], [] => mean_cols m | _, _ => Bad end);
      ("np.any", fun args kw => match args, kw with [v], [] => any_flags v | _, _ => Bad end) ].

  Definition gnm_prims : prims V := prims_of gnm_table.

  Definition gnm_names : list string := Eval cbv in assigned prog_get_next_imf_mask params_get_next_imf_mask.

  (* the parameters in the order of the def line; nprocesses and the three option bundles are ANY values *)
  Definition gnm_env0 (X : V) (n : nat) (np io eo xo : val V) : env V :=
    frame params_get_next_imf_mask gnm_names
      [ VSig X;                (* X *)
        VOpaque "z" [];        (* z *)
        VOpaque "amp" [];      (* amp *)
        VNat n;                (* nphases *)
        np;                    (* nprocesses *)
        io;                    (* imf_opts *)
        eo;                    (* envelope_opts *)
        xo ].                  (* extrema_opts *)

  (* The model's single "the call raised" (ConvergeError 0) is, in Python, the EMDSiftCovergeError of a task
     re-raised by starmap, or - with nphases = 0 - the ValueError of np.concatenate([]).
     GniOutOfFuel (gni_mask_pool: a result never arrived) is not a Python outcome. *)
  Definition gnm_render (n : nat) (r : gni_result V) : outcome V :=
    match r with
    | Imf p f _ => Return (VList [VSig p; VBool f])
    | ConvergeError _ => Raise (match n with O => "ValueError" | S _ => "EMDSiftCovergeError" end)
    | GniOutOfFuel => Stuck
    end.
End GnmPrims.

(* ============================================================================================== *)
(* 2. get_mask_freqs  <->  MaskSift.first_freq                                                      *)
(* ============================================================================================== *)
Section GmfPrims.
  Variables V F : Type.
  (* get_next_imf(X, envelope_opts=eo, extrema_opts=xo, **io): [gni eo xo io X], with the option values that
     reach the call; the theorem instantiates the model's [extract] with [gni envelope_opts extrema_opts imf_opts] *)
  Variable gni : val V -> val V -> val V -> V -> gni_result V.
  (* zero_crossing_count(a)[0, 0] / b.shape[0] / 4   and   np.average(IF of a, weights=IA of b): the model's
     zc_freq p / if_freq p are [zc_freq2 p p] / [if_freq2 p p] - both operands come from the same imf *)
  Variable zc_freq2 if_freq2 : V -> V -> F.
  Variable lt_half le_zero ge_half : F -> bool.   (* x < .5,  x <= 0,  x >= .5  on the float first_mask_mode *)
  Variable fv : F -> val V.                        (* how a computed frequency shows as a Python value: anything *)
  Variable src : freq_source F.                    (* first_mask_mode: 'zc' | 'if' | a float (FreqFloat z) *)

  (* first_mask_mode as a value; the float z of [FreqFloat z] is passed as the tag *)
  Definition fm_val : val V :=
    match src with
    | FreqZC _ => VStr "zc"
    | FreqIF _ => VStr "if"
    | FreqFloat _ _ => VOpaque "first_mask_mode" []
    | FreqList _ _ => VNone                         (* not a valid first_mask_mode: excluded by [src_single] *)
    end.
  Definition src_single : Prop := match src with FreqList _ _ => False | _ => True end.

  (* a comparison of the float first_mask_mode with a constant *)
  Definition float_cmp (test : F -> bool) (a : val V) : res (val V) :=
    if is_opaque0 a "first_mask_mode" then
      match src with FreqFloat _ z => Ok (VBool (test z)) | _ => Bad end
    else Bad.

  Definition gmf_table : list (string * handler V) :=
    [ ("{}", fun args kw => match args, kw with [], [] => Ok (VOpaque "{}" []) | _, _ => Bad end);
      ("first_mask_mode in ('zc', 'if')",
        fun args kw => match args, kw with
                       | [VStr s], [] => Ok (VBool (String.eqb s "zc" || String.eqb s "if"))
                       | [a], [] => if is_opaque0 a "first_mask_mode" then Ok (VBool false) else Bad
                       | _, _ => Bad
                       end);
      ("get_next_imf",
        fun args kw => match args, kw with
                       | [VSig x], [(_, eo); (_, xo); (_, io)] =>
                           if keys_are kw ["envelope_opts"; "extrema_opts"; "**"] then
                             match gni eo xo io x with
                             | Imf p f _ => Ok (VList [VSig p; VBool f])
                             | _ => Exc "EMDSiftCovergeError"
                             end
                           else Bad
                       | _, _ => Bad
                       end);
      (* a float is never equal to a string *)
      ("==", fun args kw => match args, kw with
                            | [a; VStr _], [] => if is_opaque0 a "first_mask_mode" then Ok (VBool false) else Bad
                            | _, _ => Bad
                            end);
      ("zero_crossing_count(imf)[0, 0]",
        fun args kw => match args, kw with [VSig p], [] => Ok (VOpaque "nzc" [VSig p]) | _, _ => Bad end);
      ("num_zero_crossings / imf.shape[0] / 4",
        fun args kw => match args, kw with
                       | [c; VSig q], [] => match opaque1 c "nzc" with
                                            | Some (VSig p) => Ok (fv (zc_freq2 p q))
                                            | _ => Bad
                                            end
                       | _, _ => Bad
                       end);
      (* the single column of imf, as a column *)
      ("imf[:, 0, None]", fun args kw => match args, kw with [VSig p], [] => Ok (VSig p) | _, _ => Bad end);
      ("spectra.frequency_transform",
        fun args kw => match args, kw with
                       | [VSig p; VNat 1; VStr m], [(_, VNat 3)] =>
                           if String.eqb m "nht" && keys_are kw ["smooth_phase"]
                           then Ok (VList [VOpaque "IP" [VSig p]; VOpaque "IF" [VSig p]; VOpaque "IA" [VSig p]])
                           else Bad
                       | _, _ => Bad
                       end);
      ("np.average",
        fun args kw => match args, kw with
                       | [a], [(_, w)] =>
                           if keys_are kw ["weights"] then
                             match opaque1 a "IF", opaque1 w "IA" with
                             | Some (VSig p), Some (VSig q) => Ok (fv (if_freq2 p q))
                             | _, _ => Bad
                             end
                           else Bad
                       | _, _ => Bad
                       end);
      ("0.5", fun args kw => match args, kw with [], [] => Ok (VOpaque "0.5" []) | _, _ => Bad end);
      ("<", fun args kw => match args, kw with
                           | [a; b], [] => if is_opaque0 b "0.5" then float_cmp lt_half a else Bad
                           | _, _ => Bad
                           end);
      ("<=", fun args kw => match args, kw with [a; VNat 0], [] => float_cmp le_zero a | _, _ => Bad end);
      (">=", fun args kw => match args, kw with
                            | [a; b], [] => if is_opaque0 b "0.5" then float_cmp ge_half a else Bad
                            | _, _ => Bad
                            end) ].

  Definition gmf_prims : prims V := prims_of gmf_table.

  Definition gmf_names : list string := Eval cbv in assigned prog_get_mask_freqs params_get_mask_freqs.

  (* the parameters in the order of the def line; the three option bundles are ANY values *)
  Definition gmf_env0 (X : V) (io eo xo : val V) : env V :=
    frame params_get_mask_freqs gmf_names [VSig X; fm_val; io; eo; xo].

  (* [first_freq]: Some z = returns z (in float mode z is the input itself: the tag comes back); None = raises *)
  Definition gmf_render (r : option F) : outcome V :=
    match r with
    | Some z => Return (match src with FreqFloat _ _ => VOpaque "first_mask_mode" [] | _ => fv z end)
    | None => Raise (match src with FreqFloat _ _ => "ValueError" | _ => "EMDSiftCovergeError" end)
    end.

  (* FINDING: a float first_mask_mode that is not < .5 (>= .5, nan) skips the whole if/elif chain, so `return z`
     reads a name that was never assigned: Python raises UnboundLocalError (not the documented ValueError; the
     `>= .5` half of the range check is dead code). The interpreter is fail-closed on unbound names: Stuck. *)
  Definition gmf_outcome (r : option F) : outcome V :=
    match src with
    | FreqFloat _ z => if lt_half z then gmf_render r else Stuck
    | _ => gmf_render r
    end.
End GmfPrims.

(* ============================================================================================== *)
(* 3. mask_sift, statements 0..3  <->  MaskSift.mask_freqs (ladder, Variants.mask_cap), amp_sd       *)
(* ============================================================================================== *)
Definition amp_mode_str (m : amp_mode) : string :=
  match m with RatioImf => "ratio_imf" | RatioSig => "ratio_sig" | AmpAbs => "abs" end.

Section MspPrims.
  Variables V F : Type.
  Variable vzero : V.
  Variable gni : val V -> val V -> val V -> V -> gni_result V.   (* as in section 2 *)
  Variable fdiv : F -> F -> F.
  Variable fpow : F -> nat -> F.
  Variable fvalid : F -> bool.
  Variable zc_freq if_freq : V -> F.
  Variable fv : F -> val V.                   (* how a frequency shows as an entry of the array mask_freqs: anything *)
  Variable src : freq_source F.               (* mask_freqs: 'zc' | 'if' | a float | an explicit list *)
  Variable s : F.                             (* mask_step_factor, passed as VOpaque "mask_step_factor" [] *)
  Variable mode : amp_mode.                   (* mask_amp_mode *)

  (* mask_freqs as a value: the float z of [FreqFloat z] is passed as the tag VOpaque "mask_freqs" [] *)
  Definition src_val : val V :=
    match src with
    | FreqZC _ => VStr "zc"
    | FreqIF _ => VStr "if"
    | FreqFloat _ _ => VOpaque "mask_freqs" []
    | FreqList _ l => VList (map fv l)
    end.

  Definition same_src (v : val V) : bool :=
    match src, v with
    | FreqZC _, VStr x => String.eqb x "zc"
    | FreqIF _, VStr x => String.eqb x "if"
    | FreqFloat _ _, _ => is_opaque0 v "mask_freqs"
    | _, _ => false
    end.

  (* get_mask_freqs(X, mask_freqs, imf_opts=io, envelope_opts=eo, extrema_opts=xo) = the model's first_freq with
     extract = get_next_imf under those options (section 2 is the proof of that for the real function; there
     imf_opts = None is replaced by {}) *)
  Definition first_of (io eo xo : val V) (x : V) : option F :=
    first_freq V F (gni eo xo (io_eff io)) fvalid zc_freq if_freq src x.

  (* what get_mask_freqs raises *)
  Definition gmf_exn : string := match src with FreqFloat _ _ => "ValueError" | _ => "EMDSiftCovergeError" end.

  (* z = the frequency that call returned, with its provenance (F has no Python value of its own) *)
  Definition z_val (io eo xo : val V) (x : V) : val V := VOpaque "first_freq" [VSig x; io; eo; xo].

  Definition msp_table : list (string * handler V) :=
    [ ("ensure_1d_with_singleton",
        fun args kw => match args, kw with
                       | [VList [VSig x]; VList [VStr _]; VStr _], [] => Ok (VSig x)
                       | _, _ => Bad
                       end);
      ("list", fun args kw => match args, kw with [], [] => Ok (VOpaque "list" []) | _, _ => Bad end);
      ("tuple", fun args kw => match args, kw with [], [] => Ok (VOpaque "tuple" []) | _, _ => Bad end);
      ("np.ndarray", fun args kw => match args, kw with [], [] => Ok (VOpaque "np.ndarray" []) | _, _ => Bad end);
      ("float", fun args kw => match args, kw with [], [] => Ok (VOpaque "float" []) | _, _ => Bad end);
      ("isinstance",
        fun args kw => match args, kw with
                       | [v; VList [c1; c2; c3]], [] =>
                           if is_opaque0 c1 "list" && is_opaque0 c2 "tuple" && is_opaque0 c3 "np.ndarray"
                           then Ok (VBool (match v with VList _ => true | _ => false end)) else Bad
                       | [v; c], [] => if is_opaque0 c "float" then Ok (VBool (is_opaque0 v "mask_freqs")) else Bad
                       | _, _ => Bad
                       end);
      ("len", len_handler);
      ("mask_freqs in ['zc', 'if']",
        fun args kw => match args, kw with
                       | [VStr x], [] => Ok (VBool (String.eqb x "zc" || String.eqb x "if"))
                       | [a], [] => if is_opaque0 a "mask_freqs" then Ok (VBool false) else Bad
                       | _, _ => Bad
                       end);
      ("get_mask_freqs",
        fun args kw => match args, kw with
                       | [VSig x; mf], [(_, io); (_, eo); (_, xo)] =>
                           if keys_are kw ["imf_opts"; "envelope_opts"; "extrema_opts"] && same_src mf then
                             match first_of io eo xo x with
                             | Some _ => Ok (z_val io eo xo x)
                             | None => Exc gmf_exn
                             end
                           else Bad
                       | _, _ => Bad
                       end);
      (* the generated ladder z / mask_step_factor ** ii, ii < max_imfs *)
      ("[z / mask_step_factor ** ii for ii in range(max_imfs)]",
        fun args kw => match args, kw with
                       | [VOpaque t [VSig x; io; eo; xo]; sf; VNat k], [] =>
                           if String.eqb t "first_freq" && is_opaque0 sf "mask_step_factor" then
                             match first_of io eo xo x with
                             | Some z => Ok (VList (map fv (ladder F fdiv fpow z s k)))
                             | None => Bad
                             end
                           else Bad
                       | _, _ => Bad
                       end);
      ("np.array", fun args kw => match args, kw with [VList l], [] => Ok (VList l) | _, _ => Bad end);
      ("X.shape", fun args kw => match args, kw with
                                 | [VSig _], [] => Ok (VList [VOpaque "nsamples" []; VNat 1])
                                 | _, _ => Bad
                                 end);
      ("_nsamples_warn", fun args kw => match args, kw with
                                        | [a; VNat _], [] => if is_opaque0 a "nsamples" then Ok VNone else Bad
                                        | _, _ => Bad
                                        end);
      ("X.std()", fun args kw => match args, kw with [VSig x], [] => Ok (VOpaque "std" [VSig x]) | _, _ => Bad end) ].

  Definition msp_prims : prims V := prims_of msp_table.

  Definition msp_names : list string := Eval cbv in assigned prog_mask_sift_pre params_mask_sift_pre.

  (* the parameters the region only passes on (or does not read): any values *)
  Record msp_rest := { p_mask_amp : val V; p_ret_mask_freq : val V; p_sift_thresh : val V; p_nphases : val V;
                       p_nprocesses : val V; p_verbose : val V;
                       p_imf_opts : val V; p_envelope_opts : val V; p_extrema_opts : val V }.

  Definition msp_args (X : V) (mf : val V) (k : nat) (o : msp_rest) : list (val V) :=
    [ VSig X;                              (* X *)
      p_mask_amp o;                        (* mask_amp *)
      VStr (amp_mode_str mode);            (* mask_amp_mode *)
      mf;                                  (* mask_freqs *)
      VOpaque "mask_step_factor" [];       (* mask_step_factor *)
      p_ret_mask_freq o;                   (* ret_mask_freq *)
      VNat k;                              (* max_imfs *)
      p_sift_thresh o; p_nphases o; p_nprocesses o; p_verbose o;
      p_imf_opts o; p_envelope_opts o; p_extrema_opts o ].

  Definition msp_env0 (X : V) (k : nat) (o : msp_rest) : env V :=
    frame params_mask_sift_pre msp_names (msp_args X src_val k o).

  (* the initial sd = the model's amp_sd before the first layer, over symbolic amplitudes:
     aone is the int 1, std x is the value X.std() *)
  Definition sd_val (X : V) : val V :=
    amp_sd V (val V) vzero (VNat 1) (fun x => VOpaque "std" [VSig x]) mode X [].

  (* the frame when the run of plain assignments above the outer loop is reached: mask_freqs is the list the model
     works with, max_imfs its effective cap, sd the initial amplitude scale; z is bound iff the ladder was generated *)
  Definition msp_env1 (X : V) (freqs : list F) (cap : nat) (o : msp_rest) : env V :=
    match assign_all ["sd"] [sd_val X]
            (match src with
             | FreqList _ _ => msp_env0 X cap o
             | _ => upd "z" (z_val (p_imf_opts o) (p_envelope_opts o) (p_extrema_opts o) X) (msp_env0 X cap o)
             end) with
    | Some e => upd "mask_freqs" (VList (map fv freqs)) e
    | None => []
    end.

  (* [mask_freqs]: Some (freqs, cap) = the region ends normally in [msp_env1]; None = get_mask_freqs raised *)
  Definition msp_render (X : V) (o : msp_rest) (r : option (list F * nat)) : outcome V :=
    match r with
    | Some (freqs, cap) => Normal (msp_env1 X freqs cap o)
    | None => Raise gmf_exn
    end.
End MspPrims.
