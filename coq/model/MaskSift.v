(* Masked sift (property C07): emd/sift.py get_next_imf_mask (796-873), get_mask_freqs (876-920),
   mask_sift (927-1102).  Definitions only; lemmas in proofs/MaskSiftFacts.v.

   Abstract layer (Section MaskSift): a signal is an abstract value of type V, an amplitude a value of type A,
   a normalised frequency a value of type F.  ORACLES (external / separately modelled stages):
     cosm z phi      the unit-amplitude mask  t |-> cos(2 pi (z t + phi)), phi a phase in TURNS (np.cos: libm)
     vscale, vdivn   amp * v  and  v / n  (numpy arithmetic)
     extract         plain single-IMF extraction get_next_imf(X, **imf_opts)   (model/SiftCore.v, C04)
     std             ndarray.std()
     zc_freq/if_freq the first mask frequency computed from the first plain IMF (zero crossings / N / 4;
                     amplitude-weighted mean instantaneous frequency - the latter is C09's subject)
     fdiv, fpow      z / s ** i
   mask_sift's outer loop is SiftCore.peel_loop with the per-layer extraction
     extract_layer k acc r := gni_mask r (freq k) (amp k acc) nphases.
   The worker pool (mp.Pool.starmap) is modelled by its CONTRACT (Section Pool): a schedule is the completion
   order of (task, worker) events; every task runs exactly once on some worker and results are delivered keyed
   by task index.  What the operating system's scheduler really does is not modelled: it is exercised by the
   harness (nprocesses 1..8, byte equality).

   Executable instance at the end: V = list Z in fixed point (units of 2^-16), integer toy envelopes of
   model/Toys.v applied to the integer part, cosine replaced by a table of multiples of 1/16 - the twin of what
   harness/props/c07.py patches into the real code, compared bit for bit. *)
From Coq Require Import ZArith QArith Qround List Bool Lia.
From EmdV Require Import lib.NpLite model.Extrema model.SiftCore model.Toys model.Variants.
Import ListNotations.

(* ---- the worker pool ---------------------------------------------------------------------------------- *)
Record pool_event := { ev_task : nat; ev_worker : nat }.
(* completion order: the k-th element is the k-th task to finish, and which worker ran it *)
Definition schedule := list pool_event.

Definition occurrences (i : nat) (s : schedule) : nat :=
  length (filter (fun e => Nat.eqb (ev_task e) i) s).

(* Pool contract, first half: each of the ntasks submitted tasks is executed exactly once, by one of the
   nworkers workers, and nothing else is executed *)
Definition valid_schedule (nworkers ntasks : nat) (s : schedule) : bool :=
  forallb (fun i => Nat.eqb (occurrences i s) 1) (seq 0 ntasks)
  && forallb (fun e => (ev_task e <? ntasks)%nat && (ev_worker e <? nworkers)%nat) s.

(* the schedule of a pool with a single worker, and a round-robin one *)
Definition sequential (ntasks : nat) : schedule :=
  map (fun i => {| ev_task := i; ev_worker := 0 |}) (seq 0 ntasks).
Definition round_robin (nworkers ntasks : nat) : schedule :=
  map (fun i => {| ev_task := i; ev_worker := Nat.modulo i nworkers |}) (seq 0 ntasks).

Fixpoint all_some {B : Type} (l : list (option B)) : option (list B) :=
  match l with
  | [] => Some []
  | None :: _ => None
  | Some b :: t => match all_some t with Some r => Some (b :: r) | None => None end
  end.

Section Pool.
  Variables T R : Type.
  (* what worker w computes for argument a.  In general this may depend on the worker (its private state:
     that is the C08 defect); the contract "each task is a pure function of its arguments" is the hypothesis
     [forall w a, exec w a = f a] of the theorems *)
  Variable exec : nat -> T -> R.

  Definition completions (args : list T) (s : schedule) : list (nat * R) :=
    flat_map (fun e => match nth_error args (ev_task e) with
                       | Some a => [(ev_task e, exec (ev_worker e) a)]
                       | None => []
                       end) s.

  (* Pool contract, second half: results are delivered keyed by task index *)
  Definition delivered (i : nat) (store : list (nat * R)) : option R :=
    match find (fun p => Nat.eqb (fst p) i) store with Some p => Some (snd p) | None => None end.

  (* p.starmap(f, args): None = some result never arrived (impossible under a valid schedule) *)
  Definition collect (s : schedule) (args : list T) : option (list R) :=
    all_some (map (fun i => delivered i (completions args s)) (seq 0 (length args))).
End Pool.

(* ---- the masked extraction and the masked sift ----------------------------------------------------------- *)
Inductive amp_mode := AmpAbs | RatioSig | RatioImf.

Section MaskSift.
  Variables V A F : Type.
  Variable vzero : V.
  Variable vadd vsub : V -> V -> V.
  Variable vscale : A -> V -> V.
  Variable vdivn : nat -> V -> V.
  Variable cosm : F -> Q -> V.
  Variable extract : V -> gni_result V.

  (* phases = np.linspace(0, 2 pi, nphases + 1)[:nphases], in turns: j / n for j < n *)
  Definition phase (j n : nat) : Q := Z.of_nat j # Pos.of_nat n.
  Definition phases (n : nat) : list Q := map (fun j => phase j n) (seq 0 n).

  (* m[:, j] = amp * cos(2 pi z t + phase_j) *)
  Definition mask (z : F) (amp : A) (phi : Q) : V := vscale amp (cosm z phi).
  Definition masks (z : F) (amp : A) (n : nat) : list V := map (mask z amp) (phases n).

  (* imfs.mean(axis=1): the plain sum divided by the number of terms - equal weights 1/n *)
  Definition vmean (l : list V) : V := vdivn (length l) (vsum V vzero vadd l).

  Definition imf_of (r : gni_result V) : V := match r with Imf p _ _ => p | _ => vzero end.
  Definition flag_of (r : gni_result V) : bool := match r with Imf _ f _ => f | _ => false end.
  Definition is_imf_result (r : gni_result V) : bool := match r with Imf _ _ _ => true | _ => false end.

  (* imfs = np.concatenate([r[0] for r in res], axis=1) - m : result j minus mask j, in task order;
     None when a task raised (starmap re-raises it) or the counts differ *)
  Fixpoint unmask (ms : list V) (res : list (gni_result V)) : option (list V * list bool) :=
    match ms, res with
    | [], [] => Some ([], [])
    | m :: ms', Imf p f _ :: res' =>
        match unmask ms' res' with
        | Some (ps, fs) => Some (vsub p m :: ps, f :: fs)
        | None => None
        end
    | _, _ => None
    end.

  (* lines 866-873.  [ConvergeError 0] stands for "the call raised": with several failing tasks
     multiprocessing re-raises whichever failure ARRIVED first, so only the fact is modelled.  nphases = 0
     raises too (np.concatenate of an empty list).  The iteration count is not returned: 0. *)
  Definition collate (ms : list V) (res : list (gni_result V)) : gni_result V :=
    match ms with
    | [] => ConvergeError 0
    | _ => match unmask ms res with
           | Some (ps, fs) => Imf (vmean ps) (existsb (fun b => b) fs) 0
           | None => ConvergeError 0
           end
    end.

  (* args = [X + m[:, j]] *)
  Definition mask_args (X : V) (ms : list V) : list V := map (vadd X) ms.

  (* get_next_imf_mask(X, z, amp, nphases = n) with the tasks evaluated in task order *)
  Definition gni_mask (X : V) (z : F) (amp : A) (n : nat) : gni_result V :=
    let ms := masks z amp n in collate ms (map extract (mask_args X ms)).

  (* the same through a pool: worker w computes [exec_w w a] for the argument a it is handed *)
  Variable exec_w : nat -> V -> gni_result V.
  Definition gni_mask_pool (s : schedule) (X : V) (z : F) (amp : A) (n : nat) : gni_result V :=
    let ms := masks z amp n in
    match collect V (gni_result V) exec_w s (mask_args X ms) with
    | Some res => collate ms res
    | None => GniOutOfFuel
    end.

  (* ---- mask frequencies: get_mask_freqs and mask_sift 1039-1046 ---- *)
  Variable fdiv : F -> F -> F.
  Variable fpow : F -> nat -> F.
  Variable fvalid : F -> bool.                   (* 0 < z < .5 *)
  Variable zc_freq if_freq : V -> F.

  (* np.array([z / mask_step_factor ** ii for ii in range(max_imfs)]) *)
  Definition ladder (z s : F) (k : nat) : list F := map (fun i => fdiv z (fpow s i)) (seq 0 k).

  Inductive freq_source :=
  | FreqZC | FreqIF                   (* 'zc' / 'if': from the first IMF of a plain extraction *)
  | FreqFloat (z : F)                 (* explicit first frequency *)
  | FreqList (l : list F).            (* explicit list *)

  (* get_mask_freqs; None = raises (the plain extraction raised, or the float is outside (0, .5)) *)
  Definition first_freq (src : freq_source) (X : V) : option F :=
    match src with
    | FreqZC => match extract X with Imf p _ _ => Some (zc_freq p) | _ => None end
    | FreqIF => match extract X with Imf p _ _ => Some (if_freq p) | _ => None end
    | FreqFloat z => if fvalid z then Some z else None
    | FreqList _ => None
    end.

  (* the frequency list mask_sift works with (and returns) and its effective cap *)
  Definition mask_freqs (src : freq_source) (s : F) (max_imfs : nat) (X : V) : option (list F * nat) :=
    match src with
    | FreqList l => Some (l, mask_cap max_imfs (Some (length l)))
    | _ => match first_freq src X with
           | Some z => Some (ladder z s max_imfs, max_imfs)
           | None => None
           end
    end.

  (* ---- mask amplitudes: mask_sift 1051-1072 ---- *)
  Variable amul : A -> A -> A.
  Variable aone : A.
  Variable std : V -> A.

  (* mask_amp: a Python int / float (np.float64 is one), any OTHER zero-dimensional numpy value (np.float32,
     np.int64, a 0-d array), or array_like *)
  Inductive amp_arg := AmpScalar (a : A) | AmpNpScalar (a : A) | AmpArray (l : list A).

  (* sd: 1 / X.std() / imf[:, -1].std() (X.std() before the first layer); acc = the columns returned so far *)
  Definition amp_sd (mode : amp_mode) (X : V) (acc : list V) : A :=
    match mode with
    | AmpAbs => aone
    | RatioSig => std X
    | RatioImf => match acc with [] => std X | _ => std (last acc vzero) end
    end.

  (* amp = mask_amp * sd, or mask_amp[imf_layer] * sd (None: IndexError).  Repaired form: every zero-dimensional
     value is a single number (np.ndim(mask_amp) == 0).  [v0 = true] is the code before the repair, which tested
     isinstance(mask_amp, (int, float)) and therefore INDEXED numpy scalars: IndexError *)
  Definition amp_of_gen (v0 : bool) (mode : amp_mode) (arg : amp_arg) (layer : nat) (X : V) (acc : list V) : option A :=
    match arg with
    | AmpScalar a => Some (amul a (amp_sd mode X acc))
    | AmpNpScalar a => if v0 then None else Some (amul a (amp_sd mode X acc))
    | AmpArray l => match nth_error l layer with
                    | Some a => Some (amul a (amp_sd mode X acc))
                    | None => None
                    end
    end.
  Definition amp_of := amp_of_gen false.
  Definition amp_of_v0 := amp_of_gen true.

  (* ---- mask_sift ---- *)
  Variable small : V -> bool.

  Definition layer_extract (v0 : bool) (gm : V -> F -> A -> nat -> gni_result V)
             (freqs : list F) (mode : amp_mode) (arg : amp_arg) (n : nat) (X : V)
    : nat -> list V -> V -> gni_result V :=
    fun layer acc r =>
      match nth_error freqs layer, amp_of_gen v0 mode arg layer X acc with
      | Some z, Some amp => gm r z amp n
      | _, _ => ConvergeError 0                       (* IndexError *)
      end.

  (* None: raised before the loop.  Otherwise (columns, exit flags, the list returned with ret_mask_freq=True) *)
  Definition mask_sift_gen (v0 : bool) (gm : nat -> V -> F -> A -> nat -> gni_result V)
             (fuel : nat) (src : freq_source) (s : F) (max_imfs : nat)
             (mode : amp_mode) (arg : amp_arg) (n : nat) (X : V) : option (list V * exit_flags * list F) :=
    match mask_freqs src s max_imfs X with
    | None => None
    | Some (freqs, cap) =>
        let '(imfs, e) := peel_loop V vzero vadd vsub small
                                    (fun layer => layer_extract v0 (gm layer) freqs mode arg n X layer)
                                    fuel (Some cap) X [] in
        Some (imfs, e, freqs)
    end.

  Definition mask_sift := mask_sift_gen false (fun _ => gni_mask).
  Definition mask_sift_v0 := mask_sift_gen true (fun _ => gni_mask).
  (* every layer's pool has its own schedule *)
  Definition mask_sift_pool (scheds : nat -> schedule) := mask_sift_gen false (fun layer => gni_mask_pool (scheds layer)).
End MaskSift.

(* ---- executable fixed-point instance ------------------------------------------------------------------------
   values are integers in units of 2^-16; the toy envelope of Toys.v is applied to the integer part
   (floor) and returns integers, so x - avg keeps the fractional bits; the cosine is a table of multiples
   of 1/16 over 512 steps per turn; amplitudes are integers; frequencies are rationals. *)
Open Scope Z_scope.

Definition FXU : Z := 65536.

Definition fx_envs (r : Z) (x : list Z) : option (list Z * list Z) :=
  match toy_envs r (map (fun v => v / FXU) x) with
  | None => None
  | Some (u, l) => Some (map (Z.mul FXU) u, map (Z.mul FXU) l)
  end.

(* cfg as in Toys.v; cfg[14] = sift_thresh * 2 in plain units *)
Definition fx_gni (c : list Z) (X : list Z) : gni_result (list Z) :=
  get_next_imf_gen (list Z) Toys.vsub (Toys.vscale (cg c 3) (cg c 4)) Toys.vavg (fx_envs (cg c 0))
                   (sd_stop (cg c 6) (cg c 7))
                   (rilling_stop (cg c 8) (cg c 9) (cg c 10) (cg c 11) (cg c 12) (cg c 13))
                   energy_fires (method_of (cg c 1)) (Z.to_nat (cg c 2)) (cg c 5 =? 1) false X.

(* round(16 cos(2 pi k / 512)) for k = 0..128 *)
Definition cos16_quarter : list Z :=
  [16; 16; 16; 16; 16; 16; 16; 16; 16; 16; 16; 16; 16; 16; 16; 16; 16; 16; 16; 16; 16; 15; 15; 15; 15; 15; 15; 15; 15; 15; 15; 15;
   15; 15; 15; 15; 14; 14; 14; 14; 14; 14; 14; 14; 14; 14; 14; 13; 13; 13; 13; 13; 13; 13; 13; 12; 12; 12; 12; 12; 12; 12; 12; 11;
   11; 11; 11; 11; 11; 11; 10; 10; 10; 10; 10; 10; 10; 9; 9; 9; 9; 9; 9; 8; 8; 8; 8; 8; 8; 7; 7; 7; 7; 7; 6; 6;
   6; 6; 6; 6; 5; 5; 5; 5; 5; 4; 4; 4; 4; 4; 4; 3; 3; 3; 3; 3; 2; 2; 2; 2; 2; 1; 1; 1; 1; 1; 0; 0; 0].

Definition cos16 (k : Z) : Z :=
  let k := k mod 512 in
  let q := fun i => nth (Z.to_nat i) cos16_quarter 0 in
  if k <=? 128 then q k else if k <=? 256 then - q (256 - k) else if k <=? 384 then - q (k - 256) else q (512 - k).

(* 512 (z t + phi) rounded down; the harness only uses frequencies and phases for which it is an integer *)
Definition turn_index (z phi : Q) (t : nat) : Z := Qfloor ((512 # 1) * (z * (Z.of_nat t # 1) + phi))%Q.

Definition fx_cosm (N : nat) (z phi : Q) : list Z :=
  map (fun t => cos16 (turn_index z phi t) * 4096) (seq 0 N).        (* 1/16 = 4096 units *)

Definition fx_vscale (a : Z) (v : list Z) : list Z := map (Z.mul a) v.
Definition fx_vdivn (n : nat) (v : list Z) : list Z := map (fun x => x / Z.of_nat n) v.

Definition fx_gni_mask (c : list Z) (X : list Z) (z : Q) (amp : Z) (n : nat) : gni_result (list Z) :=
  gni_mask (list Z) Z Q (Toys.vzero (length X)) Toys.vadd Toys.vsub fx_vscale fx_vdivn (fx_cosm (length X))
           (fx_gni c) X z amp n.

Definition fx_gni_mask_pool (c : list Z) (s : schedule) (X : list Z) (z : Q) (amp : Z) (n : nat) : gni_result (list Z) :=
  gni_mask_pool (list Z) Z Q (Toys.vzero (length X)) Toys.vadd Toys.vsub fx_vscale fx_vdivn (fx_cosm (length X))
                (fun _ => fx_gni c) s X z amp n.

(* zero_crossing_count(imf) / N / 4 *)
Fixpoint sign_changes (l : list Z) : Z :=
  match l with
  | a :: ((b :: _) as t) => (if Z.sgn a =? Z.sgn b then 0 else 1) + sign_changes t
  | _ => 0
  end.
Definition fx_zc_freq (p : list Z) : Q := sign_changes p # Pos.of_nat (4 * length p).

Definition q_valid (z : Q) : bool := (0 <? Qnum z) && (2 * Qnum z <? Zpos (Qden z)).
Definition q_pow (s : Q) (i : nat) : Q := Qpower s (Z.of_nat i).

(* only the absolute amplitude mode has an exact twin (std is irrational); [fun _ => 1] is never consulted in
   that mode (MaskSiftFacts.amp_abs_ignores_std) and the 'if' source is not run in this instance *)
Definition fx_mask_sift_gen (v0 : bool) (c : list Z) (fuel : nat) (src : freq_source Q) (s : Q) (max_imfs : nat)
           (arg : amp_arg Z) (n : nat) (X : list Z) : option (list (list Z) * exit_flags * list Q) :=
  mask_sift_gen (list Z) Z Q (Toys.vzero (length X)) Toys.vadd Toys.vsub (fx_gni c) Qdiv q_pow q_valid fx_zc_freq (fun _ => 0%Q)
                Z.mul 1 (fun _ => 1) (small (cg c 14 * FXU)) v0
                (fun _ => gni_mask (list Z) Z Q (Toys.vzero (length X)) Toys.vadd Toys.vsub fx_vscale fx_vdivn
                                   (fx_cosm (length X)) (fx_gni c))
                fuel src s max_imfs AmpAbs arg n X.
Definition fx_mask_sift := fx_mask_sift_gen false.
Definition fx_mask_sift_v0 := fx_mask_sift_gen true.

(* ---- rendering -------------------------------------------------------------------------------------------- *)
Definition render_q (q : Q) : list Z := let r := Qred q in [Qnum r; Zpos (Qden r)].

Definition to_fx (X : list Z) : list Z := map (Z.mul FXU) X.
Definition mkq (p : Z * Z) : Q := fst p # Z.to_pos (snd p).

(* case = ((cfg, X in plain integers), ((z num, z den), amp, nphases)) *)
Definition run_fx_gni_mask (c X : list Z) (z : Z * Z) (amp n : Z) : list Z :=
  render_gni (fx_gni_mask c (to_fx X) (mkq z) amp (Z.to_nat n)).

(* the same through the pool under a schedule given as (task, worker) pairs; [-7]: the schedule is not valid *)
Definition mk_schedule (l : list (Z * Z)) : schedule :=
  map (fun p => {| ev_task := Z.to_nat (fst p); ev_worker := Z.to_nat (snd p) |}) l.
Definition run_fx_gni_mask_pool (c X : list Z) (z : Z * Z) (amp n : Z) (nworkers : Z) (s : list (Z * Z)) : list Z :=
  if valid_schedule (Z.to_nat nworkers) (Z.to_nat n) (mk_schedule s)
  then render_gni (fx_gni_mask_pool c (mk_schedule s) (to_fx X) (mkq z) amp (Z.to_nat n))
  else [-7].

(* src = [0] zc | [2; num; den] float | 3 :: num1 :: den1 :: ... list;
   amps = [a] Python scalar (flag 0) | array (flag 1) | [a] numpy scalar (flag 2; flag 3: the code before the repair)
   output: [-1] raised | [-6] fuel | 0 :: columns (each closed by -99999) ++ [-99998] ++ returned frequencies *)
Fixpoint q_pairs (l : list Z) : list Q :=
  match l with a :: b :: t => (a # Z.to_pos b) :: q_pairs t | _ => [] end.

Definition src_of (l : list Z) : freq_source Q :=
  match l with
  | 0 :: _ => FreqZC Q
  | 2 :: a :: b :: _ => FreqFloat Q (a # Z.to_pos b)
  | _ :: t => FreqList Q (q_pairs t)
  | [] => FreqList Q []
  end.

Definition run_fx_mask_sift (c X : list Z) (src : list Z) (s : Z * Z) (max_imfs : Z) (amp_is_array : Z)
           (amps : list Z) (n : Z) : list Z :=
  let arg := if amp_is_array =? 1 then AmpArray Z amps
             else if amp_is_array =? 0 then AmpScalar Z (nth 0 amps 0) else AmpNpScalar Z (nth 0 amps 0) in
  match fx_mask_sift_gen (amp_is_array =? 3) c 60 (src_of src) (mkq s) (Z.to_nat max_imfs) arg (Z.to_nat n) (to_fx X) with
  | None => [-1]
  | Some (imfs, e, freqs) =>
      if raised e then [-1] else if out_of_fuel e then [-6]
      else 0 :: flat_map (fun v => v ++ [-99999]) imfs ++ [-99998] ++ flat_map render_q freqs
  end.

Definition run_cos16 (k : Z) : list Z := [cos16 k].
Definition run_ladder (z s : Z * Z) (k : Z) : list Z := flat_map render_q (ladder Q Qdiv q_pow (mkq z) (mkq s) (Z.to_nat k)).
