(* Control-skeleton tie of the sift stopping rules of emd/sift.py (property C04; notes/TIE_STOPS.md):
     sd_stop, rilling_stop, fixed_stop, _energy_difference, energy_stop, zero_crossing_count.
   THE REVIEWABLE PART: the value universe, the primitive mapping tables, the initial environments and the
   rendering of the model results. Definitions only; the proofs are in proofs/SkelFacts_Stops.v, the statements
   in props/Prop_Tie_Stops.v.

   gen/Gen_Skel_Stops.v (regenerated from /repo on every run by harness/gen_skel_stops.py) holds the six bodies
   as programs of lib/PyLoop.v. These bodies are straight-line numpy FORMULAS; with the driver's local
   normalisation N16 (`a / b` -> ECall "/" [a; b], `a ** b` -> ECall "**" [a; b]) every operator and every numpy
   call of a formula is a separate primitive:  - + ** / np.sum np.abs np.mean np.any < > == bool.
   Each is given here its LITERAL numpy meaning on a small exact universe (integer arrays, exact rationals with
   inf / nan), and the theorems say that the composition the source writes is the cross-multiplied integer
   model of model/Toys.v ([Toys.sd_stop], [Toys.rilling_stop], [Toys.energy_fires]).

   What "exact" leaves out: float rounding (the arithmetic is that of integers and rationals, as in the exact
   correspondence mode of the harness), int64 overflow, arrays of rank other than 1 (all the operations used are
   elementwise or full reductions, so the rank does not matter to them), numpy's broadcasting of arrays of
   different lengths (unequal lengths are [Bad] = not modelled), RuntimeWarnings (division by zero, mean of an
   empty slice), and the logger calls (dropped by the translator, N2). *)
From Coq Require Import String List Bool Arith ZArith QArith.
From EmdV Require Import lib.NpLite model.Toys lib.PyLoop lib.PyLoopTools gen.Gen_Skel_Stops.
Import ListNotations.
Open Scope string_scope.

(* ================================================================================================ *)
(* 1. The value universe                                                                             *)
(* ================================================================================================ *)
(* a float: an exact rational (Coq's Q = integer numerator # positive denominator; never normalised, only
   compared), +inf, -inf, nan. There is no negative zero. *)
Inductive xr := XQ (q : Q) | XPInf | XNInf | XNan.

Inductive num :=
| NInt (z : Z)             (* a numpy integer scalar (np.sum of an integer array) *)
| NIvec (l : list Z)       (* a 1-D integer array *)
| NX (x : xr)              (* a float scalar: a threshold (sd, sd1, sd2, tol), a metric *)
| NXvec (l : list xr)      (* a 1-D float array *)
| NBvec (l : list bool).   (* a 1-D bool array *)

Local Notation val := (val num).

(* ---- numpy's true division and comparisons, written out ----------------------------------------- *)
(* integer a / integer b as a float:  x/0 = +-inf by the sign of x,  0/0 = nan *)
Definition zdiv (a b : Z) : xr :=
  if (b =? 0)%Z then (if (a =? 0)%Z then XNan else if (0 <? a)%Z then XPInf else XNInf)
  else XQ (Qmake (a * Z.sgn b) (Z.to_pos (Z.abs b))).

(* float / float (IEEE 754, without signed zeros): (pn/pd) / (qn/qd) = (pn*qd) / (qn*pd) *)
Definition xdiv (x y : xr) : xr :=
  match x, y with
  | XQ p, XQ q => zdiv (Qnum p * Zpos (Qden q)) (Qnum q * Zpos (Qden p))
  | XNan, _ => XNan
  | _, XNan => XNan
  | XQ _, _ => XQ 0                                          (* finite / +-inf *)
  | XPInf, XQ q => if (Qnum q <? 0)%Z then XNInf else XPInf
  | XNInf, XQ q => if (Qnum q <? 0)%Z then XPInf else XNInf
  | _, _ => XNan                                             (* inf / inf *)
  end.

Definition xabs (x : xr) : xr :=
  match x with
  | XQ q => XQ (Qmake (Z.abs (Qnum q)) (Qden q))
  | XPInf | XNInf => XPInf
  | XNan => XNan
  end.

(* x < y; every comparison with nan is False *)
Definition xlt (x y : xr) : bool :=
  match x, y with
  | XNan, _ => false
  | _, XNan => false
  | XQ p, XQ q => (Qnum p * Zpos (Qden q) <? Qnum q * Zpos (Qden p))%Z
  | XQ _, XPInf => true
  | XQ _, XNInf => false
  | XPInf, _ => false
  | XNInf, XNInf => false
  | XNInf, _ => true
  end.

(* ---- elementwise operations on arrays of equal length ------------------------------------------- *)
Fixpoint zipx (f : xr -> xr -> xr) (a b : list xr) : list xr :=
  match a, b with
  | x :: ta, y :: tb => f x y :: zipx f ta tb
  | _, _ => []
  end.

(* integer array (op) integer array; [Toys.zip_with] is the plain zip. Unequal lengths: numpy broadcasts a
   length-1 operand and raises ValueError otherwise - not modelled *)
Definition ivec_bin (f : Z -> Z -> Z) (a b : list Z) : res val :=
  if (length a =? length b)%nat then Ok (VSig (NIvec (zip_with f a b))) else Bad.

Definition xvec_div (a b : list xr) : res val :=
  if (length a =? length b)%nat then Ok (VSig (NXvec (zipx xdiv a b))) else Bad.

(* np.mean of a bool array: the number of True over the length, as a float (empty: 0/0 = nan) *)
Definition bmean (l : list bool) : xr := zdiv (Z.of_nat (count_true l)) (Z.of_nat (length l)).

(* the number of places where the sign changes between neighbours: (np.diff(np.sign(X)) != 0).sum() *)
Fixpoint zc_count (l : list Z) : nat :=
  match l with
  | a :: ((b :: _) as t) => ((if (Z.sgn b - Z.sgn a =? 0)%Z then 0 else 1) + zc_count t)%nat
  | _ => 0%nat
  end.

(* ================================================================================================ *)
(* 2. The primitive mapping table of sd_stop, rilling_stop, fixed_stop, zero_crossing_count          *)
(* ================================================================================================ *)
(* one row per primitive name as emitted; the shapes listed are the only ones accepted (anything else is Bad,
   i.e. the program would be Stuck - the theorems prove it never is) *)
Definition stops_table : list (string * handler num) :=
  [ (* EArith ASub / AAdd on non-ints dispatch to "-" / "+": integer array -/+ integer array, elementwise *)
    ("-", fun args kw => match args, kw with
                         | [VSig (NIvec a); VSig (NIvec b)], [] => ivec_bin Z.sub a b
                         | _, _ => Bad end);
    ("+", fun args kw => match args, kw with
                         | [VSig (NIvec a); VSig (NIvec b)], [] => ivec_bin Z.add a b
                         | _, _ => Bad end);
    (* N16: integer array ** non-negative int literal, elementwise *)
    ("**", fun args kw => match args, kw with
                          | [VSig (NIvec a); VNat k], [] => Ok (VSig (NIvec (map (fun z => z ^ Z.of_nat k)%Z a)))
                          | _, _ => Bad end);
    (* np.sum of an integer array: an integer *)
    ("np.sum", fun args kw => match args, kw with
                              | [VSig (NIvec a)], [] => Ok (VSig (NInt (zsum a)))
                              | _, _ => Bad end);
    (* np.abs, elementwise *)
    ("np.abs", fun args kw => match args, kw with
                              | [VSig (NIvec a)], [] => Ok (VSig (NIvec (map Z.abs a)))
                              | [VSig (NXvec a)], [] => Ok (VSig (NXvec (map xabs a)))
                              | _, _ => Bad end);
    (* N16: true division ALWAYS produces floats: int / int, int array / int literal, float array / float array *)
    ("/", fun args kw => match args, kw with
                         | [VSig (NInt a); VSig (NInt b)], [] => Ok (VSig (NX (zdiv a b)))
                         | [VSig (NIvec a); VNat k], [] => Ok (VSig (NXvec (map (fun z => zdiv z (Z.of_nat k)) a)))
                         | [VSig (NXvec a); VSig (NXvec b)], [] => xvec_div a b
                         | _, _ => Bad end);
    (* float < float *)
    ("<", fun args kw => match args, kw with
                         | [VSig (NX x); VSig (NX t)], [] => Ok (VBool (xlt x t))
                         | _, _ => Bad end);
    (* float array > float (elementwise: a bool array), float > float *)
    (">", fun args kw => match args, kw with
                         | [VSig (NXvec a); VSig (NX t)], [] => Ok (VSig (NBvec (map (fun x => xlt t x) a)))
                         | [VSig (NX x); VSig (NX t)], [] => Ok (VBool (xlt t x))
                         | _, _ => Bad end);
    ("np.mean", fun args kw => match args, kw with
                               | [VSig (NBvec l)], [] => Ok (VSig (NX (bmean l)))
                               | _, _ => Bad end);
    ("np.any", fun args kw => match args, kw with
                              | [VSig (NBvec l)], [] => Ok (VBool (existsb (fun b => b) l))
                              | _, _ => Bad end);
    (* bool == bool (ints and strings are compared natively by the interpreter) *)
    ("==", fun args kw => match args, kw with
                          | [VBool a; VBool b], [] => Ok (VBool (Bool.eqb a b))
                          | _, _ => Bad end);
    ("bool", fun args kw => match args, kw with
                            | [VBool b], [] => Ok (VBool b)
                            | _, _ => Bad end);
    (* zero_crossing_count: arrays are 1-D here, so the 2-D branch (X[:, None]) has no row *)
    ("X.ndim", fun args kw => match args, kw with
                              | [VSig (NIvec _)], [] => Ok (VNat 1)
                              | _, _ => Bad end);
    ("(np.diff(np.sign(X), axis=0) != 0).sum(axis=0)",
       fun args kw => match args, kw with
                      | [VSig (NIvec a)], [] => Ok (VSig (NInt (Z.of_nat (zc_count a))))
                      | _, _ => Bad end) ].
Definition stops_prims : prims num := prims_of stops_table.

(* ---- initial environments: the arguments in def-line order; niters is only logged: any value ----- *)
Definition ivec (l : list Z) : val := VSig (NIvec l).
Definition thr (q : Q) : val := VSig (NX (XQ q)).          (* a threshold given as an exact rational *)

Definition sd_names : list string := Eval cbv in assigned prog_sd_stop params_sd_stop.
Definition sd_env0 (proto x1 : list Z) (sd : Q) (niters : val) : env num :=
  frame params_sd_stop sd_names [ivec proto; ivec x1; thr sd; niters].

Definition ril_names : list string := Eval cbv in assigned prog_rilling_stop params_rilling_stop.
Definition ril_env0 (u l : list Z) (sd1 sd2 tol : Q) (niters : val) : env num :=
  frame params_rilling_stop ril_names [ivec u; ivec l; thr sd1; thr sd2; thr tol; niters].

Definition fixed_names : list string := Eval cbv in assigned prog_fixed_stop params_fixed_stop.
Definition fixed_env0 (niters max_iters : nat) : env num :=
  frame params_fixed_stop fixed_names [VNat niters; VNat max_iters].

Definition zc_names : list string := Eval cbv in assigned prog_zero_crossing_count params_zero_crossing_count.
Definition zc_env0 (X : list Z) : env num := frame params_zero_crossing_count zc_names [ivec X].

(* ---- rendering of the model results ------------------------------------------------------------- *)
(* sd_stop returns (stop, metric): the model's decision and the exact value of the metric *)
Definition sd_metric (proto x1 : list Z) : xr := zdiv (sumsq (Toys.vsub proto x1)) (sumsq proto).
Definition sd_render (sn : Z) (sd_ : positive) (proto x1 : list Z) : outcome num :=
  Return (VList [VBool (Toys.sd_stop sn (Zpos sd_) proto x1); VSig (NX (sd_metric proto x1))]).

(* rilling_stop returns (stop, metric): metric = the fraction of samples where the model's [ril_exceeds]
   holds for sd1 *)
Definition ril_metric (s1n : Z) (s1d : positive) (u l : list Z) : xr :=
  bmean (map (fun ul => ril_exceeds s1n (Zpos s1d) (fst ul) (snd ul)) (combine u l)).
Definition ril_render (s1n : Z) (s1d : positive) (s2n : Z) (s2d : positive) (tn : Z) (td : positive)
                      (u l : list Z) : outcome num :=
  Return (VList [VBool (Toys.rilling_stop s1n (Zpos s1d) s2n (Zpos s2d) tn (Zpos td) u l);
                 VSig (NX (ril_metric s1n s1d u l))]).

Definition fixed_render (niters max_iters : nat) : outcome num := Return (VBool (Nat.eqb niters max_iters)).

Definition zc_render (X : list Z) : outcome num := Return (VSig (NInt (Z.of_nat (zc_count X)))).

(* ================================================================================================ *)
(* 3. _energy_difference / energy_stop: log10 is an ORACLE                                          *)
(* ================================================================================================ *)
(* D = the decibel values (reals). Only the STRUCTURE is tied: which sums of squares go through log10, the
   `where=` guard, the factor, the order of the subtraction, the direction of the comparison. *)
Inductive enum (D : Type) :=
| EInt (z : Z)            (* np.sum of an integer array *)
| EIvec (l : list Z)      (* a 1-D integer array *)
| EDb (d : D).            (* a float: a log10 value, a level in dB, the threshold *)
Arguments EInt {D}. Arguments EIvec {D}. Arguments EDb {D}.

Section EnergyPrims.
  Variable D : Type.
  Variable lg : Z -> D.               (* np.log10 of an integer *)
  Variable uninit : D.                (* np.log10(x, where=False) without out=: numpy leaves the result UNINITIALISED.
                                         One arbitrary value here; in reality two calls may return different garbage *)
  Variable dscale : nat -> D -> D.    (* int literal * float *)
  Variable dsub : D -> D -> D.        (* float - float *)
  Variable dgt : D -> D -> bool.      (* float > float *)

  Local Notation eval_ := (PyLoop.val (enum D)).

  Definition energy_base_table : list (string * handler (enum D)) :=
    [ ("**", fun args kw => match args, kw with
                            | [VSig (EIvec a); VNat k], [] => Ok (VSig (EIvec (map (fun z => z ^ Z.of_nat k)%Z a)))
                            | _, _ => Bad end);
      ("np.sum", fun args kw => match args, kw with
                                | [VSig (EIvec a)], [] => Ok (VSig (EInt (zsum a)))
                                | _, _ => Bad end);
      (* integer > int literal; float > float *)
      (">", fun args kw => match args, kw with
                           | [VSig (EInt z); VNat k], [] => Ok (VBool (Z.of_nat k <? z)%Z)
                           | [VSig (EDb d); VSig (EDb t)], [] => Ok (VBool (dgt d t))
                           | _, _ => Bad end);
      (* np.log10(x, where=w): log10 where w holds, uninitialised memory where it does not *)
      ("np.log10", fun args kw => match args, kw with
                                  | [VSig (EInt z)], [("where", VBool w)] => Ok (VSig (EDb (if w then lg z else uninit)))
                                  | _, _ => Bad end);
      ("*", fun args kw => match args, kw with
                           | [VNat k; VSig (EDb d)], [] => Ok (VSig (EDb (dscale k d)))
                           | _, _ => Bad end);
      ("-", fun args kw => match args, kw with
                           | [VSig (EDb a); VSig (EDb b)], [] => Ok (VSig (EDb (dsub a b)))
                           | _, _ => Bad end);
      ("bool", fun args kw => match args, kw with
                              | [VBool b], [] => Ok (VBool b)
                              | _, _ => Bad end) ].
  Definition energy_base_prims : prims (enum D) := prims_of energy_base_table.

  Definition ediff_names : list string := Eval cbv in assigned prog_energy_difference params_energy_difference.
  Definition ediff_env0 (imf residue : list Z) : env (enum D) :=
    frame params_energy_difference ediff_names [VSig (EIvec imf); VSig (EIvec residue)].

  (* energy_stop calls _energy_difference: the row of that name RUNS the translated body of _energy_difference
     (no while loop in it: the fuel is irrelevant) and hands back what it returns *)
  Definition call_energy_difference : handler (enum D) :=
    fun args kw => match args, kw with
                   | [VSig (EIvec imf); VSig (EIvec residue)], [] =>
                       match exec energy_base_prims prog_energy_difference 0 (ediff_env0 imf residue) with
                       | Return v => Ok v
                       | Raise x => Exc x
                       | _ => Bad
                       end
                   | _, _ => Bad
                   end.
  Definition energy_table : list (string * handler (enum D)) :=
    ("_energy_difference", call_energy_difference) :: energy_base_table.
  Definition energy_prims : prims (enum D) := prims_of energy_table.

  Definition estop_names : list string := Eval cbv in assigned prog_energy_stop params_energy_stop.
  Definition estop_env0 (imf residue : list Z) (thresh : D) (niters : eval_) : env (enum D) :=
    frame params_energy_stop estop_names [VSig (EIvec imf); VSig (EIvec residue); VSig (EDb thresh); niters].

  (* the model of the formula: 20*log10(sum imf^2) - 20*log10(sum residue^2), each log10 guarded by `> 0` *)
  Definition lg_guarded (z : Z) : D := if (0 <? z)%Z then lg z else uninit.
  Definition energy_db (imf residue : list Z) : D :=
    dsub (dscale 20 (lg_guarded (sumsq imf))) (dscale 20 (lg_guarded (sumsq residue))).

  Definition ediff_render (imf residue : list Z) : outcome (enum D) := Return (VSig (EDb (energy_db imf residue))).
  Definition estop_render (imf residue : list Z) (thresh : D) : outcome (enum D) :=
    Return (VList [VBool (dgt (energy_db imf residue) thresh); VSig (EDb (energy_db imf residue))]).

  (* THE CONTRACT of the oracle for the threshold t20 = 20 dB (the value the toy configurations use):
     for positive a, b:  20*log10 a - 20*log10 b > 20  <->  a > 10*b   (log10 is increasing, log10 10 = 1) *)
  Definition log10_contract (t20 : D) : Prop :=
    forall a b : Z, (0 < a)%Z -> (0 < b)%Z -> dgt (dsub (dscale 20 (lg a)) (dscale 20 (lg b))) t20 = (10 * b <? a)%Z.
End EnergyPrims.
