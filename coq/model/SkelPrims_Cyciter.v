(* Control-skeleton tie of the cycle iteration helpers (properties C14 / C15 / C16; notes/TIE_CYCITER.md).
   THE REVIEWABLE PART: the value universe, ONE primitive mapping table for all translated programs of
   gen/Gen_Skel_Cycitersupport.v (emd/_cycles_support.py) and gen/Gen_Skel_Cyciter.v (emd/cycles.py), the list-level
   models of the functions that had no hand model yet, the initial environments and the rendering of model results.
   Definitions only; the proofs are in proofs/SkelFacts_Cyciter.v, the statements in props/Prop_Tie_Cyciter.v.

   Existing hand models tied here: CyclesObj.map_cycle_to_samples_aug, CyclesObj.chain_pos / chain_t_vals (kind 4),
   CyclesObj.f_nunique, CycleMaps.map_subset_to_sample / map_subset_to_cycle / map_cycle_to_samples.
   New list-level models (this file): slice_len, map_subset_to_sample_aug, subset_stat, inds_of_cycle, looper /
   looper_init / iterate_model / niters_model / iter_model, pos_upto. *)
From Coq Require Import String List Bool Arith ZArith Lia.
From EmdV Require Import lib.NpLite model.CycleMaps model.CycleVec model.CycleStat model.CyclesObj.
From EmdV Require Import lib.PyLoop lib.PyLoopTools.
From EmdV Require Import gen.Gen_Skel_Cycitersupport gen.Gen_Skel_Cyciter.
Import ListNotations.
Open Scope string_scope.

(* res / Ok / Exc / Bad are PyLoop's from here on (imported after CyclesObj's res / Ok / Err) *)

(* ====================================================================================================== *)
(* 1. list-level models of the functions that had none                                                     *)
(* ====================================================================================================== *)
(* _slice_len(sli) = sli.stop - sli.start + 1, a slice being the pair (start, stop) of CyclesObj.slices *)
Definition slice_len (ab : nat * nat) : Z := (Z.of_nat (snd ab) - Z.of_nat (fst ab) + 1)%Z.

(* np.max(vect): None = numpy raises ValueError (empty array) *)
Definition vec_max (l : list Z) : option Z := match l with [] => None | a :: t => Some (zmax_list a t) end.

(* number of subset cycles = subset_vect.max() + 1, as CyclesObj.nchains for chains *)
Definition nsubset (sv : list Z) : nat := Z.to_nat (zmax_list (-1) sv + 1).

(* get_subset_stat_from_samples: func over the samples of each subset cycle; None = a map is undefined *)
Definition subset_stat (f : list Z -> Z) (sv cv vals : list Z) : option (list Z) :=
  all_some (map (fun j => option_map (fun inds => f (take_inds vals inds))
                                     (map_subset_to_sample sv cv (Z.of_nat j)))
                (seq 0 (nsubset sv))).

(* map_subset_to_sample_augmented: outer None = the subset index does not select exactly one cycle (the numpy
   broadcast that CycleMaps.map_subset_to_sample does not model either); inner option = the augmented map *)
Definition map_subset_to_sample_aug (trough : Z) (sv cv ph : list Z) (j : Z) : option (option (list nat)) :=
  match map_subset_to_cycle sv j with
  | [k] => Some (map_cycle_to_samples_aug trough cv ph (Z.of_nat k))
  | _ => None
  end.

(* Cycles.get_inds_of_cycle, the two modes *)
Definition inds_of_cycle (trough : Z) (cv ph : list Z) (m : cmode) (k : Z) : option (list nat) :=
  match m with
  | MCycle => Some (map_cycle_to_samples cv k)
  | MAug => map_cycle_to_samples_aug trough cv ph k
  end.

(* mode / iter_through strings: enumerations, the last constructor stands for any other string *)
Inductive pymode := PyMode (m : cmode) | PyOther.
Definition mode_str (m : pymode) : string :=
  match m with PyMode MCycle => "cycle" | PyMode MAug => "augmented" | PyOther => "some other mode" end.
Definition mode_of_str (s : string) : pymode :=
  if String.eqb s "cycle" then PyMode MCycle else if String.eqb s "augmented" then PyMode MAug else PyOther.

Inductive through := TCycles | TValids | TSubset | TChains | TOther.
Definition through_str (t : through) : string :=
  match t with
  | TCycles => "cycles" | TValids => "valids" | TSubset => "subset" | TChains => "chains"
  | TOther => "something else"
  end.
Definition through_of_str (s : string) : through :=
  if String.eqb s "cycles" then TCycles else if String.eqb s "valids" then TValids
  else if String.eqb s "subset" then TSubset else if String.eqb s "chains" then TChains else TOther.

(* an IterateCycles object: the attributes __init__ stores (ncycles / nsamples / nsubset / nchain are derived) *)
Record looper := {
  l_through : through; l_mode : pymode; l_valids : option (list bool);
  l_cv : option (list Z); l_sv : option (list Z); l_chv : option (list Z); l_ph : option (list Z) }.

Definition empty_vec (o : option (list Z)) : bool := match o with Some [] => true | _ => false end.

(* IterateCycles(iter_through=t, mode=m, valids=v, cycle_vect=.., subset_vect=.., chain_vect=.., phase=..):
   a selection overrides iter_through; `.max()` of an empty vector raises ValueError *)
Definition looper_init (t : through) (m : pymode) (valids : option (list bool))
           (cv sv chv ph : option (list Z)) : res looper :=
  if empty_vec cv || empty_vec sv || empty_vec chv then Exc "ValueError"
  else Ok {| l_through := match valids with None => t | Some _ => TValids end; l_mode := m; l_valids := valids;
             l_cv := cv; l_sv := sv; l_chv := chv; l_ph := ph |}.

(* Cycles.iterate(through, conditions, mode); gm = what get_matching_cycles answers *)
Definition iterate_model (gm : res (list bool)) (st : cstate) (t : through) (has_conds : bool) (m : pymode)
  : res looper :=
  let mk v := looper_init t m v (Some (s_cv st)) (s_subset st) (s_chain st) (Some (s_ph st)) in
  if has_conds then match gm with Ok v => mk (Some v) | Exc x => Exc x | Bad => Bad end
  else mk None.

(* IterateCycles.niters: Ok None = the method falls off its if-chain and returns None *)
Definition max_plus1 (o : option (list Z)) : res (option Z) :=
  match o with
  | None => Exc "AttributeError"            (* None.max() *)
  | Some l => match vec_max l with Some z => Ok (Some (z + 1)%Z) | None => Exc "ValueError" end
  end.
Definition niters_model (lp : looper) : res (option Z) :=
  match l_through lp with
  | TCycles => max_plus1 (l_cv lp)
  | TValids => match l_valids lp with
               | None => Exc "AttributeError"
               | Some v => Ok (Some (Z.of_nat (count_true v) + 1)%Z)
               end
  | TSubset => max_plus1 (l_sv lp)
  | TChains => max_plus1 (l_chv lp)
  | TOther => Ok None
  end.

(* IterateCycles.__iter__: which generator method is started; None = ValueError *)
Definition iter_model (lp : looper) : option string :=
  match l_through lp with
  | TCycles => Some "iterate_cycles" | TValids => Some "iterate_valids"
  | TSubset => Some "iterate_subset" | TChains => Some "iterate_chains" | TOther => None
  end.

(* compute_position_in_chain: the loop, literally. chain_pos[inds] = vals is a scatter store *)
Definition set_nth {A : Type} (i : nat) (v : A) (l : list A) : list A := (firstn i l ++ v :: skipn (S i) l)%list.
Fixpoint scatter (cp : list Z) (inds : list nat) (vals : list Z) : list Z :=
  match inds, vals with
  | i :: ti, v :: tv => scatter (set_nth i v cp) ti tv
  | _, _ => cp
  end.
Definition pos_step (chv : list Z) (cp : list Z) (ii : nat) : list Z :=
  let inds := positions (Z.eqb (Z.of_nat ii)) chv in scatter cp inds (arange (length inds)).
(* chain_pos after the chains 0 .. d-1 have been numbered *)
Definition pos_upto (chv : list Z) (d : nat) : list Z :=
  fold_left (pos_step chv) (seq 0 d) (map (fun _ => 0%Z) chv).

(* self.metrics[name] = vals WITHOUT the length guard of _safe_add_metric (compute_position_in_chain writes
   the dictionary directly); ghosts as CyclesObj.add_metric writes them *)
Definition force_metric (st : cstate) (name : string) (p : prov) (vals : list (option Z)) : cstate :=
  set_metrics st (upd_metric {| m_name := name; m_vals := vals; m_prov := p; m_stamp := S (s_clock st) |}
                             (s_metrics st)) (S (s_clock st)).
Definition fill_nan (v : Z) (l : list (option Z)) : list (option Z) :=
  map (fun o => match o with Some x => Some x | None => Some v end) l.
(* the values compute_position_in_chain stores *)
Definition position_vals (chv sv : list Z) : list (option Z) :=
  fill_nan (-1) (project_subset_to_cycles (pos_upto chv (nchains chv)) sv).

(* what the four generator methods of IterateCycles yield, as lists. NOT TIED (yield is outside the mini
   language); stated only so that the laws of props/Prop_Tie_Cyciter.v have a subject. mode 'cycle'. *)
Definition iter_subset_cycles (sv : list Z) : list (nat * list nat) :=
  map (fun j => (j, map_subset_to_cycle sv (Z.of_nat j))) (seq 0 (nsubset sv)).

(* ====================================================================================================== *)
(* 2. the value universe                                                                                   *)
(* ====================================================================================================== *)
Inductive ival :=
| IVec (l : list Z)               (* an integer ndarray: cycle / subset / chain vector, phase codes, sample values *)
| IInt (z : Z)                    (* a numpy integer scalar *)
| IMask (m : list bool)           (* a boolean ndarray *)
| IIdx (l : list nat)             (* an index array: np.where(mask)[0], np.arange(a, b) *)
| IArr (l : list (option Z))      (* a float ndarray, nan = None *)
| ICell (c : option Z)            (* a float scalar *)
| ISlice (a b : nat)              (* slice(a, b) *)
| IFun (f : list Z -> Z)          (* the reducing function func *)
| ISelf (st : cstate)             (* a Cycles object *)
| ILoop (lp : looper).            (* an IterateCycles object *)

(* how an outcome of a primitive shows as the outcome of a function that returns it *)
Definition res_outcome {V : Type} (r : res (val V)) : outcome V :=
  match r with Ok v => Return v | Exc x => Raise x | Bad => Stuck end.
(* a function whose body ends without return returns None *)
Definition as_call {V : Type} (o : outcome V) : outcome V :=
  match o with Normal _ => Return VNone | o => o end.

Local Notation V := ival.
Local Notation val := (val V).

Definition vvec (l : list Z) : val := VSig (IVec l).
Definition vint (z : Z) : val := VSig (IInt z).
Definition vidx (l : list nat) : val := VSig (IIdx l).
Definition varr (l : list (option Z)) : val := VSig (IArr l).
Definition vself (st : cstate) : val := VSig (ISelf st).
Definition vloop (lp : looper) : val := VSig (ILoop lp).
Definition voptvec (o : option (list Z)) : val := match o with Some l => vvec l | None => VNone end.
Definition vbools (o : option (list bool)) : val := match o with Some l => VSig (IMask l) | None => VNone end.

(* an integer: a Python int >= 0 (literals, range elements, array positions) or a numpy integer scalar *)
Definition as_int (v : val) : option Z :=
  match v with VNat n => Some (Z.of_nat n) | VSig (IInt z) => Some z | _ => None end.
(* an operand that numpy broadcasts against a vector: an integer, or an index array with exactly ONE element
   (what map_subset_to_cycle returns for a subset index that selects one cycle); carried as its element *)
Definition as_scalar (v : val) : option Z :=
  match v with VSig (IIdx [k]) => Some (Z.of_nat k) | _ => as_int v end.
(* the three shapes of an index argument ii denoting the integer k: a numpy integer, a one-element index array,
   a positive Python int (the interpreter is stuck on the native subtraction 0 - 1) *)
Definition scalar_form (ii : val) (k : Z) : Prop :=
  ii = vint k \/ (exists j, ii = vidx [j] /\ k = Z.of_nat j) \/ (exists n, ii = VNat (S n) /\ k = Z.of_nat (S n)).
(* the argument `conditions` of Cycles.iterate: None or a list of condition strings *)
Definition conds_val (conds : option (list string)) : option val :=
  option_map (fun cs => VList (map (@VStr V) cs)) conds.
Definition of_optvec (v : val) : option (option (list Z)) :=
  match v with VNone => Some None | VSig (IVec l) => Some (Some l) | _ => None end.
Definition of_bools (v : val) : option (option (list bool)) :=
  match v with VNone => Some None | VSig (IMask l) => Some (Some l) | _ => None end.

(* wrappers that the evaluator of the proofs does not unfold *)
Definition in_range (n : nat) (inds : list nat) : bool := forallb (fun k => (k <? n)%nat) inds.
Definition where_mask (m : list bool) : list nat := positions (fun b => b) m.
Definition eq_mask (l : list Z) (k : Z) : list bool := map (Z.eqb k) l.          (* vect == k, elementwise *)
Definition gt_mask (trough : Z) (l : list Z) : list bool := map (fun p => Z.ltb trough p) l. (* vect > 1.5pi *)
Definition first_of (prev psi : list nat) : option nat :=
  match psi with [] => None | j :: _ => nth_error prev j end.
Definition last_of (l : list nat) : option nat := match l with [] => None | i :: t => Some (last t i) end.
Definition nunique (l : list Z) : nat := length (nodup Z.eq_dec l).
Definition is_some {A} (o : option A) : bool := match o with Some _ => true | None => false end.
Definition zeros (n : nat) : list (option Z) := repeat (Some 0%Z) n.

Section CyciterPrims.
  Variable trough : Z.                         (* integer code of 1.5*pi, as CyclesObj.s_trough *)
  Variable gm : res (list bool).               (* oracle: self.get_matching_cycles(conditions) (tied in Prop_Tie_Cyclesobj.v) *)
  Variable gcv : res val.                      (* oracle: the call of get_cycle_vector with the caller's arguments (tied in Prop_Tie_Cycles.v) *)

  (* ---- rows of translated functions used as callees (each is proved to be what its own program computes) ---- *)
  (* map_cycle_to_samples_augmented as the CODE behaves: no trough candidate -> None; a candidate but no sample
     of cycle k -> IndexError (`[-1]` of an empty array; the model says None there); otherwise the model *)
  Definition aug_res (cv ph : list Z) (k : Z) : res val :=
    match filter (fun i => Z.ltb trough (nth i ph 0%Z)) (map_cycle_to_samples cv (k - 1)) with
    | [] => Ok VNone
    | _ :: _ => match map_cycle_to_samples_aug trough cv ph k with
                | Some l => Ok (vidx l)
                | None => Exc "IndexError"
                end
    end.
  Definition call_aug (cv : list Z) (ii : val) (ph : list Z) : res val :=
    match as_scalar ii with Some k => aug_res cv ph k | None => Bad end.
  Definition call_map_cycle_to_samples (cv : list Z) (ii : val) : res val :=
    match as_scalar ii with Some k => Ok (vidx (map_cycle_to_samples cv k)) | None => Bad end.
  Definition call_map_subset_to_cycle (sv : list Z) (ii : val) : res val :=
    match as_scalar ii with Some j => Ok (vidx (map_subset_to_cycle sv j)) | None => Bad end.

  Definition max_res (o : option (list Z)) : res val :=
    match o with
    | None => Exc "AttributeError"
    | Some l => match vec_max l with Some z => Ok (vint z) | None => Exc "ValueError" end
    end.
  Definition loop_res (r : res looper) : res val :=
    match r with Ok lp => Ok (vloop lp) | Exc x => Exc x | Bad => Bad end.
  Definition iter_res (lp : looper) : res val :=
    match iter_model lp with Some g => Ok (VOpaque g [vloop lp]) | None => Exc "ValueError" end.
  Definition h_gen (g : string) : handler V :=
    fun args kw => match args, kw with [VSig (ILoop lp)], [] => Ok (VOpaque g [vloop lp]) | _, _ => Bad end.
  Definition h_loop_max (field : looper -> option (list Z)) : handler V :=
    fun args kw => match args, kw with [VSig (ILoop lp)], [] => max_res (field lp) | _, _ => Bad end.

  (* ---- THE TABLE: primitive name as emitted -> operation ------------------------------------------------ *)
  Definition iter_table : list (string * handler V) :=
    [ (* ---------------- _cycles_support.py ---------------- *)
      ("sli.stop", fun args kw => match args, kw with [VSig (ISlice a b)], [] => Ok (vint (Z.of_nat b)) | _, _ => Bad end);
      ("sli.start", fun args kw => match args, kw with [VSig (ISlice a b)], [] => Ok (vint (Z.of_nat a)) | _, _ => Bad end);
      (* integer arithmetic that the interpreter does not do natively (a numpy integer is involved) *)
      ("-", fun args kw => match args, kw with
                           | [a; b], [] => match as_scalar a, as_int b with
                                           | Some x, Some y => Ok (vint (x - y))
                                           | _, _ => Bad
                                           end
                           | _, _ => Bad
                           end);
      ("+", fun args kw => match args, kw with
                           | [VStr a; VStr b], [] => Ok (VStr (a ++ b))
                           | [a; b], [] => match as_int a, as_int b with
                                           | Some x, Some y => Ok (vint (x + y))
                                           | _, _ => Bad
                                           end
                           | _, _ => Bad
                           end);
      (* vect == k: elementwise comparison with an integer (or a one-element array) *)
      ("==", fun args kw => match args, kw with
                            | [VSig (IVec l); ii], [] =>
                                match as_scalar ii with Some k => Ok (VSig (IMask (eq_mask l k))) | None => Bad end
                            | _, _ => Bad
                            end);
      (* np.where(mask): a 1-tuple holding the positions of the True elements *)
      ("np.where", fun args kw => match args, kw with
                                  | [VSig (IMask m)], [] => Ok (VList [vidx (where_mask m)])
                                  | _, _ => Bad
                                  end);
      (* phase[prev]: fancy indexing with an index array *)
      ("getitem", fun args kw => match args, kw with
                                 | [VSig (IVec l); VSig (IIdx inds)], [] =>
                                     if in_range (length l) inds then Ok (vvec (take_inds l inds)) else Exc "IndexError"
                                 | _, _ => Bad
                                 end);
      ("1.5", fun args kw => match args, kw with [], [] => Ok (VOpaque "1.5" []) | _, _ => Bad end);
      ("np.pi", fun args kw => match args, kw with [], [] => Ok (VOpaque "np.pi" []) | _, _ => Bad end);
      ("*", fun args kw => match args, kw with
                           | [a; b], [] => if is_opaque0 a "1.5" && is_opaque0 b "np.pi"
                                           then Ok (VOpaque "1.5*np.pi" []) else Bad
                           | _, _ => Bad
                           end);
      (* phase[..] > 1.5*np.pi  <->  code > trough *)
      (">", fun args kw => match args, kw with
                           | [VSig (IVec l); t], [] =>
                               if is_opaque0 t "1.5*np.pi" then Ok (VSig (IMask (gt_mask trough l))) else Bad
                           | _, _ => Bad
                           end);
      ("len", fun args kw => match args, kw with
                             | [VSig (IIdx l)], [] => Ok (VNat (length l))
                             | [VOpaque t [VSig (IVec l)]], [] =>
                                 if String.eqb t "np.unique" then Ok (VNat (nunique l)) else Bad
                             | _, _ => Bad
                             end);
      ("prev[prev_segment_inds[0]]",
        fun args kw => match args, kw with
                       | [VSig (IIdx prev); VSig (IIdx psi)], [] =>
                           match first_of prev psi with Some p => Ok (VNat p) | None => Exc "IndexError" end
                       | _, _ => Bad
                       end);
      ("np.where(cycle_vect == ii)[0][-1]",
        fun args kw => match args, kw with
                       | [VSig (IVec cv); ii], [] =>
                           match as_scalar ii with
                           | Some k => match last_of (map_cycle_to_samples cv k) with
                                       | Some n => Ok (VNat n)
                                       | None => Exc "IndexError"
                                       end
                           | None => Bad
                           end
                       | _, _ => Bad
                       end);
      ("np.arange", fun args kw => match args, kw with
                                   | [VNat a; VNat b], [] => Ok (vidx (seq a (b - a)))
                                   | [VNat n], [] => Ok (vvec (arange n))
                                   | _, _ => Bad
                                   end);
      (* callees: map_subset_to_cycle is tied in Prop_Tie_Maps.v, the augmented map below (row_aug) *)
      ("map_subset_to_cycle",
        fun args kw => match args, kw with [VSig (IVec sv); ii], [] => call_map_subset_to_cycle sv ii | _, _ => Bad end);
      ("map_cycle_to_samples_augmented",
        fun args kw => match args, kw with
                       | [VSig (IVec cv); ii; VSig (IVec ph)], [] => call_aug cv ii ph
                       | _, _ => Bad
                       end);
      ("np.max", fun args kw => match args, kw with [VSig (IVec l)], [] => max_res (Some l) | _, _ => Bad end);
      ("np.zeros", fun args kw => match args, kw with
                                  | [VList [n]], [] =>
                                      match as_int n with
                                      | Some z => if Z.ltb z 0 then Exc "ValueError" else Ok (varr (zeros (Z.to_nat z)))
                                      | None => Bad
                                      end
                                  | _, _ => Bad
                                  end);
      ("range", fun args kw => match args, kw with
                               | [n], [] => match as_int n with Some z => Ok (range_val 0 (Z.to_nat z)) | None => Bad end
                               | _, _ => Bad
                               end);
      (* func(vals[map_subset_to_sample(..)]): the callee row of Prop_Tie_Maps.v (model None = not modelled),
         fancy indexing, then the reducing function *)
      ("func(vals[map_subset_to_sample(subset_vect, cycle_vect, ii)])",
        fun args kw => match args, kw with
                       | [VSig (IFun f); VSig (IVec vals); VSig (IVec sv); VSig (IVec cv); ii], [] =>
                           match as_int ii with
                           | Some j => match map_subset_to_sample sv cv j with
                                       | Some inds => if in_range (length vals) inds
                                                      then Ok (VSig (ICell (Some (f (take_inds vals inds)))))
                                                      else Exc "IndexError"
                                       | None => Bad
                                       end
                           | None => Bad
                           end
                       | _, _ => Bad
                       end);
      (* N11 store out[ii] = v *)
      ("out[ii] =", fun args kw => match args, kw with
                                   | [VSig (IArr out); VNat i; VSig (ICell c)], [] =>
                                       if (i <? length out)%nat then Ok (varr (set_nth i c out)) else Exc "IndexError"
                                   | _, _ => Bad
                                   end);
      (* ---------------- cycles.py: attributes ---------------- *)
      ("self.cycle_vect", fun args kw => match args, kw with
                                         | [VSig (ISelf st)], [] => Ok (vvec (s_cv st))
                                         | [VSig (ILoop lp)], [] => Ok (voptvec (l_cv lp))
                                         | _, _ => Bad
                                         end);
      ("self.phase", fun args kw => match args, kw with [VSig (ISelf st)], [] => Ok (vvec (s_ph st)) | _, _ => Bad end);
      ("self.subset_vect", fun args kw => match args, kw with
                                          | [VSig (ISelf st)], [] => Ok (voptvec (s_subset st))
                                          | [VSig (ILoop lp)], [] => Ok (voptvec (l_sv lp))
                                          | _, _ => Bad
                                          end);
      ("self.chain_vect", fun args kw => match args, kw with
                                         | [VSig (ISelf st)], [] => Ok (voptvec (s_chain st))
                                         | [VSig (ILoop lp)], [] => Ok (voptvec (l_chv lp))
                                         | _, _ => Bad
                                         end);
      ("self.iter_through",
        fun args kw => match args, kw with [VSig (ILoop lp)], [] => Ok (VStr (through_str (l_through lp))) | _, _ => Bad end);
      (* ---------------- Cycles.get_inds_of_cycle ---------------- *)
      ("_cycles_support.map_cycle_to_samples",
        fun args kw => match args, kw with [VSig (IVec cv); ii], [] => call_map_cycle_to_samples cv ii | _, _ => Bad end);
      ("_cycles_support.map_cycle_to_samples_augmented",
        fun args kw => match args, kw with
                       | [VSig (IVec cv); ii; VSig (IVec ph)], [] => call_aug cv ii ph
                       | _, _ => Bad
                       end);
      (* ---------------- Cycles.iterate / __iter__ ---------------- *)
      ("self.get_matching_cycles(conditions)",
        fun args kw => match args, kw with
                       | [VSig (ISelf _); _], [] => match gm with Ok v => Ok (VSig (IMask v)) | Exc x => Exc x | Bad => Bad end
                       | _, _ => Bad
                       end);
      (* the constructor: row = looper_init (IterateCycles.__init__ itself is not tied: read it against the source) *)
      ("IterateCycles",
        fun args kw => match args, kw with
                       | [], [(_, VStr t); (_, VStr m); (_, v); (_, cv); (_, sv); (_, chv); (_, ph)] =>
                           if keys_are kw ["iter_through"; "mode"; "valids"; "cycle_vect"; "subset_vect"; "chain_vect"; "phase"]
                           then match of_bools v, of_optvec cv, of_optvec sv, of_optvec chv, of_optvec ph with
                                | Some v', Some cv', Some sv', Some chv', Some ph' =>
                                    loop_res (looper_init (through_of_str t) (mode_of_str m) v' cv' sv' chv' ph')
                                | _, _, _, _, _ => Bad
                                end
                           else Bad
                       | _, _ => Bad
                       end);
      (* self.iterate().__iter__(): the defaults of iterate, then __iter__ of the looper *)
      ("self.iterate().__iter__()",
        fun args kw => match args, kw with
                       | [VSig (ISelf st)], [] =>
                           match iterate_model gm st TCycles false (PyMode MCycle) with
                           | Ok lp => iter_res lp
                           | Exc x => Exc x
                           | Bad => Bad
                           end
                       | _, _ => Bad
                       end);
      (* ---------------- IterateCycles.niters / __iter__ ---------------- *)
      ("self.cycle_vect.max()", h_loop_max l_cv);
      ("self.subset_vect.max()", h_loop_max l_sv);
      ("self.chain_vect.max()",
        fun args kw => match args, kw with
                       | [VSig (ILoop lp)], [] => max_res (l_chv lp)
                       | [VSig (ISelf st)], [] => max_res (s_chain st)
                       | _, _ => Bad
                       end);
      ("self.valids.sum()",
        fun args kw => match args, kw with
                       | [VSig (ILoop lp)], [] => match l_valids lp with
                                                 | Some v => Ok (vint (Z.of_nat (count_true v)))
                                                 | None => Exc "AttributeError"
                                                 end
                       | _, _ => Bad
                       end);
      (* starting a generator: an opaque generator object (the generators are not modelled) *)
      ("self.iterate_cycles()", h_gen "iterate_cycles");
      ("self.iterate_valids()", h_gen "iterate_valids");
      ("self.iterate_subset()", h_gen "iterate_subset");
      ("self.iterate_chains()", h_gen "iterate_chains");
      (* ---------------- Cycles.compute_position_in_chain ---------------- *)
      ("np.zeros_like", fun args kw => match args, kw with
                                       | [VSig (IVec l)], [] => Ok (vvec (map (fun _ => 0%Z) l))
                                       | _, _ => Bad
                                       end);
      (* N11 store chain_pos[inds] = values: a scatter *)
      ("chain_pos[inds] =",
        fun args kw => match args, kw with
                       | [VSig (IVec cp); VSig (IIdx inds); VSig (IVec vals)], [] =>
                           if in_range (length cp) inds
                           then if (length inds =? length vals)%nat then Ok (vvec (scatter cp inds vals))
                                else Exc "ValueError"
                           else Exc "IndexError"
                       | _, _ => Bad
                       end);
      (* callee tied in Prop_Tie_Maps.v (skeleton_project_subset_to_cycles); int values become floats *)
      ("_cycles_support.project_subset_to_cycles",
        fun args kw => match args, kw with
                       | [VSig (IVec cp); VSig (IVec sv)], [] => Ok (varr (project_subset_to_cycles cp sv))
                       | _, _ => Bad
                       end);
      ("-1", fun args kw => match args, kw with [], [] => Ok (vint (-1)) | _, _ => Bad end);
      ("chain_pos[np.isnan(chain_pos)] =",
        fun args kw => match args, kw with
                       | [VSig (IArr l); VSig (IInt v)], [] => Ok (varr (fill_nan v l))
                       | _, _ => Bad
                       end);
      (* astype(int) of an array with a nan is undefined in numpy: not modelled *)
      ("chain_pos.astype(int)",
        fun args kw => match args, kw with
                       | [VSig (IArr l)], [] => if forallb is_some l then Ok (varr l) else Bad
                       | _, _ => Bad
                       end);
      ("self.metrics['chain_position'] =",
        fun args kw => match args, kw with
                       | [VSig (ISelf st); VSig (IArr vals)], [] =>
                           Ok (vself (force_metric st "chain_position" (PChainT 4) vals))
                       | _, _ => Bad
                       end);
      (* ---------------- _get_chain_len ---------------- *)
      ("np.unique", fun args kw => match args, kw with
                                   | [VSig (IVec l)], [] => Ok (VOpaque "np.unique" [vvec l])
                                   | _, _ => Bad
                                   end);
      (* ---------------- get_cycle_inds ---------------- *)
      ("warnings.warn", fun args kw => match args, kw with [VStr _], [] => Ok VNone | _, _ => Bad end);
      ("get_cycle_vector(*args, **kwargs)", fun args kw => match args, kw with [_; _], [] => gcv | _, _ => Bad end) ].
  Definition iter_prims : prims V := prims_of iter_table.

  (* ---- initial environments: the parameters in def-line order ------------------------------------------- *)
  Definition names_slice_len := Eval cbv in assigned prog_slice_len params_slice_len.
  Definition names_aug := Eval cbv in assigned prog_map_cycle_to_samples_augmented params_map_cycle_to_samples_augmented.
  Definition names_subaug := Eval cbv in assigned prog_map_subset_to_sample_augmented params_map_subset_to_sample_augmented.
  Definition names_substat := Eval cbv in assigned prog_get_subset_stat_from_samples params_get_subset_stat_from_samples.
  Definition names_get_inds := Eval cbv in assigned prog_Cycles_get_inds_of_cycle params_Cycles_get_inds_of_cycle.
  Definition names_iterate := Eval cbv in assigned prog_Cycles_iterate params_Cycles_iterate.
  Definition names_citer := Eval cbv in assigned prog_Cycles_iter params_Cycles_iter.
  Definition names_cpic := Eval cbv in assigned prog_Cycles_compute_position_in_chain params_Cycles_compute_position_in_chain.
  Definition names_chain_len := Eval cbv in assigned prog_get_chain_len params_get_chain_len.
  Definition names_niters := Eval cbv in assigned prog_IterateCycles_niters params_IterateCycles_niters.
  Definition names_liter := Eval cbv in assigned prog_IterateCycles_iter params_IterateCycles_iter.
  Definition names_gci := Eval cbv in assigned prog_get_cycle_inds params_get_cycle_inds.

  Definition env0_slice_len (a b : nat) : env V := frame params_slice_len names_slice_len [VSig (ISlice a b)].
  Definition env0_aug (cv : list Z) (ii : val) (ph : list Z) : env V :=
    frame params_map_cycle_to_samples_augmented names_aug [vvec cv; ii; vvec ph].
  Definition env0_subaug (sv cv : list Z) (ii : val) (ph : list Z) : env V :=
    frame params_map_subset_to_sample_augmented names_subaug [vvec sv; vvec cv; ii; vvec ph].
  Definition env0_substat (vals sv cv : list Z) (f : list Z -> Z) : env V :=
    frame params_get_subset_stat_from_samples names_substat [vvec vals; vvec sv; vvec cv; VSig (IFun f)].
  Definition env0_get_inds (st : cstate) (ii : val) (m : pymode) : env V :=
    frame params_Cycles_get_inds_of_cycle names_get_inds [vself st; ii; VStr (mode_str m)].
  (* conditions: None or any value c (the oracle gm is what get_matching_cycles makes of it) *)
  Definition env0_iterate (st : cstate) (t : through) (conds : option val) (m : pymode) : env V :=
    frame params_Cycles_iterate names_iterate
          [vself st; VStr (through_str t); match conds with Some c => c | None => VNone end; VStr (mode_str m)].
  Definition env0_citer (st : cstate) : env V := frame params_Cycles_iter names_citer [vself st].
  Definition env0_cpic (st : cstate) : env V := frame params_Cycles_compute_position_in_chain names_cpic [vself st].
  Definition env0_chain_len (x : list Z) : env V := frame params_get_chain_len names_chain_len [vvec x].
  Definition env0_niters (lp : looper) : env V := frame params_IterateCycles_niters names_niters [vloop lp].
  Definition env0_liter (lp : looper) : env V := frame params_IterateCycles_iter names_liter [vloop lp].
  Definition env0_gci (args kwargs : val) : env V := frame params_get_cycle_inds names_gci [args; kwargs].

  (* ---- rendering of model results ----------------------------------------------------------------------- *)
  Definition opt_idx_outcome (o : option (list nat)) : outcome V :=
    match o with Some l => Return (vidx l) | None => Return VNone end.
  Definition niters_outcome (r : res (option Z)) : outcome V :=
    match r with Ok (Some z) => Return (vint z) | Ok None => Return VNone | Exc x => Raise x | Bad => Stuck end.
  Definition loop_outcome (r : res looper) : outcome V := res_outcome (loop_res r).
End CyciterPrims.
