(* Control-skeleton tie "wave" of emd/cycles.py (notes/TIE_WAVE.md):
     get_cycle_vector_from_waveform                 <-> wave_col / wave_model below, model/CycleVec.v (adj, slice, expand)
     get_chain_stat                                 <-> model/CyclesObj.v chain_stat (through take_inds)
     normalised_waveform, mean_vector, basis_project <-> small models over an abstract number type, below
   THE REVIEWABLE PART: the value representation, the primitive mapping tables (one row per primitive name as emitted
   in gen/Gen_Skel_Wave.v), the initial environments, the models and the rendering of model results.
   Definitions only; the proofs are in proofs/SkelFacts_Wave.v.

   As in the tie of get_cycle_vector every numpy expression is mapped to the LITERAL list operation it denotes
   (np.diff = zdiffs, np.where = positions, a[i:j] = slice, x[a:b] = v -> set_range); sift._find_extrema is an
   ORACLE (any function from a column to a pair (locations, magnitudes)). Samples are integers (codes of the floats:
   only their sign and the sign of differences of signs are ever looked at). *)
From Coq Require Import String List Bool Arith ZArith Lia.
From EmdV Require Import lib.PyLoop lib.PyLoopTools lib.NpLite model.CycleMaps model.CycleVec gen.Gen_Skel_Wave.
Import ListNotations.
Open Scope nat_scope.
Open Scope string_scope.

(* ---- numpy values --------------------------------------------------------------------------------- *)
Inductive wval :=
| WMat (n : nat) (cols : list (list Z))   (* a 2-d array with n rows, given by its columns (imf, cycles) *)
| WVec (l : list Z)                       (* a 1-d array of samples / signs / differences *)
| WIdx (l : list nat)                     (* an index array (peak_loc, trough_loc, np.where(..)[0]) *)
| WBools (l : list bool)                  (* a boolean array *)
| WNum (z : Z)                            (* one sample *)
| WInt (z : Z).                           (* a Python int that may be negative: len(peak_loc) - 1 *)

(* aliases that the symbolic evaluator of the proofs does not unfold (definitions, not new notions) *)
Definition nth_opt {A : Type} (l : list A) (i : nat) : option A := nth_error l i.

(* x[a:b] = v on a 1-d array, numpy semantics for non-negative a, b: entries a <= i < b that exist are overwritten
   (an empty or partly out-of-range slice is not an error) *)
Fixpoint set_range_from (i a b : nat) (v : Z) (l : list Z) : list Z :=
  match l with
  | [] => []
  | x :: t => (if ((a <=? i)%nat && (i <? b)%nat)%bool then v else x) :: set_range_from (S i) a b v t
  end.
Definition set_range (a b : nat) (v : Z) (l : list Z) : list Z := set_range_from 0 a b v l.
(* M[:, i] = c on the column list *)
Definition set_col (i : nat) (c : list Z) (M : list (list Z)) : list (list Z) :=
  (firstn i M ++ c :: skipn (S i) M)%list.

(* cycle_start, as an enumeration (the program compares the string natively) *)
Inductive cstart := SPeaks | SAsc | STroughs | SDesc | SOther.
Definition cstart_str (m : cstart) : string :=
  match m with SPeaks => "peaks" | SAsc => "asc" | STroughs => "troughs" | SDesc => "desc" | SOther => "other" end.

(* ==================================================================================================== *)
(* the list-level model of one column                                                                   *)
(* ==================================================================================================== *)
(* np.where(trough_loc - p < 0)[0][-1]: the position in trough_loc of the last trough strictly before sample p;
   None = IndexError (no trough before p) *)
Definition last_below (tl : list nat) (p : nat) : option nat :=
  match positions (fun t => (t <? p)%nat) tl with
  | [] => None
  | i :: r => Some (last r i)
  end.

(* the ascending zero crossing in front of the peak at sample p ('asc' mode):
   None = IndexError, Some None = `continue` (the trough before the peak is positive or the peak negative),
   Some (Some s) = the crossing: first position in col[tr:p] where the sign jumps by 2, plus tr *)
Definition asc_cross (col : list Z) (tl : list nat) (p : nat) : option (option nat) :=
  match last_below tl p with
  | None => None
  | Some ti =>
    match nth_opt tl ti with
    | None => None
    | Some tr =>
      match nth_opt col tr with
      | None => None
      | Some vt =>
        if (0 <? vt)%Z then Some None
        else match nth_opt col p with
             | None => None
             | Some vp =>
               if (vp <? 0)%Z then Some None
               else match positions (fun b : bool => b) (map (fun d => (d =? 2)%Z) (zdiffs (map Z.sgn (slice col tr p)))) with
                    | [] => None
                    | c :: _ => Some (Some (c + tr))
                    end
             end
      end
    end
  end.

(* iteration jj of the inner loop: None = IndexError, Some None = nothing written, Some (Some (a, b)) = the
   block [a, b) gets the label jj + 1 *)
Definition wave_seg (m : cstart) (col : list Z) (pk tl : list nat) (j : nat) : option (option (nat * nat)) :=
  match m with
  | SPeaks => match nth_opt pk j, nth_opt pk (S j) with
              | Some a, Some b => Some (Some (a, b))
              | _, _ => None
              end
  | STroughs => match nth_opt tl j, nth_opt tl (S j) with
                | Some a, Some b => Some (Some (a, b))
                | _, _ => None
                end
  | SAsc => match nth_opt pk j with
            | None => None
            | Some p =>
              match asc_cross col tl p with
              | None => None
              | Some None => Some None
              | Some (Some start) =>
                match nth_opt pk (S j) with
                | None => None
                | Some p2 =>
                  match asc_cross col tl p2 with
                  | None => None
                  | Some None => Some None
                  | Some (Some stop) => Some (Some (start, stop))
                  end
                end
              end
            end
  | SDesc | SOther => Some None
  end.

(* the inner loop `for jj in range(len(peak_loc) - 1)` as a function; None = it raises IndexError *)
Fixpoint wave_loop (seg : nat -> option (option (nat * nat))) (js : list nat) (col : list Z) : option (list Z) :=
  match js with
  | [] => Some col
  | j :: t =>
      match seg j with
      | None => None
      | Some None => wave_loop seg t col
      | Some (Some (a, b)) => wave_loop seg t (set_range a b (Z.of_nat (j + 1)) col)
      end
  end.

Section WavePrims.
  (* sift._find_extrema: ANY function from a column to (locations, magnitudes) *)
  Variable ext : list Z -> list nat * list Z.

  (* one column of n rows: the number of iterations is len(peak_loc) - 1 in EVERY mode (also 'troughs') *)
  Definition wave_col (m : cstart) (n : nat) (col : list Z) : option (list Z) :=
    let pk := fst (ext col) in
    let tl := fst (ext (map Z.opp col)) in
    wave_loop (wave_seg m col pk tl) (seq 0 (length pk - 1)) (repeat 0%Z n).

  (* support.ensure_1d_with_singleton on one array: a vector becomes one column; a 2-d array must have exactly one
     column (ValueError otherwise - the C19 repair); cf. wave_norm_shapes in props/Prop_Tie_Wave.v *)
  Definition wave_norm (a : wval) : option (nat * list (list Z)) :=
    match a with
    | WVec l => Some (length l, [l])
    | WMat n cols => if (length cols =? 1)%nat then Some (n, cols) else None
    | _ => None
    end.

  Definition wave_table : list (string * handler wval) :=
    [ ("ensure_1d_with_singleton", fun args kw => match args, kw with
         | [VList [VSig a]; VList [VStr _]; VStr _], [] =>
             match a with
             | WVec _ | WMat _ _ =>
                 match wave_norm a with Some (n, cols) => Ok (VSig (WMat n cols)) | None => Exc "ValueError" end
             | _ => Bad
             end
         | _, _ => Bad end);
      ("print", fun args kw => match args, kw with [VStr _], [] => Ok VNone | _, _ => Bad end);
      ("np.zeros_like", fun args kw => match args, kw with
         | [VSig (WMat n c)], [] => Ok (VSig (WMat n (map (fun _ => repeat 0%Z n) c))) | _, _ => Bad end);
      ("imf.shape", fun args kw => match args, kw with
         | [VSig (WMat n c)], [] => Ok (VList [VNat n; VNat (length c)]) | _, _ => Bad end);
      (* range(imf.shape[1]); range(len(peak_loc) - 1) with a possibly negative argument *)
      ("range", fun args kw => match args, kw with
         | [VNat n], [] => Ok (range_val 0 n)
         | [VSig (WInt z)], [] => Ok (range_val 0 (Z.to_nat z))
         | _, _ => Bad end);
      ("imf[:, ii]", fun args kw => match args, kw with
         | [VSig (WMat _ c); VNat i], [] =>
             match nth_opt c i with Some col => Ok (VSig (WVec col)) | None => Exc "IndexError" end
         | _, _ => Bad end);
      ("-imf[:, ii]", fun args kw => match args, kw with
         | [VSig (WMat _ c); VNat i], [] =>
             match nth_opt c i with Some col => Ok (VSig (WVec (map Z.opp col))) | None => Exc "IndexError" end
         | _, _ => Bad end);
      ("sift._find_extrema", fun args kw => match args, kw with
         | [VSig (WVec l)], [] => Ok (VList [VSig (WIdx (fst (ext l))); VSig (WVec (snd (ext l)))])
         | _, _ => Bad end);
      ("-trough_mag", fun args kw => match args, kw with
         | [VSig (WVec l)], [] => Ok (VSig (WVec (map Z.opp l))) | _, _ => Bad end);
      ("len", fun args kw => match args, kw with
         | [VSig (WIdx l)], [] => Ok (VSig (WInt (Z.of_nat (length l)))) | _, _ => Bad end);
      ("-", fun args kw => match args, kw with
         | [VSig (WInt z); VNat k], [] => Ok (VSig (WInt (z - Z.of_nat k)%Z)) | _, _ => Bad end);
      (* peak_loc[jj], trough_loc[jj], trough_loc[tr_ind], np.where(..)[0][0] *)
      ("getitem", fun args kw => match args, kw with
         | [VSig (WIdx l); VNat i], [] =>
             match nth_opt l i with Some a => Ok (VNat a) | None => Exc "IndexError" end
         | _, _ => Bad end);
      (* N11 stores: the new value of cycles *)
      ("cycles[peak_loc[jj]:peak_loc[jj + 1], ii] =", fun args kw => match args, kw with
         | [VSig (WMat n M); VSig (WIdx l); VNat j; VNat i; VNat lab], [] =>
             match nth_opt l j, nth_opt l (S j), nth_opt M i with
             | Some a, Some b, Some col => Ok (VSig (WMat n (set_col i (set_range a b (Z.of_nat lab) col) M)))
             | _, _, _ => Exc "IndexError"
             end
         | _, _ => Bad end);
      ("cycles[trough_loc[jj]:trough_loc[jj + 1], ii] =", fun args kw => match args, kw with
         | [VSig (WMat n M); VSig (WIdx l); VNat j; VNat i; VNat lab], [] =>
             match nth_opt l j, nth_opt l (S j), nth_opt M i with
             | Some a, Some b, Some col => Ok (VSig (WMat n (set_col i (set_range a b (Z.of_nat lab) col) M)))
             | _, _, _ => Exc "IndexError"
             end
         | _, _ => Bad end);
      ("cycles[start:stop, ii] =", fun args kw => match args, kw with
         | [VSig (WMat n M); VNat a; VNat b; VNat i; VNat lab], [] =>
             match nth_opt M i with
             | Some col => Ok (VSig (WMat n (set_col i (set_range a b (Z.of_nat lab) col) M)))
             | None => Exc "IndexError"
             end
         | _, _ => Bad end);
      (* 'asc' mode *)
      ("np.where(trough_loc - peak_loc[jj] < 0)[0][-1]", fun args kw => match args, kw with
         | [VSig (WIdx tl); VSig (WIdx pk); VNat j], [] =>
             match nth_opt pk j with
             | None => Exc "IndexError"
             | Some p => match last_below tl p with Some i => Ok (VNat i) | None => Exc "IndexError" end
             end
         | _, _ => Bad end);
      ("np.where(trough_loc - peak_loc[jj + 1] < 0)[0][-1]", fun args kw => match args, kw with
         | [VSig (WIdx tl); VSig (WIdx pk); VNat j], [] =>
             match nth_opt pk (S j) with
             | None => Exc "IndexError"
             | Some p => match last_below tl p with Some i => Ok (VNat i) | None => Exc "IndexError" end
             end
         | _, _ => Bad end);
      ("peak_loc[jj + 1]", fun args kw => match args, kw with
         | [VSig (WIdx l); VNat j], [] =>
             match nth_opt l (S j) with Some a => Ok (VNat a) | None => Exc "IndexError" end
         | _, _ => Bad end);
      ("imf[tr, ii]", fun args kw => match args, kw with
         | [VSig (WMat _ c); VNat r; VNat i], [] =>
             match nth_opt c i with
             | Some col => match nth_opt col r with Some z => Ok (VSig (WNum z)) | None => Exc "IndexError" end
             | None => Exc "IndexError"
             end
         | _, _ => Bad end);
      ("imf[pk, ii]", fun args kw => match args, kw with
         | [VSig (WMat _ c); VNat r; VNat i], [] =>
             match nth_opt c i with
             | Some col => match nth_opt col r with Some z => Ok (VSig (WNum z)) | None => Exc "IndexError" end
             | None => Exc "IndexError"
             end
         | _, _ => Bad end);
      (">", fun args kw => match args, kw with
         | [VSig (WNum z); VNat 0], [] => Ok (VBool (0 <? z)%Z) | _, _ => Bad end);
      ("<", fun args kw => match args, kw with
         | [VSig (WNum z); VNat 0], [] => Ok (VBool (z <? 0)%Z) | _, _ => Bad end);
      ("imf[tr:pk, ii]", fun args kw => match args, kw with
         | [VSig (WMat _ c); VNat a; VNat b; VNat i], [] =>
             match nth_opt c i with Some col => Ok (VSig (WVec (slice col a b))) | None => Exc "IndexError" end
         | _, _ => Bad end);
      ("np.sign", fun args kw => match args, kw with
         | [VSig (WVec l)], [] => Ok (VSig (WVec (map Z.sgn l))) | _, _ => Bad end);
      ("np.diff", fun args kw => match args, kw with
         | [VSig (WVec l)], [] => Ok (VSig (WVec (zdiffs l))) | _, _ => Bad end);
      ("==", fun args kw => match args, kw with
         | [VSig (WVec l); VNat 2], [] => Ok (VSig (WBools (map (fun d => (d =? 2)%Z) l))) | _, _ => Bad end);
      ("np.where", fun args kw => match args, kw with
         | [VSig (WBools l)], [] => Ok (VList [VSig (WIdx (positions (fun b => b) l))]) | _, _ => Bad end);
      ("cycles.astype(int)", fun args kw => match args, kw with
         | [VSig (WMat n M)], [] => Ok (VSig (WMat n M)) | _, _ => Bad end) ].
  Definition wave_prims : prims wval := prims_of wave_table.

  Definition wave_names : list string :=
    Eval cbv in assigned prog_get_cycle_vector_from_waveform params_get_cycle_vector_from_waveform.

  (* arguments in def-line order: imf (a vector or a 2-d array), cycle_start *)
  Definition wave_env0 (a : wval) (m : cstart) : env wval :=
    frame params_get_cycle_vector_from_waveform wave_names [VSig a; VStr (cstart_str m)].

  (* the whole function *)
  Inductive wres := WRet (n : nat) (cols : list (list Z)) | WRaise (x : string).
  Definition wave_model (m : cstart) (a : wval) : wres :=
    match wave_norm a with
    | None => WRaise "ValueError"
    | Some (n, cols) =>
        match m with
        | SDesc => WRaise "ValueError"
        | _ => match all_some (map (wave_col m n) cols) with
               | None => WRaise "IndexError"
               | Some outs => WRet n outs
               end
        end
    end.
  Definition wave_render (r : wres) : outcome wval :=
    match r with WRet n outs => Return (VSig (WMat n outs)) | WRaise x => Raise x end.

  Definition wave_input (a : wval) : Prop := match a with WVec _ | WMat _ _ => True | _ => False end.
End WavePrims.

(* ==================================================================================================== *)
(* the block model: what the vector is when the extrema are strictly increasing sample positions        *)
(* ==================================================================================================== *)
(* blocks [a_k, a_{k+1}) of consecutive boundaries labelled lab, lab+1, ...: written over col *)
Fixpoint paint (segs : list (nat * nat)) (lab : Z) (col : list Z) : list Z :=
  match segs with
  | [] => col
  | (a, b) :: t => paint t (lab + 1)%Z (set_range a b lab col)
  end.

(* the labels 1..k of emd (0 = no cycle) shifted to the convention of get_cycle_vector / model/CycleVec.v
   (-1 = no cycle, cycles 0..k-1) *)
Definition shift_labels (l : list Z) : list Z := map (fun x => (x - 1)%Z) l.

(* a valid cycle vector with K cycles, in the words of the C12 theorems (Prop_C12.labels_consecutive,
   label_runs_contiguous) and of model/CycleMaps.v wf_labels: labels -1 or 0..K-1, every label present, labels
   increase with time, each label is one contiguous run *)
Definition valid_cycle_vector (cv : list Z) (K : nat) : Prop :=
  wf_labels cv K /\
  (forall l, (0 <= l < Z.of_nat K)%Z -> In l cv) /\
  (forall i j x y, i <= j -> nth_error cv i = Some x -> nth_error cv j = Some y ->
                   (0 <= x)%Z -> (0 <= y)%Z -> (x <= y)%Z) /\
  (forall i j m l, nth_error cv i = Some l -> nth_error cv j = Some l -> (0 <= l)%Z ->
                   i <= m <= j -> nth_error cv m = Some l).

(* a toy instance of the oracle for the examples: strict interior local maxima, magnitudes = the samples there *)
Fixpoint toy_peaks (i : nat) (l : list Z) : list nat :=
  match l with
  | a :: (b :: c :: _) as t => if ((a <? b) && (c <? b))%Z then S i :: toy_peaks (S i) t else toy_peaks (S i) t
  | _ => []
  end.
Definition toy_ext (l : list Z) : list nat * list Z :=
  (toy_peaks 0 l, map (fun i => nth i l 0%Z) (toy_peaks 0 l)).

(* ==================================================================================================== *)
(* get_chain_stat(chains, var, func): np.array([func(var[x]) for x in chains])                          *)
(* ==================================================================================================== *)
(* The loop of this function is a list comprehension, ONE opaque text for the translator (N7): the row of
   that text below IS the statement "the comprehension applies func to var[x] for each x of chains, in order";
   the tie pins down that nothing else happens around it (np.array of that list is returned).
   take_inds is model/CyclesObj.v take_inds (copied: that file is not imported to keep the closure small;
   chain_stat_is_model in proofs/SkelFacts_Wave.v states the relation to CyclesObj.chain_stat's shape). *)
Inductive sval :=
| SVec (l : list Z)                 (* a 1-d array *)
| SPyList (l : list Z)              (* a Python list of numbers *)
| SChains (l : list (list nat)).    (* the nested list of indices *)

Definition take_inds (vals : list Z) (inds : list nat) : list Z := map (fun i => nth i vals 0%Z) inds.
Definition inds_ok (nvals : nat) (chs : list (list nat)) : bool :=
  forallb (forallb (fun i => (i <? nvals)%nat)) chs.

Section ChainStatPrims.
  Variable f : list Z -> Z.          (* func, a pure total function of the selected values *)

  (* None = IndexError (an index outside var) *)
  Definition chain_stat_list (chs : list (list nat)) (vals : list Z) : option (list Z) :=
    if inds_ok (length vals) chs then Some (map (fun x => f (take_inds vals x)) chs) else None.

  Definition gcs_table : list (string * handler sval) :=
    [ ("[func(var[x]) for x in chains]", fun args kw => match args, kw with
         | [fv; VSig (SVec vals); VSig (SChains chs)], [] =>
             if is_opaque0 fv "func" then
               match chain_stat_list chs vals with Some r => Ok (VSig (SPyList r)) | None => Exc "IndexError" end
             else Bad
         | _, _ => Bad end);
      ("np.array", fun args kw => match args, kw with
         | [VSig (SPyList r)], [] => Ok (VSig (SVec r)) | _, _ => Bad end) ].
  Definition gcs_prims : prims sval := prims_of gcs_table.
  Definition gcs_names : list string := Eval cbv in assigned prog_get_chain_stat params_get_chain_stat.
  (* arguments in def-line order: chains, var, func *)
  Definition gcs_env0 (chs : list (list nat)) (vals : list Z) : env sval :=
    frame params_get_chain_stat gcs_names [VSig (SChains chs); VSig (SVec vals); VOpaque "func" []].
  Definition gcs_render (r : option (list Z)) : outcome sval :=
    match r with Some l => Return (VSig (SVec l)) | None => Raise "IndexError" end.
End ChainStatPrims.

(* ==================================================================================================== *)
(* basis_project(X, ncomps, ret_basis)                                                                  *)
(* ==================================================================================================== *)
(* A basis is the list of its rows (after .T) / columns (before); a row is (is_sine, k) for
   cos / sin of np.linspace(0, 2 * k * np.pi, nsamples). The numbers themselves are not modelled. *)
Inductive bval :=
| BX (nsamples : nat)                          (* the data X: only its first dimension is read *)
| BBasis (transposed : bool) (nsamples : nat) (rows : list (bool * nat))
| BProj (rows : list (bool * nat)).            (* basis.dot(X): one output row per basis row *)

Definition basis_pair (k : nat) : list (bool * nat) := [(false, k); (true, k)].

(* the model: the fundamental pair, and for ncomps > 1 the pairs ii + 1 for ii = 1..ncomps *)
Definition basis_rows (ncomps : nat) : list (bool * nat) :=
  (basis_pair 1 ++ (if (1 <? ncomps)%nat then flat_map (fun ii => basis_pair (ii + 1)) (seq 1 ncomps) else []))%list.

Definition bp_table : list (string * handler bval) :=
  [ ("X.shape", fun args kw => match args, kw with
       | [VSig (BX n)], [] => Ok (VList [VNat n; VOpaque "ncols" []]) | _, _ => Bad end);
    ("np.c_[np.cos(np.linspace(0, 2 * np.pi, nsamples)), np.sin(np.linspace(0, 2 * np.pi, nsamples))]",
      fun args kw => match args, kw with
       | [VNat n], [] => Ok (VSig (BBasis false n (basis_pair 1))) | _, _ => Bad end);
    ("range", range_handler);
    ("np.c_[basis, np.cos(np.linspace(0, 2 * (ii + 1) * np.pi, nsamples)), np.sin(np.linspace(0, 2 * (ii + 1) * np.pi, nsamples))]",
      fun args kw => match args, kw with
       | [VSig (BBasis false n rows); VNat ii; VNat n'], [] =>
           if (n =? n')%nat then Ok (VSig (BBasis false n (rows ++ basis_pair (ii + 1)))) else Bad
       | _, _ => Bad end);
    ("basis.T", fun args kw => match args, kw with
       | [VSig (BBasis false n rows)], [] => Ok (VSig (BBasis true n rows)) | _, _ => Bad end);
    ("basis.dot(X)", fun args kw => match args, kw with
       | [VSig (BBasis true n rows); VSig (BX n')], [] =>
           if (n =? n')%nat then Ok (VSig (BProj rows)) else Exc "ValueError"
       | _, _ => Bad end) ].
Definition bp_prims : prims bval := prims_of bp_table.
Definition bp_names : list string := Eval cbv in assigned prog_basis_project params_basis_project.
(* arguments in def-line order: X, ncomps, ret_basis *)
Definition bp_env0 (n ncomps : nat) (ret_basis : bool) : env bval :=
  frame params_basis_project bp_names [VSig (BX n); VNat ncomps; VBool ret_basis].
Definition bp_render (n : nat) (ret_basis : bool) (rows : list (bool * nat)) : outcome bval :=
  if ret_basis then Return (VList [VSig (BProj rows); VSig (BBasis true n rows)]) else Return (VSig (BProj rows)).

(* ==================================================================================================== *)
(* mean_vector(IP, X, mask)                                                                             *)
(* ==================================================================================================== *)
(* Over an abstract type C of (complex) numbers; every numpy call is the list operation it denotes. *)
Section MeanVecPrims.
  Variable C : Type.
  Variables (fcos fsin : C -> C) (imag : C) (cadd cmul : C -> C -> C) (cmean : list C -> C).

  Inductive mval :=
  | MVec (l : list C)                    (* a 1-d array *)
  | MCol (l : list C)                    (* phi[:, None]: the same numbers as an (n, 1) array *)
  | MMat (rows : list (list C))          (* a 2-d array given by its ROWS (X, mv) *)
  | MNum (c : C).

  Fixpoint transpose_rows (ncols : nat) (rows : list (list C)) : list (list C) :=
    match ncols with
    | 0 => []
    | S k => map (fun r => match r with [] => imag | x :: _ => x end) rows :: transpose_rows k (map (@tl C) rows)
    end.

  (* the model: mv[i][j] = (cos IP[i] + 1j sin IP[i]) * X[i][j]; the mean of every column *)
  Definition unit_phasor (p : C) : C := cadd (fcos p) (cmul imag (fsin p)).
  Definition mean_vector_model (ncols : nat) (IP : list C) (X : list (list C)) : list C :=
    map cmean (transpose_rows ncols (map (fun pr => map (cmul (unit_phasor (fst pr))) (snd pr)) (combine IP X))).

  Definition mv_table : list (string * handler mval) :=
    [ ("np.cos", fun args kw => match args, kw with
         | [VSig (MVec l)], [] => Ok (VSig (MVec (map fcos l))) | _, _ => Bad end);
      ("np.sin", fun args kw => match args, kw with
         | [VSig (MVec l)], [] => Ok (VSig (MVec (map fsin l))) | _, _ => Bad end);
      ("1j", fun args kw => match args, kw with [], [] => Ok (VSig (MNum imag)) | _, _ => Bad end);
      ("*", fun args kw => match args, kw with
         | [VSig (MNum c); VSig (MVec l)], [] => Ok (VSig (MVec (map (cmul c) l)))
         (* phi[:, None] * X: broadcasting an (n, 1) column against (n, k); ValueError unless the row counts agree *)
         | [VSig (MCol l); VSig (MMat rows)], [] =>
             if (length l =? length rows)%nat
             then Ok (VSig (MMat (map (fun pr => map (cmul (fst pr)) (snd pr)) (combine l rows))))
             else Exc "ValueError"
         | _, _ => Bad end);
      ("+", fun args kw => match args, kw with
         | [VSig (MVec a); VSig (MVec b)], [] =>
             if (length a =? length b)%nat then Ok (VSig (MVec (map (fun pr => cadd (fst pr) (snd pr)) (combine a b))))
             else Bad
         | _, _ => Bad end);
      ("phi[:, None]", fun args kw => match args, kw with
         | [VSig (MVec l)], [] => Ok (VSig (MCol l)) | _, _ => Bad end);
      ("mv.mean(axis=0)", fun args kw => match args, kw with
         | [VSig (MMat rows)], [] =>
             Ok (VSig (MVec (map cmean (transpose_rows (match rows with [] => 0 | r :: _ => length r end) rows))))
         | _, _ => Bad end) ].
  Definition mv_prims : prims mval := prims_of mv_table.
  Definition mv_names : list string := Eval cbv in assigned prog_mean_vector params_mean_vector.
  (* arguments in def-line order: IP, X, mask (never read: any value) *)
  Definition mv_env0 (IP : list C) (X : list (list C)) (mask : val mval) : env mval :=
    frame params_mean_vector mv_names [VSig (MVec IP); VSig (MMat X); mask].
End MeanVecPrims.

(* the shape of the imf argument, for the relation of wave_norm to model/Shapes.v e1d_one (C19) *)
Definition wshape (a : wval) : list nat :=
  match a with WVec l => [length l] | WMat n cols => [n; length cols] | _ => [] end.
