(* Control-skeleton tie of functions that the earlier ties left untied (notes/TIE_MISC.md): THE REVIEWABLE PART.
   Definitions only: primitive mapping tables, initial environments, renderings, and the small models that have no
   file of their own in model/.  Proofs: proofs/SkelFacts_Misc.v; statements: props/Prop_Tie_Misc.v.

   1. emd/logger.py set_up                        <->  Logger.step _ (SetUp level file)          (C20)
   2. emd/_cycles_support.py get_chain_stat_from_samples  <->  CyclesObj.chain_stat              (C15)
   2b. emd/cycles.py Cycles.compute_chain_timings (two slices)  <->  CyclesObj.chain_timings     (C15)
   3. emd/spectra.py define_hist_bins, define_hist_bins_from_data  <->  hist_bins (defined here) (C10, C11) *)
From Coq Require Import String List Bool Arith ZArith.
From EmdV Require Import lib.PyLoop lib.PyLoopTools lib.NpLite.
From EmdV Require Import gen.Gen_Skel_Misc gen.Gen_Skel_Miscsupport gen.Gen_Skel_Misccycles gen.Gen_Skel_Miscspectra.
From EmdV Require Import model.SkelPrims_Logger.
From EmdV Require model.SkelPrims_Cyclesobj.
From EmdV Require model.Logger model.CycleMaps model.CyclesObj.
Import ListNotations.
Open Scope string_scope.

(* ================================================================================================ *)
(* 1. logger.set_up  <->  Logger.step s (SetUp level file)                                           *)
(* ================================================================================================ *)
(* The encoding is the one of model/SkelPrims_Logger.v, layer 2 (imported, not changed): the state is a [world] (the
   handler list of logging.getLogger('emd') with kind and level of each handler, the logging.disable flag, the
   attribute logger.disabled), it lives in the variable "$logger", and [thread] turns the expression statements that
   write it - here logging.config.dictConfig(..), set_level(..), set_format(..) - into `$logger = w($logger, ..)`.
   [erase (thread prog_set_up) = prog_set_up] is proved (thread_erases_set_up).  set_up reads nothing: no readers.

   What the table ASSUMES and the translator cannot see: the content of the module-level YAML text `default_config`
   (logger 'emd' lists the handlers [console, file]; the handlers dict has the keys console (level INFO) and file (no
   level: NOTSET, file name = the log_file argument)).  The handler propagate flag and the logger's own level
   (propagate: false, level: DEBUG in the YAML) are not fields of [world]: not modelled. *)
Definition su_writers : list string := [ "logging.config.dictConfig"; "set_level"; "set_format" ].
Definition thread_su : stmt -> stmt := thread st_var [] su_writers.
Definition erase_su : stmt -> stmt := erase st_var [] su_writers.
Definition tprog_set_up : stmt := Eval cbv in thread_su prog_set_up.

(* the config dict, as far as set_up and dictConfig look at it:
     lh = new_config['loggers']['emd']['handlers']  (handler names, in order)
     hd = the keys of new_config['handlers']
     lf = the file name inside new_config['handlers']['file']  (the log_file argument) *)
Definition config_val (lh hd : list lv) (lf : lv) : lv := VOpaque "config" [VList lh; VList hd; lf].

Definition has_name (n : string) (l : list lv) : bool :=
  existsb (fun v => match v with VStr s => String.eqb s n | _ => false end) l.
Fixpoint remove_name (n : string) (l : list lv) : list lv :=
  match l with
  | [] => []
  | VStr s :: t => if String.eqb s n then t else VStr s :: remove_name n t
  | v :: t => v :: remove_name n t
  end.
Definition name_in (hd : list lv) (v : lv) : bool := match v with VStr s => has_name s hd | _ => false end.

(* the handler dictConfig builds for a key of the YAML `handlers` section: kind and initial level *)
Definition handler_named (v : lv) : option (hkind * Z) :=
  match v with
  | VStr s => if String.eqb s "console" then Some (HConsole, Logger.INFO)
              else if String.eqb s "file" then Some (HFile, 0%Z) else None
  | _ => None
  end.
Fixpoint build_handlers (lh : list lv) : option (list (hkind * Z)) :=
  match lh with
  | [] => Some []
  | v :: t => match handler_named v, build_handlers t with
              | Some h, Some hs => Some (h :: hs)
              | _, _ => None
              end
  end.

(* logging.config.dictConfig(config) in world w (non-incremental):
     - every handler of the `handlers` section is built; a RotatingFileHandler on the file name '' cannot be opened:
       ValueError "Unable to configure handler 'file'" (checked on CPython 3, see notes/TIE_MISC.md);
     - a logger that lists a handler missing from the section: ValueError "Unable to configure logger 'emd'";
     - otherwise the logger's handlers are REPLACED by the listed ones, logger.disabled becomes False; the
       logging.disable flag is not touched. *)
Definition dict_config (w : world) (lh hd : list lv) (lf : lv) : res lv :=
  match lf with
  | VStr fname =>
      if has_name "file" hd && Nat.eqb (String.length fname) 0 then Exc "ValueError"
      else if forallb (name_in hd) lh
           then match build_handlers lh with
                | Some hs => Ok (world_val {| handlers := hs; mgr_disabled := mgr_disabled w; logger_disabled := false |})
                | None => Bad
                end
           else Exc "ValueError"
  | _ => Bad
  end.

Section SetUpPrims.
  Variable fmt_known : bool.     (* is console_format a key of the YAML `formatters` section?  (set_format raises KeyError if not) *)

  Definition su_table : list (string * handler lval) :=
    [ ("default_config.format(prefix=prefix, log_file=log_file)",
        fun args kw => match args, kw with
                       | [p; lf], [] => Ok (VOpaque "config_text" [p; lf])
                       | _, _ => Bad end);
      ("yaml.FullLoader", fun args kw => match args, kw with [], [] => Ok (VOpaque "yaml.FullLoader" []) | _, _ => Bad end);
      (* THE ASSUMPTION about the YAML text: logger emd lists [console, file]; handlers = {console, file(filename=log_file)} *)
      ("yaml.load",
        fun args kw => match args, kw with
                       | [VOpaque t [_; lf]], [(k, ld)] =>
                           if String.eqb t "config_text" && String.eqb k "Loader" && is_opaque0 ld "yaml.FullLoader"
                           then Ok (config_val [VStr "console"; VStr "file"] [VStr "console"; VStr "file"] lf) else Bad
                       | _, _ => Bad end);
      ("len", fun args kw => match args, kw with [VStr s], [] => Ok (VNat (String.length s)) | _, _ => Bad end);
      (* N11 stores: return the new value of new_config *)
      ("new_config['loggers']['emd']['handlers'] =",
        fun args kw => match args, kw with
                       | [VOpaque t [VList _; hd; lf]; VList l], [] =>
                           if String.eqb t "config" then Ok (VOpaque "config" [VList l; hd; lf]) else Bad
                       | _, _ => Bad end);
      ("del new_config['handlers']['file']",
        fun args kw => match args, kw with
                       | [VOpaque t [lh; VList hd; lf]], [] =>
                           if String.eqb t "config"
                           then (if has_name "file" hd then Ok (VOpaque "config" [lh; VList (remove_name "file" hd); lf])
                                 else Exc "KeyError")
                           else Bad
                       | _, _ => Bad end);
      (* writer *)
      ("logging.config.dictConfig",
        fun args kw => match args, kw with
                       | [VSig (LWorld w); VOpaque t [VList lh; VList hd; lf]], [] =>
                           if String.eqb t "config" then dict_config w lh hd lf else Bad
                       | _, _ => Bad end);
      (* writer: set_level(<name of z>) IS w_set_level (Prop_Tie_Logger.skeleton_set_level, whatever `handler` is) *)
      ("set_level",
        fun args kw => match args, kw with
                       | [VSig (LWorld w); VOpaque t [VSig (LInt z)]], [] =>
                           if String.eqb t "levelname" then Ok (world_val (w_set_level w z)) else Bad
                       | _, _ => Bad end);
      (* writer: set_format(formatter=console_format, prefix=prefix) changes a formatter (not a field of [world]) or
         raises KeyError for an unknown format name; set_format itself is not translated (`raise .. from`-free but
         the formatter objects have no model) *)
      ("set_format",
        fun args kw => match args, kw with
                       | [VSig (LWorld w)], [(k1, fm); (k2, _)] =>
                           if String.eqb k1 "formatter" && String.eqb k2 "prefix" && is_opaque0 fm "console_format"
                           then (if fmt_known then Ok (world_val w) else Exc "KeyError") else Bad
                       | _, _ => Bad end) ].
  Definition su_prims : prims lval := prims_of su_table.
End SetUpPrims.

Definition set_up_entry : list string := st_var :: params_set_up.
Definition set_up_names : list string := Eval cbv in assigned tprog_set_up set_up_entry.
(* set_up(prefix=<anything>, log_file=fname, level=None | <name of z>, console_format=None | <a format name>) in world w *)
Definition level_arg (lvl : option Z) : lv := match lvl with Some z => name_val z | None => VNone end.
Definition format_arg (cf : bool) : lv := if cf then VOpaque "console_format" [] else VNone.
Definition set_up_env0 (w : world) (prefix : lv) (fname : string) (lvl : option Z) (cf : bool) : env lval :=
  frame set_up_entry set_up_names [world_val w; prefix; VStr fname; level_arg lvl; format_arg cf].

(* ---- what set_up does to a world; [abs] maps it to Logger.set_up (abs_set_up) ---- *)
Definition wants_file (fname : string) : bool := negb (Nat.eqb (String.length fname) 0).
Definition w_fresh (w : world) (file : bool) : world :=
  {| handlers := (HConsole, Logger.INFO) :: (if file then [(HFile, 0%Z)] else []);
     mgr_disabled := mgr_disabled w; logger_disabled := false |}.
Definition w_set_up (w : world) (lvl : option Z) (file : bool) : world :=
  match lvl with Some z => w_set_level (w_fresh w file) z | None => w_fresh w file end.
(* the Python-level result: None, or the KeyError of set_format (raised AFTER the handlers are installed and the
   level is set: the final world is the same) *)
Definition set_up_result (fmt_known cf : bool) : res lv := if cf && negb fmt_known then Exc "KeyError" else Ok VNone.

(* ================================================================================================ *)
(* 2. _cycles_support.get_chain_stat_from_samples  <->  CyclesObj.chain_stat                         *)
(* ================================================================================================ *)
(* carrier: integer vectors and scalars of the model *)
Inductive cval := CVec (l : list Z) | CInt (z : Z) | CFun (f : list Z -> Z).
Definition cv := val cval.
Definition vec_val (l : list Z) : cv := VSig (CVec l).

Definition set_nth {A : Type} (i : nat) (v : A) (l : list A) : list A := (firstn i l ++ v :: skipn (S i) l)%list.

(* the maximum of a non-empty vector *)
Definition true_max (l : list Z) : option Z := match l with [] => None | x :: t => Some (zmax_list x t) end.

(* out = np.zeros((nchains,)) is a float array: the entries written so far, then zeros *)
Definition chain_table : list (string * handler cval) :=
  [ (* np.max(chain_vect): numpy raises ValueError on an empty array; the model's [nchains] is 0 there *)
    ("np.max",
      fun args kw => match args, kw with
                     | [VSig (CVec chv)], [] =>
                         match true_max chv with Some z => Ok (VSig (CInt z)) | None => Exc "ValueError" end
                     | _, _ => Bad end);
    (* np.max(chain_vect) + 1 as a number of chains; a negative maximum + 1 = 0 for a vector of -1 *)
    ("+",
      fun args kw => match args, kw with
                     | [VSig (CInt z); VNat 1], [] => Ok (VNat (Z.to_nat (z + 1)))
                     | _, _ => Bad end);
    ("np.zeros",
      fun args kw => match args, kw with
                     | [VList [VNat n]], [] => Ok (vec_val (repeat 0%Z n))
                     | _, _ => Bad end);
    ("range", range_handler);
    (* func(vals[map_chain_to_samples(chain_vect, subset_vect, cycle_vect, ii)]): the map is CycleMaps.map_chain_to_samples
       (tied in Prop_Tie_Maps.v); undefined map (the code raises inside the callee) = Bad *)
    ("func(vals[map_chain_to_samples(chain_vect, subset_vect, cycle_vect, ii)])",
      fun args kw => match args, kw with
                     | [VSig (CFun f); VSig (CVec vals); VSig (CVec chv); VSig (CVec sv); VSig (CVec cyv); VNat ii], [] =>
                         match CycleMaps.map_chain_to_samples chv sv cyv (Z.of_nat ii) with
                         | Some inds => Ok (VSig (CInt (f (CyclesObj.take_inds vals inds))))
                         | None => Bad
                         end
                     | _, _ => Bad end);
    ("out[ii] =",
      fun args kw => match args, kw with
                     | [VSig (CVec out); VNat i; VSig (CInt z)], [] =>
                         if (i <? length out)%nat then Ok (vec_val (set_nth i z out)) else Exc "IndexError"
                     | _, _ => Bad end) ].
Definition chain_prims : prims cval := prims_of chain_table.

Definition chain_names : list string :=
  Eval cbv in assigned prog_get_chain_stat_from_samples params_get_chain_stat_from_samples.
Definition chain_env0 (vals chv sv cyv : list Z) (f : list Z -> Z) : env cval :=
  frame params_get_chain_stat_from_samples chain_names
        [vec_val vals; vec_val chv; vec_val sv; vec_val cyv; VSig (CFun f)].

(* how CyclesObj.chain_stat shows: the vector; None (a chain whose sample map is undefined) = Stuck (not modelled) *)
Definition chain_render (r : option (list Z)) : outcome cval :=
  match r with Some l => Return (vec_val l) | None => Stuck end.

(* ================================================================================================ *)
(* 2b. Cycles.compute_chain_timings  <->  CyclesObj.chain_timings (chain_t_loop over kinds 0..4)      *)
(* ================================================================================================ *)
(* The method holds a nested def (_get_chain_len: fail closed), so it is translated as TWO slices: the three
   statements before the def (prog_compute_chain_timings_a) and the two after it (.._b).  The theorem is about
   `a ; b` run in the frame [self; _get_chain_len] with _get_chain_len bound to a tag from the start (the def statement
   only binds that name and slice a does not read it).  The BODY of _get_chain_len (len(np.unique(x))) is not
   translated: that it is CyclesObj.f_nunique is part of the row of the fourth call.

   Each of the five statements is one opaque text (a method call on self: N7), written as an expression statement;
   [thread_self] (model/SkelPrims_Cyclesobj.v, reused) makes it `self = <call>`.  A row returns the MODEL's round k:
   the meaning of the argument expressions inside the text (metric name, source vector, reducing function) is in the
   row, as in notes/TIE_CYCLESOBJ2.md for compute_cycle_timings.  Rounds 0..3 are calls of compute_chain_metric,
   tied by Prop_Tie_Cyclesobj2.skeleton_chain_round (up to pyview: the ghost provenance differs);
   compute_position_in_chain (round 4) is tied nowhere: its row is an assumption. *)
Inductive tval := TSelf (st : CyclesObj.cstate).
Definition tself (st : CyclesObj.cstate) : val tval := VSig (TSelf st).

Definition ct_writers : list string :=
  [ "self.compute_chain_metric('chain_start', np.arange(0, len(self.cycle_vect)), cf_start_value, dtype=int)";
    "self.compute_chain_metric('chain_end', np.arange(0, len(self.cycle_vect)), cf_end_value, dtype=int)";
    "self.compute_chain_metric('chain_len_samples', self.cycle_vect, len, dtype=int)";
    "self.compute_chain_metric('chain_len_cycles', self.cycle_vect, _get_chain_len, dtype=int)";
    "self.compute_position_in_chain()" ].
Definition tprog_ct_a : stmt := Eval cbv in SkelPrims_Cyclesobj.thread_self ct_writers prog_compute_chain_timings_a.
Definition tprog_ct_b : stmt := Eval cbv in SkelPrims_Cyclesobj.thread_self ct_writers prog_compute_chain_timings_b.
Definition tprog_ct : stmt := Eval cbv in SSeq tprog_ct_a tprog_ct_b.

(* round k on the object st: ValueError without a subset (compute_chain_metric raises it; model ORaised 2); a chain
   whose sample map is undefined (model ORaised 9, never under Inv: CyclesObjFacts.chain_timings_total) is Bad *)
Definition ct_next (st : CyclesObj.cstate) (k : nat) (v : list (option Z)) : CyclesObj.cstate :=
  fst (CyclesObj.add_metric st (CyclesObj.chain_t_name k) (CyclesObj.PChainT k) v).
Definition ct_round (k : nat) (st : CyclesObj.cstate) : res (val tval) :=
  match CyclesObj.s_conds st, CyclesObj.s_subset st, CyclesObj.s_chain st with
  | Some _, Some sv, Some chv =>
      match CyclesObj.chain_t_vals st chv sv k with
      | Some v => Ok (tself (ct_next st k v))
      | None => Bad
      end
  | _, _, _ => Exc "ValueError"
  end.
Definition h_round (k : nat) : handler tval :=
  fun args kw => match args, kw with [VSig (TSelf st)], [] => ct_round k st | _, _ => Bad end.

Definition ct_table : list (string * handler tval) :=
  [ ("self.compute_chain_metric('chain_start', np.arange(0, len(self.cycle_vect)), cf_start_value, dtype=int)", h_round 0);
    ("self.compute_chain_metric('chain_end', np.arange(0, len(self.cycle_vect)), cf_end_value, dtype=int)", h_round 1);
    ("self.compute_chain_metric('chain_len_samples', self.cycle_vect, len, dtype=int)", h_round 2);
    (* N16: the local function is an argument of the text; it must be the one the nested def bound *)
    ("self.compute_chain_metric('chain_len_cycles', self.cycle_vect, _get_chain_len, dtype=int)",
      fun args kw => match args, kw with
                     | [VSig (TSelf st); g], [] => if is_opaque0 g "_get_chain_len" then ct_round 3 st else Bad
                     | _, _ => Bad end);
    ("self.compute_position_in_chain()", h_round 4) ].
Definition ct_prims : prims tval := prims_of ct_table.

Definition ct_entry : list string := params_compute_chain_timings_a ++ ["_get_chain_len"].
Definition ct_names : list string := Eval cbv in assigned tprog_ct ct_entry.
Definition ct_env0 (st : CyclesObj.cstate) : env tval := frame ct_entry ct_names [tself st; VOpaque "_get_chain_len" []].

(* what a Python caller gets *)
Definition call_result {V : Type} (o : outcome V) : res (val V) :=
  match o with
  | Return v => Ok v
  | Normal _ => Ok VNone
  | Raise x => Exc x
  | Continue _ | Stuck | OutOfFuel => Bad
  end.
(* how CyclesObj.chain_timings shows: the result, and the object left behind (None: not modelled) *)
Definition ct_render (r : CyclesObj.cstate * CyclesObj.out) : res (val tval) * option (val tval) :=
  match snd r with
  | CyclesObj.OOk => (Ok VNone, Some (tself (fst r)))
  | CyclesObj.ORaised 2 => (Exc "ValueError", Some (tself (fst r)))
  | _ => (Bad, None)
  end.

(* ================================================================================================ *)
(* 3. spectra.define_hist_bins, define_hist_bins_from_data  <->  hist_bins (the model is defined HERE)   *)
(* ================================================================================================ *)
(* scale / mode strings: the strings the code knows, and one representative of any other string *)
Inductive hscale := HLinear | HLog | HOtherScale.
Definition scale_str (sc : hscale) : string :=
  match sc with HLinear => "linear" | HLog => "log" | HOtherScale => "other" end.
Definition scale_of_str (s : string) : hscale :=
  if String.eqb s "log" then HLog else if String.eqb s "linear" then HLinear else HOtherScale.
Inductive hmode := MSqrt | MOtherMode.
Definition mode_str (m : hmode) : string := match m with MSqrt => "sqrt" | MOtherMode => "other" end.

Section HistBins.
  Variable A : Type.                           (* the numbers (floats) *)
  Variable linspace : A -> A -> nat -> list A. (* np.linspace(lo, hi, n); contract (a hypothesis of the shape theorems):
                                                  length (linspace lo hi n) = n *)
  Variables flog fexp : A -> A.                (* np.log, np.exp (elementwise) *)
  Variable add : A -> A -> A.                  (* x + y *)
  Variable half : A -> A.                      (* x / 2 *)
  Variables amin amax : list A -> A.           (* X.min(), X.max() of a non-empty array *)

  (* ---- the model ---- *)
  (* centres: the midpoints of adjacent edges *)
  Fixpoint midpoints (e : list A) : list A :=
    match e with
    | a :: t => match t with b :: _ => half (add a b) :: midpoints t | [] => [] end
    | [] => []
    end.
  (* None = ValueError (unknown scale) *)
  Definition hist_edges (sc : hscale) (lo hi : A) (nbins : nat) : option (list A) :=
    match sc with
    | HLinear => Some (linspace lo hi (nbins + 1))
    | HLog => Some (map fexp (linspace (flog lo) (flog hi) (nbins + 1)))
    | HOtherScale => None
    end.
  Definition hist_bins (sc : hscale) (lo hi : A) (nbins : nat) : option (list A * list A) :=
    option_map (fun e => (e, midpoints e)) (hist_edges sc lo hi nbins).
  (* nbins given, or derived from the number of samples: floor(sqrt(len X)) (float rounding of np.sqrt for
     astronomically long inputs is not modelled); None = ValueError (empty X: min of an empty array; unknown mode;
     unknown scale) *)
  Definition hist_bins_from_data (sc : hscale) (md : hmode) (nb : option nat) (x : list A) : option (list A * list A) :=
    match x with
    | [] => None
    | _ :: _ =>
        match nb with
        | Some n => hist_bins sc (amin x) (amax x) n
        | None => match md with
                  | MSqrt => hist_bins sc (amin x) (amax x) (Nat.sqrt (length x))
                  | MOtherMode => None
                  end
        end
    end.

  (* ---- the carrier and the tables ---- *)
  Inductive hval := HNum (a : A) | HArr (l : list A).
  Definition hnum (a : A) : val hval := VSig (HNum a).
  Definition harr (l : list A) : val hval := VSig (HArr l).
  (* a Python list of numbers (the value of the list comprehension) *)
  Definition hlist (l : list A) : val hval := VOpaque "list" [harr l].

  Definition hb_table : list (string * handler hval) :=
    [ (* np.log([data_min, data_max]): an array of two numbers, indexed natively by p[0], p[1] *)
      ("np.log",
        fun args kw => match args, kw with
                       | [VList [VSig (HNum a); VSig (HNum b)]], [] => Ok (VList [hnum (flog a); hnum (flog b)])
                       | _, _ => Bad end);
      ("np.linspace",
        fun args kw => match args, kw with
                       | [VSig (HNum a); VSig (HNum b); VNat n], [] => Ok (harr (linspace a b n))
                       | _, _ => Bad end);
      ("np.exp",
        fun args kw => match args, kw with [VSig (HArr l)], [] => Ok (harr (map fexp l)) | _, _ => Bad end);
      (* the comprehension is ONE opaque text (N7): that it computes the midpoints is this row *)
      ("[(edges[ii] + edges[ii + 1]) / 2 for ii in range(len(edges) - 1)]",
        fun args kw => match args, kw with [VSig (HArr e)], [] => Ok (hlist (midpoints e)) | _, _ => Bad end);
      ("np.array",
        fun args kw => match args, kw with
                       | [VOpaque t [VSig (HArr l)]], [] => if String.eqb t "list" then Ok (harr l) else Bad
                       | _, _ => Bad end) ].
  Definition hb_prims : prims hval := prims_of hb_table.

  Definition hb_names : list string := Eval cbv in assigned prog_define_hist_bins params_define_hist_bins.
  Definition hb_env0 (lo hi : A) (nbins : nat) (sc : hscale) : env hval :=
    frame params_define_hist_bins hb_names [hnum lo; hnum hi; VNat nbins; VStr (scale_str sc)].

  (* the result: the tuple (edges, centres), or ValueError *)
  Definition hb_render (r : option (list A * list A)) : outcome hval :=
    match r with Some (e, c) => Return (VList [harr e; harr c]) | None => Raise "ValueError" end.

  Definition hbd_table : list (string * handler hval) :=
    [ ("X.min()",
        fun args kw => match args, kw with
                       | [VSig (HArr x)], [] => match x with [] => Exc "ValueError" | _ :: _ => Ok (hnum (amin x)) end
                       | _, _ => Bad end);
      ("X.max()",
        fun args kw => match args, kw with
                       | [VSig (HArr x)], [] => match x with [] => Exc "ValueError" | _ :: _ => Ok (hnum (amax x)) end
                       | _, _ => Bad end);
      ("np.sqrt(X.shape[0]).astype(int)",
        fun args kw => match args, kw with [VSig (HArr x)], [] => Ok (VNat (Nat.sqrt (length x))) | _, _ => Bad end);
      (* the callee: skeleton_define_hist_bins *)
      ("define_hist_bins",
        fun args kw => match args, kw with
                       | [VSig (HNum lo); VSig (HNum hi); VNat n], [(k, VStr s)] =>
                           if String.eqb k "scale"
                           then match hist_bins (scale_of_str s) lo hi n with
                                | Some (e, c) => Ok (VList [harr e; harr c])
                                | None => Exc "ValueError"
                                end
                           else Bad
                       | _, _ => Bad end) ].
  Definition hbd_prims : prims hval := prims_of hbd_table.

  Definition hbd_names : list string :=
    Eval cbv in assigned prog_define_hist_bins_from_data params_define_hist_bins_from_data.
  Definition nbins_arg (nb : option nat) : val hval := match nb with Some n => VNat n | None => VNone end.
  Definition hbd_env0 (x : list A) (nb : option nat) (md : hmode) (sc : hscale) : env hval :=
    frame params_define_hist_bins_from_data hbd_names [harr x; nbins_arg nb; VStr (mode_str md); VStr (scale_str sc)].
End HistBins.
