(* Model of how the three option bundles of emd/sift.py travel from a sift variant's entry point to the
   stage functions they configure (property C06):
     imf_opts      -> get_next_imf          (stage G)
     envelope_opts -> interp_envelope       (stage E, called from G once per envelope per iteration)
     extrema_opts  -> get_padded_extrema    (stage P, called from E)
   Definitions only; lemmas in proofs/OptionsFacts.v.

   Option VALUES are abstract: [V] is any type, the plumbing only ever asks a value whether it is falsy
   ([vfalsy], Python's `not x` on something that is neither None nor a dict) and copies it.  Literals
   that occur in the source (signature defaults, fall-back dictionaries, get_config's trees) enter
   through [inj : Config.val -> V] from the tables of gen/Gen_Defaults.v, which harness/gen_tables.py
   re-generates from emd/sift.py before every proof run.

   Every call of a stage function is recorded with the arguments it was bound to (signature defaults
   applied; X and mode left out, the mode is part of the stage).  The model returns the list of these
   records for a whole run, calls made in Pool workers included; how many iterations / layers / ensemble
   members / mask phases a run has is data (a [shape]) the theorems quantify over.

   Call sites modelled (line numbers of emd/sift.py with the three C06 repairs applied):
     sift 453-471 (falsy imf_opts -> literal; keywords to get_next_imf)
     _sift_with_noise 553-561 (keywords to sift, a second time for noise_mode='flip')
     ensemble_sift 645-648, complete_ensemble_sift 741-744 / 763-766 (positional starmap into _sift_with_noise)
     complete_ensemble_sift 747-751 / 771-773 (positional starmap into sift)            [_v0: noise_sifts_v0]
     get_next_imf_mask 851-868 (functools.partial(get_next_imf, ...) in a Pool)          [_v0: next_imf_mask_v0]
     get_mask_freqs 902-912 and its call in mask_sift 1055                              [_v0: mask_freqs_v0]
     mask_sift 1087-1092, sift_second_layer 1164, mask_sift_second_layer 1215 (sift_args unpacked)
     get_next_imf 117-138, interp_envelope 1410-1425, get_padded_extrema 1254-1264 (fall-backs)
     get_config / SiftConfig item assignment / get_func (delivery routes). *)
From Coq Require Import ZArith List Bool String.
From EmdV Require Import lib.NpLite model.Config gen.Gen_Defaults.
Import ListNotations.
Open Scope string_scope.

Inductive emode := Upper | Lower | Combined.        (* interp_envelope's mode; peaks / troughs / abs_peaks below it *)
Inductive stage := SG | SE (m : emode) | SP (m : emode).

Definition stage_fn (s : stage) : string :=
  match s with SG => "get_next_imf" | SE _ => "interp_envelope" | SP _ => "get_padded_extrema" end.

Inductive variant := VSift | VEnsemble | VComplete | VMask | VSecond | VMaskSecond.
Inductive route := RKeyword | RConfig | RPartial.

(* how often things happen in one run: data, not options *)
Definition swn_shape := (list nat * option (list nat))%type.   (* _sift_with_noise: one sift, a second one when flipping *)
Record shape := {
  sh_sift : list nat;                                           (* classic sift: sifting iterations of each layer *)
  sh_ens : list swn_shape;                                      (* ensemble_sift: one entry per ensemble member *)
  sh_ceemd : list (list swn_shape * list (list nat));           (* per layer: members, then the sifts of the noise *)
  sh_mask : option nat * list (list nat);                       (* first-IMF sift for 'zc'/'if' (or none); per layer, per phase *)
  sh_second : list (list nat);                                  (* sift_second_layer: one classic sift per column *)
  sh_msecond : list (list (list nat))                           (* mask_sift_second_layer: one masked sift per column *)
}.

Definition NESTED : list string := ["envelope_opts"; "extrema_opts"].
Definition BUNDLES : list string := ["imf_opts"; "envelope_opts"; "extrema_opts"].

Section Opt.
  Variable V : Type.
  Variable vfalsy : V -> bool.
  Variable inj : val -> V.

  (* a Python object as far as the plumbing can tell them apart *)
  Inductive obj := ONone | OVal (v : V) | ODict (kids : list (string * obj)).
  Definition kwargs := list (string * obj).

  Fixpoint of_tree (t : tree) : obj :=
    match t with
    | Leaf VNone => ONone
    | Leaf v => OVal (inj v)
    | Node kids => ODict (map (fun kt => match kt with (k, c) => (k, of_tree c) end) kids)
    end.

  Definition falsy (o : obj) : bool :=
    match o with ONone => true | OVal v => vfalsy v | ODict [] => true | ODict (_ :: _) => false end.
  Definition is_none (o : obj) : bool := match o with ONone => true | _ => false end.

  Fixpoint kget (k : string) (l : kwargs) : option obj :=
    match l with
    | [] => None
    | (k', v) :: r => if String.eqb k k' then Some v else kget k r
    end.
  (* d[k] = v *)
  Fixpoint kset (k : string) (v : obj) (l : kwargs) : kwargs :=
    match l with
    | [] => [(k, v)]
    | (k', w) :: r => if String.eqb k k' then (k', v) :: r else (k', w) :: kset k v r
    end.
  Definition kval (k : string) (l : kwargs) : obj := match kget k l with Some v => v | None => ONone end.
  (* **o *)
  Definition dict_kids (o : obj) : kwargs := match o with ODict kids => kids | _ => [] end.
  (* {**base, **u} *)
  Definition overrides (base u : kwargs) : kwargs := fold_right (fun kv acc => kset (fst kv) (snd kv) acc) base u.

  (* ---------------------------------------------------------------- tables (from the source, via Gen_Defaults) *)
  (* parameters of fn with their defaults, X and whatever else is positional data left out *)
  Definition fn_params (fn : string) (skip : list string) : kwargs :=
    map (fun p => (p, of_tree (sig_default sig_defaults fn p))) (stage_names sig_defaults fn skip).
  Definition G_PARAMS : kwargs := fn_params "get_next_imf" ["X"].
  Definition E_PARAMS : kwargs := fn_params "interp_envelope" ["X"; "mode"].
  Definition P_PARAMS : kwargs := fn_params "get_padded_extrema" ["X"; "mode"].
  Definition own (ps : kwargs) : kwargs := filter (fun kv => negb (mem_str (fst kv) NESTED)) ps.

  (* the arguments a call f(X, **kw) binds: every parameter, given value or default *)
  Definition bind_params (ps kw : kwargs) : kwargs :=
    map (fun pd => (fst pd, match kget (fst pd) kw with Some v => v | None => snd pd end)) ps.

  (* f(X, *args): positional binding along the def line *)
  Definition pos_kw (fn : string) (args : list obj) : kwargs := combine (map fst (params sig_defaults fn)) args.

  (* value of parameter p inside fn when called with keywords kw *)
  Definition arg (fn : string) (kw : kwargs) (p : string) : obj :=
    match kget p kw with Some v => v | None => of_tree (sig_default sig_defaults fn p) end.

  (* `if not p: p = {literal}` (test true) / `if p is None: p = {literal}` (test false) at the top of fn *)
  Definition fallback (fn p : string) (given : obj) : obj :=
    match lookup fn fallbacks with
    | Some l => match lookup p l with
                | Some (by_truth, lit) => if (if by_truth then falsy given else is_none given) then of_tree lit else given
                | None => given
                end
    | None => given
    end.

  (* ---------------------------------------------------------------- stage calls *)
  Record call := { c_stage : stage; c_kw : kwargs }.

  (* what the stage works with: its own parameters (the bundles it merely hands on are judged where they
     arrive), each after the stage's own fall-back *)
  Definition effective (c : call) : kwargs :=
    map (fun kv => (fst kv, fallback (stage_fn (c_stage c)) (fst kv) (snd kv))) (own (c_kw c)).
  Definition key (c : call) : stage * kwargs := (c_stage c, effective c).

  (* get_padded_extrema(X, mode=.., **xo) *)
  Definition P_call (m : emode) (xo : kwargs) : list call := [ {| c_stage := SP m; c_kw := bind_params P_PARAMS xo |} ].

  (* interp_envelope(X, mode=.., **kw): falsy extrema_opts -> literal, then get_padded_extrema(X, mode=.., **extrema_opts) *)
  Definition E_calls (m : emode) (kw : kwargs) : list call :=
    let b := bind_params E_PARAMS kw in
    {| c_stage := SE m; c_kw := b |}
    :: P_call m (dict_kids (fallback "interp_envelope" "extrema_opts" (kval "extrema_opts" b))).

  (* get_next_imf(X, **kw): envelope_opts None -> {}, then per iteration
     interp_envelope(.., mode='upper', **envelope_opts, extrema_opts=extrema_opts) and the same for 'lower'
     (a key of envelope_opts cannot collide with the explicit keyword: Python raises TypeError, see [uopts_ok]) *)
  Definition G_calls (iters : nat) (kw : kwargs) : list call :=
    let b := bind_params G_PARAMS kw in
    let eo := dict_kids (fallback "get_next_imf" "envelope_opts" (kval "envelope_opts" b)) in
    let ekw := ("extrema_opts", kval "extrema_opts" b) :: eo in
    {| c_stage := SG; c_kw := b |} :: List.concat (repeat (E_calls Upper ekw ++ E_calls Lower ekw)%list iters).

  (* a run is a sequence of get_next_imf invocations: (sifting iterations, keywords received) *)
  Definition ginv := (nat * kwargs)%type.
  Definition expand (l : list ginv) : list call := flat_map (fun g => G_calls (fst g) (snd g)) l.

  (* ---------------------------------------------------------------- call sites *)
  Definition DATA : obj := ONone.      (* a positional data argument (signal, threshold, index): not tracked *)

  Definition kw3 (io eo xo : obj) : kwargs := [("imf_opts", io); ("envelope_opts", eo); ("extrema_opts", xo)].

  (* get_next_imf(X, envelope_opts=eo, extrema_opts=xo, **io) *)
  Definition gni_kw (io eo xo : obj) : kwargs := ("envelope_opts", eo) :: ("extrema_opts", xo) :: dict_kids io.
  (* get_next_imf(X, **io) : what get_mask_freqs and get_next_imf_mask's partial did before the repair *)
  Definition gni_kw_v0 (io : obj) : kwargs := dict_kids io.

  (* sift(X, **kw) *)
  Definition sift_entry (sh : list nat) (kw : kwargs) : list ginv :=
    let io := fallback "sift" "imf_opts" (arg "sift" kw "imf_opts") in
    map (fun n => (n, gni_kw io (arg "sift" kw "envelope_opts") (arg "sift" kw "extrema_opts"))) sh.

  (* _sift_with_noise(X, **kw): sift(ensX, .., imf_opts=imf_opts, envelope_opts=envelope_opts, extrema_opts=extrema_opts) *)
  Definition swn_entry (sh : swn_shape) (kw : kwargs) : list ginv :=
    let inner := kw3 (arg "_sift_with_noise" kw "imf_opts") (arg "_sift_with_noise" kw "envelope_opts")
                     (arg "_sift_with_noise" kw "extrema_opts") in
    (sift_entry (fst sh) inner ++ match snd sh with Some s2 => sift_entry s2 inner | None => [] end)%list.

  (* starmap(_sift_with_noise, [(X, noise_scaling, noise, noise_mode, sift_thresh, max_imfs, ii, io, eo, xo)]) *)
  Definition members (shs : list swn_shape) (io eo xo : obj) : list ginv :=
    flat_map (fun s => swn_entry s (pos_kw "_sift_with_noise" [DATA; DATA; DATA; DATA; DATA; DATA; DATA; io; eo; xo])) shs.

  Definition ensemble_entry (shs : list swn_shape) (kw : kwargs) : list ginv :=
    members shs (arg "ensemble_sift" kw "imf_opts") (arg "ensemble_sift" kw "envelope_opts")
            (arg "ensemble_sift" kw "extrema_opts").

  (* the three call sites that lost options, each in its repaired and in its original form *)
  Record sites := {
    s_noise : list (list nat) -> obj -> obj -> obj -> list ginv;   (* complete_ensemble_sift: sifts of the noise *)
    s_gmf : option nat -> obj -> obj -> obj -> list ginv;          (* mask_sift -> get_mask_freqs -> get_next_imf *)
    s_gnim : list nat -> kwargs -> list ginv                       (* get_next_imf_mask(X, z, amp, **kw) *)
  }.

  (* starmap(sift, [(noise, sift_thresh, 1, None, imf_opts, envelope_opts, extrema_opts)]) *)
  Definition noise_sifts (shs : list (list nat)) (io eo xo : obj) : list ginv :=
    flat_map (fun s => sift_entry s (pos_kw "sift" [DATA; DATA; DATA; ONone; io; eo; xo])) shs.
  (* starmap(sift, [(noise, sift_thresh, 1, imf_opts)]): the fourth parameter of sift is `verbose` *)
  Definition noise_sifts_v0 (shs : list (list nat)) (io eo xo : obj) : list ginv :=
    flat_map (fun s => sift_entry s (pos_kw "sift" [DATA; DATA; DATA; io])) shs.

  (* get_mask_freqs(X, mode, imf_opts=io, envelope_opts=eo, extrema_opts=xo):
     imf_opts None -> {}; get_next_imf(X, envelope_opts=eo, extrema_opts=xo, **imf_opts) when the mode is 'zc' / 'if' *)
  Definition mask_freqs (sh : option nat) (io eo xo : obj) : list ginv :=
    match sh with
    | Some n => [(n, gni_kw (fallback "get_mask_freqs" "imf_opts" io) eo xo)]
    | None => []
    end.
  (* get_mask_freqs(X, mode, imf_opts=io): get_next_imf(X, **imf_opts) *)
  Definition mask_freqs_v0 (sh : option nat) (io eo xo : obj) : list ginv :=
    match sh with
    | Some n => [(n, gni_kw_v0 (fallback "get_mask_freqs" "imf_opts" io))]
    | None => []
    end.

  (* get_next_imf_mask: imf_opts None -> {};
     Pool.starmap(functools.partial(get_next_imf, envelope_opts=eo, extrema_opts=xo, **imf_opts), one per phase) *)
  Definition next_imf_mask (sh : list nat) (kw : kwargs) : list ginv :=
    let io := fallback "get_next_imf_mask" "imf_opts" (arg "get_next_imf_mask" kw "imf_opts") in
    map (fun n => (n, gni_kw io (arg "get_next_imf_mask" kw "envelope_opts") (arg "get_next_imf_mask" kw "extrema_opts"))) sh.
  (* functools.partial(get_next_imf, **imf_opts) *)
  Definition next_imf_mask_v0 (sh : list nat) (kw : kwargs) : list ginv :=
    let io := fallback "get_next_imf_mask" "imf_opts" (arg "get_next_imf_mask" kw "imf_opts") in
    map (fun n => (n, gni_kw_v0 io)) sh.

  Definition repaired : sites := {| s_noise := noise_sifts; s_gmf := mask_freqs; s_gnim := next_imf_mask |}.
  Definition sites_noise_v0 : sites := {| s_noise := noise_sifts_v0; s_gmf := mask_freqs; s_gnim := next_imf_mask |}.
  Definition sites_gmf_v0 : sites := {| s_noise := noise_sifts; s_gmf := mask_freqs_v0; s_gnim := next_imf_mask |}.
  Definition sites_gnim_v0 : sites := {| s_noise := noise_sifts; s_gmf := mask_freqs; s_gnim := next_imf_mask_v0 |}.
  Definition sites_all_v0 : sites := {| s_noise := noise_sifts_v0; s_gmf := mask_freqs_v0; s_gnim := next_imf_mask_v0 |}.

  (* ---------------------------------------------------------------- delivery routes *)
  (* what the user wants: for each bundle None or a dictionary *)
  Record uopts := { u_imf : obj; u_env : obj; u_ext : obj }.

  Definition u_bundle (u : uopts) (s : stage) : obj :=
    match s with SG => u_imf u | SE _ => u_env u | SP _ => u_ext u end.

  (* variant(X, imf_opts=.., envelope_opts=.., extrema_opts=..): a bundle that is None is simply not passed *)
  Definition keyword_kw (u : uopts) : kwargs :=
    filter (fun kv => negb (is_none (snd kv))) (kw3 (u_imf u) (u_env u) (u_ext u)).

  (* cfg = get_config(name); cfg['bundle/key'] = value for every supplied option; variant(X, **cfg) *)
  Definition cfg_store (name : string) : kwargs :=
    match lookup name config_trees with Some t => dict_kids (of_tree t) | None => [] end.
  Definition cfg_set_bundle (b : string) (ub : obj) (store : kwargs) : kwargs :=
    kset b (ODict (overrides (dict_kids (kval b store)) (dict_kids ub))) store.
  Definition config_kw (name : string) (u : uopts) : kwargs :=
    cfg_set_bundle "extrema_opts" (u_ext u)
      (cfg_set_bundle "envelope_opts" (u_env u)
         (cfg_set_bundle "imf_opts" (u_imf u) (cfg_store name))).

  (* functools.partial(f, **frozen)(X, **kw) *)
  Definition partial_call {B} (f : kwargs -> B) (frozen kw : kwargs) : B := f (overrides frozen kw).

  (* get_config knows the four first-level variants; the second-layer entry points take the
     configuration of the sift they run *)
  Definition cfg_name (v : variant) : string :=
    match v with
    | VSift | VSecond => "sift"
    | VEnsemble => "ensemble_sift"
    | VComplete => "complete_ensemble_sift"
    | VMask | VMaskSecond => "mask_sift"
    end.

  Section Variants.
    Variable S : sites.

    (* complete_ensemble_sift(X, **kw): per layer the members, then the noise sifts *)
    Definition ceemd_entry (sh : list (list swn_shape * list (list nat))) (kw : kwargs) : list ginv :=
      let io := arg "complete_ensemble_sift" kw "imf_opts" in
      let eo := arg "complete_ensemble_sift" kw "envelope_opts" in
      let xo := arg "complete_ensemble_sift" kw "extrema_opts" in
      flat_map (fun layer => (members (fst layer) io eo xo ++ s_noise S (snd layer) io eo xo)%list) sh.

    (* mask_sift(X, **kw): get_mask_freqs, then per layer
       get_next_imf_mask(.., imf_opts=imf_opts, envelope_opts=envelope_opts, extrema_opts=extrema_opts) *)
    Definition mask_entry (sh : option nat * list (list nat)) (kw : kwargs) : list ginv :=
      let io := arg "mask_sift" kw "imf_opts" in
      let eo := arg "mask_sift" kw "envelope_opts" in
      let xo := arg "mask_sift" kw "extrema_opts" in
      (s_gmf S (fst sh) io eo xo ++ flat_map (fun l => s_gnim S l (kw3 io eo xo)) (snd sh))%list.

    (* sift_second_layer / mask_sift_second_layer: sift_func(IA[:, ii], **sift_args) for every column
       (max_imfs / mask_freqs are written into the copy of sift_args: no bundle is touched) *)
    Definition second_entry {A} (inner : A -> kwargs -> list ginv) (shs : list A) (sift_args : kwargs) : list ginv :=
      flat_map (fun s => inner s sift_args) shs.

    Definition entry (v : variant) (sh : shape) (kw : kwargs) : list ginv :=
      match v with
      | VSift => sift_entry (sh_sift sh) kw
      | VEnsemble => ensemble_entry (sh_ens sh) kw
      | VComplete => ceemd_entry (sh_ceemd sh) kw
      | VMask => mask_entry (sh_mask sh) kw
      | VSecond => second_entry sift_entry (sh_second sh) kw
      | VMaskSecond => second_entry (fun l => mask_entry (None, l)) (sh_msecond sh) kw   (* explicit mask_freqs array *)
      end.

    Definition ginvs (v : variant) (r : route) (sh : shape) (u : uopts) : list ginv :=
      match r with
      | RKeyword => entry v sh (keyword_kw u)
      | RConfig => entry v sh (config_kw (cfg_name v) u)
      | RPartial =>
          match v with
          | VSecond =>      (* sift_second_layer(IA, sift_func=cfg.get_func(), sift_args=None) *)
              second_entry (fun s => partial_call (sift_entry s) (config_kw "sift" u)) (sh_second sh) []
          | _ =>            (* cfg.get_func()(X);  for mask_sift_second_layer (no get_func) the dictionary frozen by hand *)
              partial_call (entry v sh) (config_kw (cfg_name v) u) []
          end
      end.

    Definition calls (v : variant) (r : route) (sh : shape) (u : uopts) : list call := expand (ginvs v r sh u).
  End Variants.

  (* ---------------------------------------------------------------- what ought to arrive *)
  (* a supplied value, else the parameter's default; get_padded_extrema then applies its own rule to the two
     np.pad dictionaries.  Nothing here depends on the variant, the route or the shape. *)
  Definition expected_for_stage (u : uopts) (s : stage) : kwargs :=
    match s with
    | SG => bind_params (own G_PARAMS) (dict_kids (u_imf u))
    | SE _ => bind_params (own E_PARAMS) (dict_kids (u_env u))
    | SP _ => map (fun kv => (fst kv, fallback "get_padded_extrema" (fst kv) (snd kv)))
                  (bind_params P_PARAMS (dict_kids (u_ext u)))
    end.

  (* get_next_imf called directly with the user's dictionaries: the pipeline assembled by hand *)
  Definition direct_calls (n : nat) (u : uopts) : list call := G_calls n (gni_kw (u_imf u) (u_env u) (u_ext u)).

  (* the guard: the calls bind at all (Python raises TypeError otherwise, and C06 is silent there) - a bundle is
     None or a dictionary whose keys are options of its stage *)
  Definition bundle_ok (allowed : list string) (o : obj) : bool :=
    match o with
    | ONone => true
    | ODict kids => forallb (fun kv => mem_str (fst kv) allowed) kids
    | OVal _ => false
    end.
  Definition G_KEYS : list string := stage_names sig_defaults "get_next_imf" IMF_SKIP.
  Definition E_KEYS : list string := stage_names sig_defaults "interp_envelope" ENV_SKIP.
  Definition P_KEYS : list string := stage_names sig_defaults "get_padded_extrema" ["X"; "mode"].
  Definition stage_keys (s : stage) : list string :=
    match s with SG => G_KEYS | SE _ => E_KEYS | SP _ => P_KEYS end.
  Definition uopts_ok (u : uopts) : bool :=
    bundle_ok G_KEYS (u_imf u) && bundle_ok E_KEYS (u_env u) && bundle_ok P_KEYS (u_ext u).

End Opt.

Arguments ONone {V}.
Arguments OVal {V} v.
Arguments ODict {V} kids.

(* ------------------------------------------------------------------ the instance the harness evaluates:
   values are Config.val (None, bool, int, float by repr, str, list, tuple), literals are themselves *)
Definition vfalsy_c (v : val) : bool := Config.falsy (Leaf v).
Definition inj_c (v : val) : val := v.

Fixpoint to_tree (o : obj val) : tree :=
  match o with
  | ONone => Leaf VNone
  | OVal v => Leaf v
  | ODict kids => Node (map (fun kt => match kt with (k, c) => (k, to_tree c) end) kids)
  end.

Definition mode_code (m : emode) : Z := match m with Upper => 0 | Lower => 1 | Combined => 2 end.
Definition stage_code (s : stage) : Z :=
  match s with SG => 1 | SE m => 2 + mode_code m | SP m => 5 + mode_code m end.

Definition enc_call (c : call val) : list Z :=
  stage_code (c_stage val c) :: enc_tree (to_tree (ODict (c_kw val c))).
Definition enc_calls (l : list (call val)) : list Z :=
  flat_map (fun c => let e := enc_call c in Z.of_nat (List.length e) :: e) l.

(* every kind of event at least once, the repeated ones twice *)
Definition unit_shape : shape :=
  {| sh_sift := [1; 2]%nat;
     sh_ens := [([1]%nat, None); ([2]%nat, Some [1]%nat)];
     sh_ceemd := [([([1]%nat, None)], [[1]%nat]); ([([1]%nat, Some [1]%nat)], [[1; 1]%nat])];
     sh_mask := (Some 1%nat, [[1; 1]%nat; [2]%nat]);
     sh_second := [[1]%nat; [1; 1]%nat];
     sh_msecond := [[[1; 1]%nat]; [[1]%nat]] |}.

Definition sites_of_code (k : Z) : sites val :=
  if (k =? 1)%Z then sites_noise_v0 val vfalsy_c inj_c
  else if (k =? 2)%Z then sites_gmf_v0 val vfalsy_c inj_c
  else if (k =? 3)%Z then sites_gnim_v0 val vfalsy_c inj_c
  else if (k =? 4)%Z then sites_all_v0 val vfalsy_c inj_c
  else repaired val vfalsy_c inj_c.

Definition mk_u (b : tree * tree * tree) : uopts val :=
  {| u_imf := of_tree val inj_c (fst (fst b)); u_env := of_tree val inj_c (snd (fst b)); u_ext := of_tree val inj_c (snd b) |}.

(* one grid case: (sites, variant, route, the three bundles as the user wrote them) *)
Definition calls_c (c : Z * variant * route * (tree * tree * tree)) : list Z :=
  let '(k, v, r, b) := c in
  enc_calls (calls val vfalsy_c inj_c (sites_of_code k) v r unit_shape (mk_u b)).

(* the same as a set of record hashes (NpLite.hashL; the harness hashes the recorded calls the same way and asks for
   [calls_c] only where the sets differ) *)
Definition calls_h (c : Z * variant * route * (tree * tree * tree)) : list Z :=
  let '(k, v, r, b) := c in
  nodup Z.eq_dec (map (fun x => hashL (enc_call x))
                      (calls val vfalsy_c inj_c (sites_of_code k) v r unit_shape (mk_u b))).
