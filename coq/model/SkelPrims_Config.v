(* Control-skeleton tie of the sift configuration object of emd/sift.py (notes/TIE_CONFIG.md, property C18):
   THE REVIEWABLE PART.  Definitions only: the values, the primitive mapping tables, the initial environments and the
   rendering of the results of model/Config.v.  Proofs: proofs/SkelFacts_Config.v; statements: props/Prop_Tie_Config.v.

   VALUES.  The carrier ("signal type") of this tie is [cval Y] (Y = the type of YAML texts, an oracle type):
     CTree t       a Python object that can sit in a configuration: an option value (Leaf) or a dict (Node)
     CSeq l        a Python list of such objects that PyYAML loaded from a top-level YAML sequence (Config.DSeq)
     CObj ty st    a SiftConfig instance: self.sift_type = ty, self.store = st.  OBJECT STATE IS A VALUE: the store
                   primitives of the translator (N11) return the NEW value of the base variable, so
                   `self.store[key] = value` is `self = <"self.store[key] =" self key value>` and the state after a
                   method is the value of "self" in the final environment.  Aliasing is not modelled.
     CText y       a YAML text (what yaml.dump returns / the content of a file)
   Key strings are native [VStr], the parts of a split key a native [VList] of [VStr], `len` and `key[0]` are the
   language's own.  Unqualified constructors (Ok, VStr, VList, ...) are PyLoop's; the model's are Config.Ok, ... *)
From Coq Require Import String List Bool Arith ZArith.
From EmdV Require Import lib.PyLoop lib.PyLoopTools gen.Gen_Skel_Config.
From EmdV Require model.Config.
Import ListNotations.
Open Scope string_scope.

Inductive cval (Y : Type) :=
| CTree (t : Config.tree)
| CSeq (l : list Config.tree)
| CObj (ty : Config.tree) (st : Config.ydoc)
| CText (y : Y).
Arguments CTree {Y} t.
Arguments CSeq {Y} l.
Arguments CObj {Y} ty st.
Arguments CText {Y} y.

(* model errors as Python exception classes *)
Definition err_name (e : Config.err) : string :=
  match e with
  | Config.EKey => "KeyError"          (* d[k] / del d[k], k missing *)
  | Config.ENotMap => "TypeError"      (* indexing something that is not a dict by a string *)
  | Config.ETooDeep => "ValueError"    (* raised by __keytransform__ *)
  | Config.EYaml => "YAMLError"        (* yaml.load raises *)
  end.

(* ---- state-passing for the ONE effect that is the result of a tied function: the file to_yaml_file writes -------
   `yaml.dump_all(objs, f, sort_keys=False)` is an expression statement whose value is dropped, and the primitives of
   lib/PyLoop.v are pure.  As in model/SkelPrims_Logger.v the standard state-passing translation is applied IN COQ to
   the generated program: an expression statement `w(args)` with w listed in [writers] becomes `$file = w($file,
   args)` (the writer returns the new content of the file); nothing else changes.  [erase_w] removes that plumbing;
   proofs/SkelFacts_Config.v checks erase_w (thread_w prog_to_yaml_file) = prog_to_yaml_file. *)
Definition mem (x : string) (l : list string) : bool := existsb (String.eqb x) l.
Section Thread.
  Variable st : string.
  Variable writers : list string.
  Fixpoint thread_w (s : stmt) : stmt :=
    match s with
    | SExpr (ECall f args kw) => if mem f writers then SAssign st (ECall f (EVar st :: args) kw) else s
    | SSeq a b => SSeq (thread_w a) (thread_w b)
    | SIf c a b => SIf c (thread_w a) (thread_w b)
    | SWhile c b => SWhile c (thread_w b)
    | SFor x it b => SFor x it (thread_w b)
    | STry b hs f => STry (thread_w b) (map (fun nh => (fst nh, thread_w (snd nh))) hs) (thread_w f)
    | _ => s
    end.
  Definition is_st (e : expr) : bool := match e with EVar x => String.eqb x st | _ => false end.
  Fixpoint erase_w (s : stmt) : stmt :=
    match s with
    | SAssign x (ECall f (a :: args) kw) =>
        if String.eqb x st && mem f writers && is_st a then SExpr (ECall f args kw) else s
    | SSeq a b => SSeq (erase_w a) (erase_w b)
    | SIf c a b => SIf c (erase_w a) (erase_w b)
    | SWhile c b => SWhile c (erase_w b)
    | SFor x it b => SFor x it (erase_w b)
    | STry b hs f => STry (erase_w b) (map (fun nh => (fst nh, erase_w (snd nh))) hs) (erase_w f)
    | _ => s
    end.
End Thread.
Definition file_var : string := "$file".
Definition file_writers : list string := ["yaml.dump_all"].
Definition tprog_to_yaml_file : stmt := Eval cbv in thread_w file_var file_writers prog_to_yaml_file.

Section Values.
  Variable Y : Type.
  Definition cv := val (cval Y).

  Definition tree_val (t : Config.tree) : cv := VSig (CTree t).
  Definition obj_val (ty : Config.tree) (st : Config.ydoc) : cv := VSig (CObj ty st).
  Definition text_val (y : Y) : cv := VSig (CText y).
  Definition doc_val (d : Config.ydoc) : cv :=
    match d with Config.DTree t => tree_val t | Config.DSeq l => VSig (CSeq l) end.
  Definition parts_val (ps : list string) : cv := VList (map (@VStr (cval Y)) ps).

  (* a model result as the result of a primitive *)
  Definition res_of {A : Type} (f : A -> cv) (r : Config.result A) : res cv :=
    match r with Config.Ok a => Ok (f a) | Config.Err e => Exc (err_name e) end.

  (* what a function body that returns a value does with a primitive-level result *)
  Definition returns (r : res cv) : outcome (cval Y) :=
    match r with Ok v => Return v | Exc x => Raise x | Bad => Stuck end.

  (* isinstance(v, list) for the values that occur *)
  Definition is_list (v : cv) : option bool :=
    match v with
    | VList _ => Some true
    | VStr _ => Some false
    | VSig (CSeq _) => Some true
    | VSig (CTree (Config.Leaf (Config.VList _))) => Some true     (* a list that is an option value *)
    | VSig (CTree _) => Some false
    | _ => None
    end.
  Definition isinstance_list : handler (cval Y) :=
    fun args kw => match args, kw with
                   | [v; c], [] => if is_opaque0 c "list"
                                   then match is_list v with Some b => Ok (VBool b) | None => Bad end
                                   else Bad
                   | _, _ => Bad end.
  Definition builtin (name : string) : handler (cval Y) :=          (* N15: a builtin read in value position *)
    fun args kw => match args, kw with [], [] => Ok (VOpaque name []) | _, _ => Bad end.

  (* ============================================================================================== *)
  (* 1. SiftConfig.__keytransform__  <->  Config.keytransform                                        *)
  (* ============================================================================================== *)
  (* what __keytransform__ returns for the parts ps: the string itself for one part, else the list *)
  Definition key_val (ps : list string) : cv :=
    match ps with [a] => VStr a | _ => parts_val ps end.
  Definition keytransform_res (key : string) : res cv := res_of key_val (Config.keytransform key).

  Definition keytransform_table : list (string * handler (cval Y)) :=
    [ ("key.split('/')",
        fun args kw => match args, kw with
                       | [VStr s], [] => Ok (parts_val (Config.split_slash s))
                       | _, _ => Bad end);
      ("len", len_handler) ].
  Definition keytransform_prims : prims (cval Y) := prims_of keytransform_table.

  Definition keytransform_names : list string := Eval cbv in assigned prog_keytransform params_keytransform.
  Definition keytransform_env0 (self : cv) (key : string) : env (cval Y) :=
    frame params_keytransform keytransform_names [self; VStr key].

  (* ============================================================================================== *)
  (* 2. __getitem__ / __setitem__ / __delitem__  <->  Config.getitem / setitem / delitem             *)
  (* ============================================================================================== *)
  (* The subscript chains are opaque forms (N7 / N11): ONE primitive per source text.  Each is mapped to the model's
     REFERENCE semantics of nested indexing with those keys (Config.nget / nset / ndel: `config[k1]..[kn]`,
     `config[k1]..[kn] = v`, `del config[k1]..[kn]` on nested dicts); the theorems are against the model's
     as-written Config.getitem / setitem / delitem (one case per depth).  What the tie checks is the dispatch: the
     call of __keytransform__, the isinstance / len tests, which chain is used at which depth, what falls through. *)
  Definition key2 (k : cv) : option (string * string) :=
    match k with VList (VStr a :: VStr b :: _) => Some (a, b) | _ => None end.        (* key[0], key[1] *)
  Definition key3 (k : cv) : option (string * string * string) :=
    match k with VList (VStr a :: VStr b :: VStr c :: _) => Some (a, b, c) | _ => None end.

  Definition set_store (ty : Config.tree) (s' : Config.tree) : cv := obj_val ty (Config.DTree s').

  Definition item_table : list (string * handler (cval Y)) :=
    [ (* the method call: justified by skeleton_keytransform *)
      ("self.__keytransform__(key)",
        fun args kw => match args, kw with
                       | [VSig (CObj _ _); VStr s], [] => keytransform_res s
                       | _, _ => Bad end);
      ("list", builtin "list");
      ("isinstance", isinstance_list);
      ("len", len_handler);
      (* ---- reads ---- *)
      ("self.store", fun args kw => match args, kw with [VSig (CObj _ st)], [] => Ok (doc_val st) | _, _ => Bad end);
      (* self.store[key], key a string: the language's EIndex on a non-list *)
      ("getitem",
        fun args kw => match args, kw with
                       | [VSig (CTree s); VStr a], [] => res_of tree_val (Config.idx a s)
                       | _, _ => Bad end);
      ("self.store[key[0]][key[1]]",
        fun args kw => match args, kw with
                       | [VSig (CObj _ (Config.DTree s)); k], [] =>
                           match key2 k with
                           | Some (a, b) => res_of tree_val (Config.nget [a; b] s)
                           | None => Bad end
                       | _, _ => Bad end);
      ("self.store[key[0]][key[1]][key[2]]",
        fun args kw => match args, kw with
                       | [VSig (CObj _ (Config.DTree s)); k], [] =>
                           match key3 k with
                           | Some (a, b, c) => res_of tree_val (Config.nget [a; b; c] s)
                           | None => Bad end
                       | _, _ => Bad end);
      (* ---- stores: return the new value of self ---- *)
      ("self.store[key] =",
        fun args kw => match args, kw with
                       | [VSig (CObj ty (Config.DTree s)); VStr a; VSig (CTree v)], [] =>
                           res_of (set_store ty) (Config.nset [a] v s)
                       | _, _ => Bad end);
      ("self.store[key[0]][key[1]] =",
        fun args kw => match args, kw with
                       | [VSig (CObj ty (Config.DTree s)); k; VSig (CTree v)], [] =>
                           match key2 k with
                           | Some (a, b) => res_of (set_store ty) (Config.nset [a; b] v s)
                           | None => Bad end
                       | _, _ => Bad end);
      ("self.store[key[0]][key[1]][key[2]] =",
        fun args kw => match args, kw with
                       | [VSig (CObj ty (Config.DTree s)); k; VSig (CTree v)], [] =>
                           match key3 k with
                           | Some (a, b, c) => res_of (set_store ty) (Config.nset [a; b; c] v s)
                           | None => Bad end
                       | _, _ => Bad end);
      (* ---- deletes: return the new value of self ---- *)
      ("del self.store[key]",
        fun args kw => match args, kw with
                       | [VSig (CObj ty (Config.DTree s)); VStr a], [] => res_of (set_store ty) (Config.ndel [a] s)
                       | _, _ => Bad end);
      ("del self.store[key[0]][key[1]]",
        fun args kw => match args, kw with
                       | [VSig (CObj ty (Config.DTree s)); k], [] =>
                           match key2 k with
                           | Some (a, b) => res_of (set_store ty) (Config.ndel [a; b] s)
                           | None => Bad end
                       | _, _ => Bad end);
      ("del self.store[key[0]][key[1]][key[2]]",
        fun args kw => match args, kw with
                       | [VSig (CObj ty (Config.DTree s)); k], [] =>
                           match key3 k with
                           | Some (a, b, c) => res_of (set_store ty) (Config.ndel [a; b; c] s)
                           | None => Bad end
                       | _, _ => Bad end) ].
  Definition item_prims : prims (cval Y) := prims_of item_table.

  (* frames: self = a SiftConfig of type ty whose store is the dict tree s; key = a string; value = an object *)
  Definition getitem_names : list string := Eval cbv in assigned prog_getitem params_getitem.
  Definition getitem_env0 (ty s : Config.tree) (key : string) : env (cval Y) :=
    frame params_getitem getitem_names [set_store ty s; VStr key].
  Definition setitem_names : list string := Eval cbv in assigned prog_setitem params_setitem.
  Definition setitem_env0 (ty s : Config.tree) (key : string) (v : Config.tree) : env (cval Y) :=
    frame params_setitem setitem_names [set_store ty s; VStr key; tree_val v].
  Definition delitem_names : list string := Eval cbv in assigned prog_delitem params_delitem.
  Definition delitem_env0 (ty s : Config.tree) (key : string) : env (cval Y) :=
    frame params_delitem delitem_names [set_store ty s; VStr key].

  (* __getitem__ returns the entry or raises *)
  Definition getitem_render (r : Config.result Config.tree) : outcome (cval Y) := returns (res_of tree_val r).

  (* __setitem__ / __delitem__ fall off their end (return None) with self holding the new store - the local `key`
     holds what __keytransform__ returned - or raise, in which case nothing was assigned *)
  Definition key_after (key : string) : cv :=
    match Config.keytransform key with Config.Ok ps => key_val ps | Config.Err _ => VStr key end.
  Definition setitem_render (ty : Config.tree) (key : string) (v : Config.tree) (r : Config.result Config.tree)
    : outcome (cval Y) :=
    match r with
    | Config.Ok s' => Normal (frame params_setitem setitem_names [set_store ty s'; key_after key; tree_val v])
    | Config.Err e => Raise (err_name e)
    end.
  Definition delitem_render (ty : Config.tree) (key : string) (r : Config.result Config.tree)
    : outcome (cval Y) :=
    match r with
    | Config.Ok s' => Normal (frame params_delitem delitem_names [set_store ty s'; key_after key])
    | Config.Err e => Raise (err_name e)
    end.

  (* ============================================================================================== *)
  (* 3. _array_or_tuple_to_list  <->  Config.listify                                                  *)
  (* ============================================================================================== *)
  (* isinstance(val, np.ndarray / dict / tuple) on an object of a configuration *)
  Definition is_kind (t : Config.tree) (c : cv) : option bool :=
    if is_opaque0 c "np.ndarray" then Some (match t with Config.Leaf (Config.VArr _) => true | _ => false end)
    else if is_opaque0 c "dict" then Some (match t with Config.Node _ => true | _ => false end)
    else if is_opaque0 c "tuple" then Some (match t with Config.Leaf (Config.VTuple _) => true | _ => false end)
    else None.
  (* the (key, value) pairs of conf.items(), in insertion order *)
  Definition item_val (kt : string * Config.tree) : cv := VList [VStr (fst kt); tree_val (snd kt)].

  Definition listify_table : list (string * handler (cval Y)) :=
    [ ("{}", fun args kw => match args, kw with [], [] => Ok (tree_val (Config.Node [])) | _, _ => Bad end);
      ("conf.items()",
        fun args kw => match args, kw with
                       | [VSig (CTree (Config.Node kids))], [] => Ok (VList (map item_val kids))
                       | [VSig (CTree (Config.Leaf _))], [] => Exc "AttributeError"
                       | _, _ => Bad end);
      ("np.ndarray", builtin "np.ndarray");
      ("dict", builtin "dict");
      ("tuple", builtin "tuple");
      ("isinstance",
        fun args kw => match args, kw with
                       | [VSig (CTree t); c], [] => match is_kind t c with Some b => Ok (VBool b) | None => Bad end
                       | _, _ => Bad end);
      (* ndarray.tolist(): deep *)
      ("val.tolist()",
        fun args kw => match args, kw with
                       | [VSig (CTree (Config.Leaf (Config.VArr l)))], [] =>
                           Ok (tree_val (Config.Leaf (Config.tolist (Config.VArr l))))
                       | _, _ => Bad end);
      (* list(a tuple): one level *)
      ("list",
        fun args kw => match args, kw with
                       | [VSig (CTree (Config.Leaf (Config.VTuple l)))], [] =>
                           Ok (tree_val (Config.Leaf (Config.VList l)))
                       | _, _ => Bad end);
      (* THE RECURSIVE CALL on a nested dict: the function itself, one level down (what skeleton_listify proves
         of the body, used as the induction hypothesis) *)
      ("_array_or_tuple_to_list",
        fun args kw => match args, kw with
                       | [VSig (CTree (Config.Node g))], [] => Ok (tree_val (Config.listify (Config.Node g)))
                       | _, _ => Bad end);
      (* out[key] = v on the dict being built: returns the new dict *)
      ("out[key] =",
        fun args kw => match args, kw with
                       | [VSig (CTree (Config.Node o)); VStr k; VSig (CTree v)], [] =>
                           Ok (tree_val (Config.Node (Config.aset k v o)))
                       | _, _ => Bad end) ].
  Definition listify_prims : prims (cval Y) := prims_of listify_table.

  Definition listify_names : list string :=
    Eval cbv in assigned prog_array_or_tuple_to_list params_array_or_tuple_to_list.
  Definition listify_env0 (conf : Config.tree) : env (cval Y) :=
    frame params_array_or_tuple_to_list listify_names [tree_val conf].

  (* ============================================================================================== *)
  (* 4. the YAML routes  <->  Config.yamlsafe / to_yaml_text / to_yaml_file / from_yaml_file / from_yaml_stream *)
  (* ============================================================================================== *)
  Variable dump : Config.ydoc -> Y.                  (* yaml.dump(obj, sort_keys=False) *)
  Variable dump_all : list Config.ydoc -> Y.         (* yaml.dump_all(objs, f, sort_keys=False): what f receives *)
  Variable load : Y -> option Config.ydoc.           (* yaml.load(text, Loader=FullLoader); None = it raises *)
  Variable load_all : Y -> list Config.ydoc.         (* list(yaml.load_all(f, Loader=FullLoader)) *)

  (* Python values back to the model's objects *)
  Fixpoint untree (l : list cv) : option (list Config.tree) :=
    match l with
    | [] => Some []
    | VSig (CTree t) :: r => match untree r with Some ts => Some (t :: ts) | None => None end
    | _ => None
    end.
  Definition doc_of_val (v : cv) : option Config.ydoc :=
    match v with
    | VSig (CTree t) => Some (Config.DTree t)
    | VSig (CSeq l) => Some (Config.DSeq l)
    | VList l => match untree l with Some ts => Some (Config.DSeq ts) | None => None end   (* a list display *)
    | _ => None
    end.
  Definition tree_of_val (v : cv) : option Config.tree :=
    match v with
    | VSig (CTree t) => Some t
    | VStr s => Some (Config.Leaf (Config.VStr s))                                    (* a string literal *)
    | _ => None
    end.

  (* {'sift_type': self.sift_type} *)
  Definition type_dict (ty : Config.tree) : Config.tree := Config.Node [("sift_type", ty)].
  (* what _get_yamlsafe_dict returns for self = CObj ty st (conf.items() needs a dict) *)
  Definition yamlsafe_res (ty : Config.tree) (st : Config.ydoc) : res cv :=
    match st with
    | Config.DTree (Config.Node kids) =>
        Ok (VList [tree_val (type_dict ty); tree_val (Config.listify (Config.Node kids))])
    | _ => Exc "AttributeError"
    end.
  (* the SiftConfig instance a model configuration is *)
  Definition config_val (c : Config.config) : cv :=
    obj_val (Config.Leaf (Config.VStr (Config.ctype c))) (Config.DTree (Config.cstore c)).
  (* SiftConfig(): name = 'sift', empty store *)
  Definition fresh_config : cv := obj_val (Config.Leaf (Config.VStr Config.DEFAULT_NAME)) (Config.DTree (Config.Node [])).

  (* cfg[0]['sift_type'], cfg the list of the loaded documents (file route) or the one loaded document (text route) *)
  Definition first_type (cfg : cv) : res cv :=
    match cfg with
    | VList [] => Exc "IndexError"
    | VList (VSig (CTree d0) :: _) => res_of tree_val (Config.idx "sift_type" d0)
    | VList (VSig (CSeq _) :: _) => Exc "TypeError"                         (* a list indexed by a string *)
    | VSig (CSeq []) => Exc "IndexError"
    | VSig (CSeq (d0 :: _)) => res_of tree_val (Config.idx "sift_type" d0)
    | VSig (CTree (Config.Leaf (Config.VList []))) => Exc "IndexError"
    | VSig (CTree (Config.Leaf (Config.VList (_ :: _)))) => Exc "TypeError" (* an option value indexed by a string *)
    | _ => Bad
    end.

  Variable content : Y.                              (* the text of the file fname (from_yaml_file) *)

  Definition yaml_table : list (string * handler (cval Y)) :=
    [ (* ---- _get_yamlsafe_dict ---- *)
      ("self.store.copy()",                          (* a shallow copy is the same value *)
        fun args kw => match args, kw with [VSig (CObj _ st)], [] => Ok (doc_val st) | _, _ => Bad end);
      ("_array_or_tuple_to_list",                    (* justified by skeleton_listify *)
        fun args kw => match args, kw with
                       | [VSig (CTree (Config.Node kids))], [] => Ok (tree_val (Config.listify (Config.Node kids)))
                       | [VSig (CTree (Config.Leaf _))], [] => Exc "AttributeError"
                       | [VSig (CSeq _)], [] => Exc "AttributeError"
                       | _, _ => Bad end);
      ("{'sift_type': self.sift_type}",
        fun args kw => match args, kw with [VSig (CObj ty _)], [] => Ok (tree_val (type_dict ty)) | _, _ => Bad end);
      (* ---- to_yaml_text / to_yaml_file ---- *)
      ("self._get_yamlsafe_dict()",                  (* justified by skeleton_get_yamlsafe_dict *)
        fun args kw => match args, kw with [VSig (CObj ty st)], [] => yamlsafe_res ty st | _, _ => Bad end);
      ("yaml.dump",
        fun args kw => match args, kw with
                       | [v], [(k, VBool false)] =>
                           if String.eqb k "sort_keys"
                           then match doc_of_val v with Some d => Ok (text_val (dump d)) | None => Bad end
                           else Bad
                       | _, _ => Bad end);
      (* WRITER (threaded): receives the old content of the file first, returns the new one *)
      ("yaml.dump_all",
        fun args kw => match args, kw with
                       | [_; VList l; fh], [(k, VBool false)] =>
                           if String.eqb k "sort_keys" && is_opaque0 fh "wfile"
                           then match untree l with
                                | Some ts => Ok (text_val (dump_all (map Config.DTree ts)))
                                | None => Bad end
                           else Bad
                       | _, _ => Bad end);
      (* ---- from_yaml_file / from_yaml_stream ---- *)
      ("cls", fun args kw => match args, kw with [], [] => Ok fresh_config | _, _ => Bad end);
      ("open",                                       (* a file opened for reading is its text *)
        fun args kw => match args, kw with
                       | [fname; VStr m], [] =>
                           if is_opaque0 fname "fname" && String.eqb m "r" then Ok (text_val content)
                           else if is_opaque0 fname "fname" && String.eqb m "w" then Ok (VOpaque "wfile" [])
                           else Bad                  (* ... for writing, a handle *)
                       | _, _ => Bad end);
      ("[d for d in yaml.load_all(f, Loader=yaml.FullLoader)]",
        fun args kw => match args, kw with
                       | [VSig (CText y)], [] => Ok (VList (map doc_val (load_all y)))
                       | _, _ => Bad end);
      ("yaml.FullLoader", builtin "yaml.FullLoader");
      ("yaml.load",
        fun args kw => match args, kw with
                       | [VSig (CText y)], [(k, l)] =>
                           if String.eqb k "Loader" && is_opaque0 l "yaml.FullLoader"
                           then match load y with Some d => Ok (doc_val d) | None => Exc (err_name Config.EYaml) end
                           else Bad
                       | _, _ => Bad end);
      ("list", builtin "list");
      ("isinstance", isinstance_list);
      ("len", len_handler);
      ("cfg[0]['sift_type']", fun args kw => match args, kw with [cfg], [] => first_type cfg | _, _ => Bad end);
      (* cfg[1] of the one loaded document *)
      ("getitem",
        fun args kw => match args, kw with
                       | [VSig (CSeq l); VNat i], [] =>
                           match nth_error l i with Some t => Ok (tree_val t) | None => Exc "IndexError" end
                       | _, _ => Bad end);
      (* attribute stores: return the new value of ret *)
      ("ret.sift_type =",
        fun args kw => match args, kw with
                       | [VSig (CObj _ st); v], [] =>
                           match tree_of_val v with Some ty => Ok (obj_val ty st) | None => Bad end
                       | _, _ => Bad end);
      ("ret.store =",
        fun args kw => match args, kw with
                       | [VSig (CObj ty _); v], [] =>
                           match doc_of_val v with Some d => Ok (obj_val ty d) | None => Bad end
                       | _, _ => Bad end) ].
  Definition yaml_prims : prims (cval Y) := prims_of yaml_table.

  Definition yamlsafe_names : list string := Eval cbv in assigned prog_get_yamlsafe_dict params_get_yamlsafe_dict.
  Definition yamlsafe_env0 (ty : Config.tree) (st : Config.ydoc) : env (cval Y) :=
    frame params_get_yamlsafe_dict yamlsafe_names [obj_val ty st].
  Definition to_text_names : list string := Eval cbv in assigned prog_to_yaml_text params_to_yaml_text.
  Definition to_text_env0 (c : Config.config) : env (cval Y) :=
    frame params_to_yaml_text to_text_names [config_val c].
  (* to_yaml_file: the frame starts with the state variable (the file's previous content: anything) *)
  Definition to_file_entry : list string := file_var :: params_to_yaml_file.
  Definition to_file_names : list string := Eval cbv in assigned tprog_to_yaml_file to_file_entry.
  Definition to_file_env0 (old : cv) (c : Config.config) : env (cval Y) :=
    frame to_file_entry to_file_names [old; config_val c; VOpaque "fname" []].
  (* it falls off its end (returns None); the file holds the text, f is the handle *)
  Definition to_file_render (c : Config.config) (text : Y) : outcome (cval Y) :=
    Normal (env_of to_file_names
              (overlay [ (file_var, text_val text); ("self", config_val c); ("fname", VOpaque "fname" []);
                         ("f", VOpaque "wfile" []) ] (fun _ => None))).
  Definition from_file_names : list string := Eval cbv in assigned prog_from_yaml_file params_from_yaml_file.
  Definition from_file_env0 (cls : cv) : env (cval Y) :=
    frame params_from_yaml_file from_file_names [cls; VOpaque "fname" []].
  Definition from_stream_names : list string := Eval cbv in assigned prog_from_yaml_stream params_from_yaml_stream.
  Definition from_stream_env0 (cls : cv) (text : Y) : env (cval Y) :=
    frame params_from_yaml_stream from_stream_names [cls; text_val text].

  (* how a result of Config.from_yaml_file / from_yaml_stream shows: the new SiftConfig is returned, or an exception.
     The model has ONE error for "this text is not a saved configuration" (EYaml): yaml.load raising (YAMLError) and
     cfg[0] / cfg[1] missing (IndexError) are both that. *)
  Definition exn_is (e : Config.err) (x : string) : Prop :=
    match e with
    | Config.EYaml => x = "YAMLError" \/ x = "IndexError"
    | _ => x = err_name e
    end.
  Definition agrees_loaded (o : outcome (cval Y)) (r : Config.result Config.loaded) : Prop :=
    match o, r with
    | Return v, Config.Ok (ty, d) => v = obj_val ty d
    | Raise x, Config.Err e => exn_is e x
    | _, _ => False
    end.

  (* the two shapes of a loaded document on which the code and Config.from_yaml_stream part ways (see the theorems
     stream_list_leaf / stream_short_pair): a top-level sequence that is not a sequence of dicts - the harness maps
     it to DTree (Leaf (VList _)) - and a one-element sequence whose element has no 'sift_type' *)
  Definition stream_regular (d : option Config.ydoc) : bool :=
    match d with
    | Some (Config.DTree (Config.Leaf (Config.VList _))) => false
    | Some (Config.DSeq [d0]) => match Config.idx "sift_type" d0 with Config.Ok _ => true | Config.Err _ => false end
    | _ => true
    end.

  (* ============================================================================================== *)
  (* 5. get_func: functools.partial(<the module's function named self.sift_type>, X, **self.store)         *)
  (* ============================================================================================== *)
  (* model/Config.v has no counterpart: the theorem only says WHICH function is looked up and WHAT is splatted *)
  Definition func_table : list (string * handler (cval Y)) :=
    [ ("sys.modules", builtin "sys.modules");
      ("__name__", builtin "__name__");
      ("getitem",
        fun args kw => match args, kw with
                       | [m; n], [] => if is_opaque0 m "sys.modules" && is_opaque0 n "__name__"
                                       then Ok (VOpaque "emd.sift" []) else Bad
                       | _, _ => Bad end);
      ("self.sift_type", fun args kw => match args, kw with [VSig (CObj ty _)], [] => Ok (tree_val ty) | _, _ => Bad end);
      ("getattr",
        fun args kw => match args, kw with
                       | [m; name], [] => if is_opaque0 m "emd.sift" then Ok (VOpaque "function" [name]) else Bad
                       | _, _ => Bad end);
      ("self.store", fun args kw => match args, kw with [VSig (CObj _ st)], [] => Ok (doc_val st) | _, _ => Bad end);
      ("functools.partial",
        fun args kw => match args, kw with
                       | [fn], [(k, opts)] => if String.eqb k "**" then Ok (VOpaque "partial" [fn; opts]) else Bad
                       | _, _ => Bad end) ].
  Definition func_prims : prims (cval Y) := prims_of func_table.
  Definition func_names : list string := Eval cbv in assigned prog_get_func params_get_func.
  Definition func_env0 (ty : Config.tree) (st : Config.ydoc) : env (cval Y) :=
    frame params_get_func func_names [obj_val ty st].
  Definition func_render (ty : Config.tree) (st : Config.ydoc) : outcome (cval Y) :=
    Return (VOpaque "partial" [VOpaque "function" [tree_val ty]; doc_val st]).
End Values.
