(* interp_envelope (emd/sift.py 1369-1435) over the padded extrema of model/Extrema.v, with the
   interpolant itself (FITPACK splrep/splev, PCHIP) as an ORACLE: [interp locs mags t] is the value at
   time t of the selected interpolant through the knots (locs, mags).  Definitions only; lemmas in
   proofs/EnvelopeFacts.v.  Also the concrete envelope pair used by get_next_imf (upper, lower), which
   instantiates the abstract [envs] oracle of model/SiftCore.v. *)
From Coq Require Import ZArith List Bool Lia.
From EmdV Require Import lib.NpLite model.Extrema model.SiftCore.
Import ListNotations.
Open Scope Z_scope.

Section Envelope.
  Variable A : Type.                                   (* envelope values (reals in the code) *)
  Variable inj : Z -> A.                               (* a sample value as an envelope value *)
  Variable interp : list Z -> list Z -> Z -> A.        (* the interpolant through (locs, mags), evaluated at t *)

  (* interp_envelope: None when there are fewer than two extrema of the requested kind (or the grid does not
     have N points: ValueError); otherwise the interpolant evaluated at the sample grid *)
  Definition envelope (x : list Z) (p : nat) (m : emode) : option (list A) :=
    match get_padded_extrema x p m with
    | Padded L M =>
        match env_grid L (Z.of_nat (length x)) with
        | Some g => Some (map (interp L M) g)
        | None => None
        end
    | _ => None
    end.

  (* get_next_imf lines 135-145: both envelopes, None as soon as either is None *)
  Definition envelope_pair (p : nat) (x : list Z) : option (list A * list A) :=
    match envelope x p Peaks, envelope x p Troughs with
    | Some u, Some l => Some (u, l)
    | _, _ => None
    end.
End Envelope.
