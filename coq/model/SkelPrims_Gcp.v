(* Control-skeleton tie "gcp" (notes/TIE_GCP.md): emd/cycles.py get_control_points, whole body.
   THE REVIEWABLE PART: the value universe, the oracles, the list-level model, the primitive mapping table, the
   initial environment and the rendering.  Definitions only; the proofs are in proofs/SkelFacts_Gcp.v.

   The cycle iterator (`for cind, cycle_inds in cycles`, tied in Prop_Tie_Cycgen.v) is an ORACLE that returns the
   list of (index, None | sample indices) pairs or raises; each cf_ helper (tied in Prop_Tie_Ctrl.v) is an ORACLE
   that returns an optional number.  Nothing is assumed about any oracle. *)
From Coq Require Import String List Bool Arith ZArith.
From EmdV Require Import lib.PyLoop lib.PyLoopTools gen.Gen_Skel_Gcp.
Import ListNotations.
Open Scope string_scope.

(* the `mode` argument: the two strings the code knows, and one string it does not know *)
Inductive gmode := GCycle | GAug | GOther.
Definition gmode_str (m : gmode) : string :=
  match m with GCycle => "cycle" | GAug => "augmented" | GOther => "some other mode" end.
Definition is_aug (m : gmode) : bool := match m with GAug => true | _ => false end.

(* an oracle that may raise *)
Inductive eres (T : Type) := EOk (t : T) | ERaise (x : string).
Arguments EOk {T}. Arguments ERaise {T}.

(* what the iterator yields: (cind, cycle_inds), cycle_inds = None or the sample indices of the cycle *)
Definition item := (nat * option (list nat))%type.

Section Universe.
  Variable A : Type.       (* float arrays: x and the cycles cut out of it *)
  Variable N : Type.       (* the numbers the cf_ helpers return (numpy ints or floats) *)

  (* a cell of the table of control points *)
  Inductive cell := KNone | KNan | KInt (z : Z) | KNum (n : N).
  Definition none_to_nan (c : cell) : cell := match c with KNone => KNan | _ => c end.
  Definition is_none (c : cell) : bool := match c with KNone => true | _ => false end.

  (* the signal type of the interpreter *)
  Inductive gval :=
  | GArr (a : A)                              (* a float array *)
  | GIdx (l : list nat)                       (* an index array (cycle_inds) *)
  | GNum (n : N)                              (* what a cf_ helper returns when it is not None *)
  | GList (rows : list (list cell))           (* the Python list of tuples `ctrl` *)
  | GTab (rows : list (list cell))            (* np.array(ctrl) *)
  | GMask (rows : list (list bool)).          (* ctrl == None *)
End Universe.
Arguments KNone {N}. Arguments KNan {N}. Arguments KInt {N}. Arguments KNum {N}.
Arguments GArr {A N}. Arguments GIdx {A N}. Arguments GNum {A N}. Arguments GList {A N}. Arguments GTab {A N}.
Arguments GMask {A N}.
Arguments none_to_nan {N}. Arguments is_none {N}.

Section GcpPrims.
  Variable A N : Type.
  Local Notation V := (gval A N).

  (* ---- the oracles (ANY functions) ---- *)
  Variable is_ndarray : bool.                        (* isinstance(cycles, np.ndarray) on the `cycles` argument *)
  Variable ens_x : A -> eres A.                      (* ensure_vector([x], ['x'], 'get_control_points') *)
  Variable ens_cycles : eres unit.                   (* _ensure_cycle_inputs(cycles): a Cycles object, or it raises *)
  Variable nsamples : nat.                           (* cycles.nsamples of that object *)
  Variable alen : A -> nat.                          (* x.shape[0], len(cycle) *)
  Variable yielded : bool -> eres (list item).       (* iterating the object; the argument says whether
                                                        `cycles.mode = 'augmented'` was stored into it before *)
  Variable gather : A -> list nat -> A.              (* x[cycle_inds] *)
  Variable cf_asc cf_pk cf_desc cf_tr : bool -> A -> option N.
                                                     (* cf_ascending_zero_sample(cycle, interp=b), cf_peak_sample,
                                                        cf_descending_zero_sample, cf_trough_sample *)

  (* ---- the model ---- *)
  Definition opt_cell (o : option N) : cell N := match o with Some n => KNum n | None => KNone end.
  Definition ncols (m : gmode) : nat := match m with GAug => 6 | _ => 5 end.
  Definition nan_row (m : gmode) : list (cell N) := repeat KNan (ncols m).

  (* the tuple appended for a cycle with at least 5 samples, BEFORE None is replaced by nan *)
  Definition good_row (m : gmode) (interp : bool) (c : A) : list (list (cell N)) :=
    match m with
    | GCycle => [[KInt 0; opt_cell (cf_pk interp c); opt_cell (cf_desc interp c); opt_cell (cf_tr interp c);
                  KInt (Z.of_nat (alen c) - 1)]]
    | GAug => [[KInt 0; opt_cell (cf_asc interp c); opt_cell (cf_pk interp c); opt_cell (cf_desc interp c);
                opt_cell (cf_tr interp c); KInt (Z.of_nat (alen c) - 1)]]
    | GOther => []                                   (* neither `if mode == 'cycle'` nor `elif mode == 'augmented'` *)
    end.

  (* the rows (0 or 1) that one item of the iterator adds to `ctrl` *)
  Definition rows_of_item (m : gmode) (interp : bool) (xv : A) (it : item) : list (list (cell N)) :=
    match snd it with
    | None => [nan_row m]
    | Some inds => if (length inds <? 5)%nat then [nan_row m] else good_row m interp (gather xv inds)
    end.

  Definition raw_rows (m : gmode) (interp : bool) (xv : A) (its : list item) : list (list (cell N)) :=
    flat_map (rows_of_item m interp xv) its.

  (* `ctrl[ctrl == None] = np.nan` *)
  Definition final_rows (rows : list (list (cell N))) : list (list (cell N)) := map (map none_to_nan) rows.

  (* ---- the same rows, item by item (proved equal in proofs/SkelFacts_Gcp.v: gcp_rows_known_mode / _other_mode) ---- *)
  Definition nan_opt (o : option N) : cell N := match o with Some n => KNum n | None => KNan end.
  (* the row of a cycle with at least 5 samples, after None -> nan; aug = the `augmented` layout *)
  Definition full_row (aug : bool) (interp : bool) (c : A) : list (cell N) :=
    if aug then [KInt 0; nan_opt (cf_asc interp c); nan_opt (cf_pk interp c); nan_opt (cf_desc interp c);
                 nan_opt (cf_tr interp c); KInt (Z.of_nat (alen c) - 1)]
    else [KInt 0; nan_opt (cf_pk interp c); nan_opt (cf_desc interp c); nan_opt (cf_tr interp c);
          KInt (Z.of_nat (alen c) - 1)].
  (* an item that gets a row of nans: cycle_inds is None or has fewer than 5 samples *)
  Definition bad_item (it : item) : bool :=
    match snd it with None => true | Some inds => (length inds <? 5)%nat end.
  Definition the_row (aug : bool) (interp : bool) (xv : A) (it : item) : list (cell N) :=
    if bad_item it then repeat KNan (if aug then 6 else 5)
    else match snd it with Some inds => full_row aug interp (gather xv inds) | None => [] end.

  Inductive gresult := GTable (rows : list (list (cell N))) | GRaises (x : string).

  Definition gcp_model (x : A) (m : gmode) (interp : bool) : gresult :=
    if is_ndarray && is_aug m then GRaises "ValueError" else
    match ens_x x with
    | ERaise e => GRaises e
    | EOk xv =>
        match ens_cycles with
        | ERaise e => GRaises e
        | EOk _ =>
            if negb (nsamples =? alen xv)%nat then GRaises "ValueError" else
            match yielded (is_aug m) with
            | ERaise e => GRaises e
            | EOk its => GTable (final_rows (raw_rows m interp xv its))
            end
        end
    end.

  (* ---- how the values show at the Python level ---- *)
  Definition opt_val (o : option N) : val V := match o with Some n => VSig (GNum n) | None => VNone end.
  Definition val_cell (v : val V) : option (cell N) :=
    match v with VNone => Some KNone | VSig (GNum n) => Some (KNum n) | _ => None end.
  Definition item_val (it : item) : val V :=
    VList [VNat (fst it); match snd it with Some l => VSig (GIdx l) | None => VNone end].
  Definition cycles_obj (aug_stored : bool) : val V := VOpaque "Cycles" [VBool aug_stored].

  Definition cf_handler (cf : bool -> A -> option N) : handler V :=
    fun args kw => match args, kw with
                   | [VSig (GArr c)], [(k, VBool b)] => if String.eqb k "interp" then Ok (opt_val (cf b c)) else Bad
                   | _, _ => Bad
                   end.
  Definition nan_append (k : nat) : handler V :=
    fun args kw => match args, kw with
                   | [VSig (GList rows)], [] => Ok (VSig (GList (rows ++ [repeat KNan k])))
                   | _, _ => Bad
                   end.

  (* ---- the primitive mapping table: one row per primitive name AS EMITTED in gen/Gen_Skel_Gcp.v ---- *)
  Definition gcp_table : list (string * handler V) :=
    [ ("np.ndarray", fun args kw => match args, kw with [], [] => Ok (VOpaque "np.ndarray" []) | _, _ => Bad end);
      ("isinstance", fun args kw => match args, kw with
                                    | [c; t], [] => if is_opaque0 c "cycles_arg" && is_opaque0 t "np.ndarray"
                                                    then Ok (VBool is_ndarray) else Bad
                                    | _, _ => Bad end);
      ("ensure_vector", fun args kw => match args, kw with
                                       | [VList [VSig (GArr x)]; VList [VStr _]; VStr _], [] =>
                                           match ens_x x with EOk xv => Ok (VSig (GArr xv)) | ERaise e => Exc e end
                                       | _, _ => Bad end);
      ("_ensure_cycle_inputs", fun args kw => match args, kw with
                                              | [c], [] => if is_opaque0 c "cycles_arg" then
                                                             match ens_cycles with
                                                             | EOk _ => Ok (cycles_obj false)
                                                             | ERaise e => Exc e
                                                             end
                                                           else Bad
                                              | _, _ => Bad end);
      (* N11 store: returns the new value of `cycles` *)
      ("cycles.mode =", fun args kw => match args, kw with
                                       | [VOpaque t [VBool _]; VStr s], [] =>
                                           if String.eqb t "Cycles" && String.eqb s "augmented"
                                           then Ok (cycles_obj true) else Bad
                                       | _, _ => Bad end);
      ("cycles.nsamples", fun args kw => match args, kw with
                                         | [VOpaque t [VBool _]], [] =>
                                             if String.eqb t "Cycles" then Ok (VNat nsamples) else Bad
                                         | _, _ => Bad end);
      ("x.shape", fun args kw => match args, kw with
                                 | [VSig (GArr xv)], [] => Ok (VList [VNat (alen xv)])
                                 | _, _ => Bad end);
      ("list", fun args kw => match args, kw with [], [] => Ok (VSig (GList [])) | _, _ => Bad end);
      (* the cycle iterator: `for cind, cycle_inds in cycles` *)
      ("iter", fun args kw => match args, kw with
                              | [VOpaque t [VBool b]], [] =>
                                  if String.eqb t "Cycles" then
                                    match yielded b with
                                    | EOk its => Ok (VList (map item_val its))
                                    | ERaise e => Exc e
                                    end
                                  else Bad
                              | _, _ => Bad end);
      ("len", fun args kw => match args, kw with [VSig (GIdx l)], [] => Ok (VNat (length l)) | _, _ => Bad end);
      ("getitem", fun args kw => match args, kw with
                                 | [VSig (GArr xv); VSig (GIdx l)], [] => Ok (VSig (GArr (gather xv l)))
                                 | _, _ => Bad end);
      ("cf_ascending_zero_sample", cf_handler cf_asc);
      ("cf_peak_sample", cf_handler cf_pk);
      ("cf_descending_zero_sample", cf_handler cf_desc);
      ("cf_trough_sample", cf_handler cf_tr);
      (* N17 stores: return `ctrl` AFTER the append *)
      ("ctrl.append((np.nan, np.nan, np.nan, np.nan, np.nan, np.nan))", nan_append 6);
      ("ctrl.append((np.nan, np.nan, np.nan, np.nan, np.nan))", nan_append 5);
      ("ctrl.append((0, pk, desc, tr, len(cycle) - 1))",
        fun args kw => match args, kw with
                       | [VSig (GList rows); pk; desc; tr; VSig (GArr c)], [] =>
                           match val_cell pk, val_cell desc, val_cell tr with
                           | Some a, Some b, Some d =>
                               Ok (VSig (GList (rows ++ [[KInt 0; a; b; d; KInt (Z.of_nat (alen c) - 1)]])))
                           | _, _, _ => Bad
                           end
                       | _, _ => Bad end);
      ("ctrl.append((0, asc, pk, desc, tr, len(cycle) - 1))",
        fun args kw => match args, kw with
                       | [VSig (GList rows); asc; pk; desc; tr; VSig (GArr c)], [] =>
                           match val_cell asc, val_cell pk, val_cell desc, val_cell tr with
                           | Some z, Some a, Some b, Some d =>
                               Ok (VSig (GList (rows ++ [[KInt 0; z; a; b; d; KInt (Z.of_nat (alen c) - 1)]])))
                           | _, _, _, _ => Bad
                           end
                       | _, _ => Bad end);
      ("np.array", fun args kw => match args, kw with
                                  | [VSig (GList rows)], [] => Ok (VSig (GTab rows))
                                  | _, _ => Bad end);
      (* ctrl == None (ECmp on a non-nat, non-string pair is dispatched to the primitive "==") *)
      ("==", fun args kw => match args, kw with
                            | [VSig (GTab rows); VNone], [] => Ok (VSig (GMask (map (map is_none) rows)))
                            | _, _ => Bad end);
      ("np.any", fun args kw => match args, kw with
                                | [VSig (GMask mk)], [] => Ok (VBool (existsb (existsb (fun b => b)) mk))
                                | _, _ => Bad end);
      ("np.nan", fun args kw => match args, kw with [], [] => Ok (VOpaque "np.nan" []) | _, _ => Bad end);
      (* N11 store `ctrl[ctrl == None] = np.nan`: returns the new `ctrl` *)
      ("ctrl[ctrl == None] =", fun args kw => match args, kw with
                                              | [VSig (GTab rows); v], [] =>
                                                  if is_opaque0 v "np.nan" then Ok (VSig (GTab (map (map none_to_nan) rows)))
                                                  else Bad
                                              | _, _ => Bad end) ].
  Definition gcp_prims : prims V := prims_of gcp_table.

  (* ---- the frame and the initial environment: get_control_points(x, cycles, interp, mode) ---- *)
  Definition gcp_names : list string := Eval cbv in assigned prog_get_control_points params_get_control_points.
  Definition gcp_env0 (x : A) (m : gmode) (interp : bool) : env V :=
    frame params_get_control_points gcp_names
          [VSig (GArr x); VOpaque "cycles_arg" []; VBool interp; VStr (gmode_str m)].

  (* ---- rendering ---- *)
  Definition gcp_render (r : gresult) : outcome V :=
    match r with GTable rows => Return (VSig (GTab rows)) | GRaises x => Raise x end.
End GcpPrims.
