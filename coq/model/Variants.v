(* Column bookkeeping of the sift variants (property C03): how many components each variant
   returns and where they come from.  emd/sift.py: ensemble_sift (640-657), complete_ensemble_sift
   (723-780, as repaired), mask_sift's cap (1032-1039), sift_second_layer (1134-1147, as repaired).
   Definitions only; lemmas in proofs/VariantsFacts.v.  The per-member decompositions are oracles. *)
From Coq Require Import ZArith List Bool Lia.
From EmdV Require Import lib.NpLite model.Extrema model.SiftCore model.Toys.
Import ListNotations.

Section Variants.
  Variable V : Type.
  Variable vzero : V.
  Variable vadd vsub : V -> V -> V.

  (* ---- ensemble_sift: res = one decomposition (list of columns) per member ------------------ *)
  Variable vmean : list V -> V.                      (* np.array([...]).mean(axis=0) *)

  (* max_imfs None -> res[0].shape[1];  imfs[:, ii] = mean_r r[:, ii] for ii < max_imfs, IndexError (None)
     when a member has fewer columns *)
  Definition ensemble_collect (cap : option nat) (members : list (list V)) : option (list V) :=
    let k := match cap with Some k => k | None => length (hd [] members) end in
    if forallb (fun r => (k <=? length r)%nat) members
    then Some (map (fun ii => vmean (map (fun r => nth ii r vzero) members)) (seq 0 k))
    else None.

  (* ---- complete_ensemble_sift: the layer loop ------------------------------------------------ *)
  Variable NS : Type.                                (* the noise matrix *)
  Variable first_layer : V -> NS -> V.               (* mean over members of the first IMF of X + noise_i *)
  Variable next_layer : V -> NS -> V.                (* the same on the running residual *)
  Variable upd : NS -> NS.                           (* every noise column minus its own first IMF *)
  Variable few_peaks : V -> bool.                    (* len(_find_extrema(imf[:, -1])[0]) < 2 *)
  Variable small_mean : V -> bool.                   (* |next_imf|.mean() < sift_thresh *)

  Definition cap_is (cap : option nat) (layer : nat) : bool :=
    match cap with Some k => Nat.eqb layer k | None => false end.

  (* repaired: [layer] counts the columns present; the cap is tested after the increment *)
  Fixpoint ceemd_loop (fuel layer : nat) (cap : option nat) (X : V) (imf : list V) (ns : NS) : list V * NS * bool :=
    match fuel with
    | O => (imf, ns, true)
    | S f =>
        let nxt := next_layer (vsub X (vsum V vzero vadd imf)) ns in
        let imf' := imf ++ [nxt] in
        let ns' := upd ns in
        let layer' := S layer in
        if few_peaks nxt || cap_is cap layer' || small_mean nxt then (imf', ns', false)
        else ceemd_loop f layer' cap X imf' ns'
    end.

  Definition ceemd (fuel : nat) (cap : option nat) (X : V) (ns : NS) : list V * NS * bool :=
    let imf := [first_layer X ns] in
    let ns1 := upd ns in
    match cap with
    | Some k => if (k <=? 1)%nat then (imf, ns1, false) else ceemd_loop fuel 1 cap X imf ns1
    | None => ceemd_loop fuel 1 cap X imf ns1
    end.

  (* before the repair: the first IMF was not counted and the counter was compared before its increment *)
  Fixpoint ceemd_loop_v0 (fuel layer : nat) (cap : option nat) (X : V) (imf : list V) (ns : NS) : list V * NS * bool :=
    match fuel with
    | O => (imf, ns, true)
    | S f =>
        let nxt := next_layer (vsub X (vsum V vzero vadd imf)) ns in
        let imf' := imf ++ [nxt] in
        let ns' := upd ns in
        if few_peaks nxt || cap_is cap layer || small_mean nxt then (imf', ns', false)
        else ceemd_loop_v0 f (S layer) cap X imf' ns'
    end.
  Definition ceemd_v0 (fuel : nat) (cap : option nat) (X : V) (ns : NS) : list V * NS * bool :=
    ceemd_loop_v0 fuel 0 cap X [first_layer X ns] (upd ns).

  (* ---- sift_second_layer ------------------------------------------------------------------------ *)
  Variable sift_fn : option nat -> V -> option (list V).     (* sift_func(col, max_imfs=..); None = raised *)

  Fixpoint map_opt {A B} (f : A -> option B) (l : list A) : option (list B) :=
    match l with
    | [] => Some []
    | a :: t => match f a with
                | None => None
                | Some b => match map_opt f t with None => None | Some r => Some (b :: r) end
                end
    end.

  (* imf2[:, ii, :tmp.shape[1]] = tmp into a block of width k: broadcasting error when tmp is wider *)
  Definition place (k : nat) (tmp : list V) : option (list V) :=
    if (length tmp <=? k)%nat then Some (tmp ++ repeat vzero (k - length tmp)) else None.

  (* repaired: one block per first-level column; the inner sift is capped at the block width
     (sift_args['max_imfs'] if given, else the number of first-level columns) *)
  Definition second_layer (cap_arg : option nat) (IA : list V) : option (list (list V)) :=
    let k := match cap_arg with Some k => k | None => length IA end in
    map_opt (fun col => match sift_fn (Some k) col with None => None | Some tmp => place k tmp end) IA.

  (* before the repair: loop over range(max_imfs) indexing the first-level columns (IndexError beyond them,
     columns beyond max_imfs never processed), inner sift capped only if the caller passed max_imfs *)
  Definition second_layer_v0 (cap_arg : option nat) (IA : list V) : option (list (list V)) :=
    let k := match cap_arg with Some k => k | None => length IA end in
    match map_opt (fun ii => match nth_error IA ii with
                             | None => None
                             | Some col => match sift_fn cap_arg col with None => None | Some tmp => place k tmp end
                             end) (seq 0 k) with
    | None => None
    | Some blocks => Some (blocks ++ repeat (repeat vzero k) (length IA - k))
    end.
End Variants.

(* ---- mask_sift's effective cap (1032-1039) ------------------------------------------------------ *)
(* explicit list of n frequencies: max_imfs is reduced to n when n < max_imfs; otherwise max_imfs frequencies
   are generated.  max_imfs = None is not valid for mask_sift (default 9). *)
Definition mask_cap (max_imfs : nat) (explicit : option nat) : nat :=
  match explicit with Some n => if (n <? max_imfs)%nat then n else max_imfs | None => max_imfs end.

(* ---- executable toy instances (integer signals; compared bit for bit with the real code) ------------ *)
Open Scope Z_scope.

Definition opt_cap (z : Z) : option nat := if z =? 0 then None else Some (Z.to_nat z).

Definition toy_sift_cols (c : list Z) (cap : option nat) (X : list Z) : option (list (list Z)) :=
  let '(imfs, e) := peel_loop (list Z) (Toys.vzero (length X)) Toys.vadd Toys.vsub (small (cg c 14))
                              (fun _ _ => toy_gni c false) 60 cap X [] in
  if raised e || out_of_fuel e then None else Some imfs.

(* sum instead of mean: the harness multiplies the implementation's mean by the number of members *)
Definition vsum_cols (N : nat) (l : list (list Z)) : list Z := fold_left Toys.vadd l (Toys.vzero N).

(* ensemble_sift with zero noise amplitude: every member is sift(X, cap) *)
Definition toy_ensemble (c : list Z) (nens : nat) (X : list Z) : option (list (list Z)) :=
  let cap := opt_cap (cg c 15) in
  match toy_sift_cols c cap X with
  | None => None
  | Some r => ensemble_collect (list Z) [] (vsum_cols (length X)) cap (repeat r nens)
  end.

Definition first_col (c : list Z) (X : list Z) : list Z :=
  match toy_sift_cols c (Some 1%nat) X with Some (a :: _) => a | _ => [] end.

(* complete_ensemble_sift with zero noise amplitude and nens members (mean of identical members = the member) *)
Definition toy_ceemd (v0 : bool) (c : list Z) (X : list Z) : list (list Z) * bool :=
  let N := length X in
  let fl := fun (x : list Z) (_ : unit) => first_col c x in
  let few := fun v => (nmaxima v <? 2)%nat in
  let sm := fun v => 2 * sumabs v <? cg c 14 * Z.of_nat N in          (* mean|v| < thresh = t2/2 *)
  let r := if v0 then ceemd_v0 (list Z) (Toys.vzero N) Toys.vadd Toys.vsub unit fl fl (fun u => u) few sm 60 (opt_cap (cg c 15)) X tt
           else ceemd (list Z) (Toys.vzero N) Toys.vadd Toys.vsub unit fl fl (fun u => u) few sm 60 (opt_cap (cg c 15)) X tt in
  (fst (fst r), snd r).

Definition toy_second_layer (v0 : bool) (c : list Z) (cap_arg : option nat) (IA : list (list Z)) : option (list (list (list Z))) :=
  let N := length (hd [] IA) in
  if v0 then second_layer_v0 (list Z) (Toys.vzero N) (toy_sift_cols c) cap_arg IA
  else second_layer (list Z) (Toys.vzero N) (toy_sift_cols c) cap_arg IA.

(* ---- rendering ---------------------------------------------------------------------------------- *)
Definition render_cols (l : list (list Z)) : list Z := flat_map (fun v => v ++ [-99999]) l.
Definition render_ocols (o : option (list (list Z))) : list Z :=
  match o with None => [-1] | Some l => 0 :: render_cols l end.

Definition run_toy_cols (c : list Z) (X : list Z) : list Z := render_ocols (toy_sift_cols c (opt_cap (cg c 15)) X).
Definition run_toy_ensemble (c : list Z) (nens : Z) (X : list Z) : list Z := render_ocols (toy_ensemble c (Z.to_nat nens) X).
Definition run_toy_ceemd (c : list Z) (X : list Z) : list Z :=
  let r := toy_ceemd (cg c 16 =? 1) c X in
  if snd r then [-6] else 0 :: render_cols (fst r).
Definition run_toy_second (c : list Z) (cap_arg : Z) (IA : list (list Z)) : list Z :=
  match toy_second_layer (cg c 16 =? 1) c (opt_cap cap_arg) IA with
  | None => [-1]
  | Some blocks => 0 :: flat_map (fun b => render_cols b ++ [-99998]) blocks
  end.
Definition run_mask_cap (max_imfs : Z) (explicit : Z) : list Z :=
  [Z.of_nat (mask_cap (Z.to_nat max_imfs) (if explicit <? 0 then None else Some (Z.to_nat explicit)))].
