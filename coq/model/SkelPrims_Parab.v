(* Control-skeleton tie "Parab" (notes/TIE_PARAB.md) of emd/sift.py:
     compute_parabolic_extrema (C05), _nsamples_warn, is_imf (C05 / C06),
     SiftConfig.__iter__ / __len__ / __repr__ / __str__ (C18).
   THE REVIEWABLE PART: value universes, primitive mapping tables, initial environments, renderings and - for is_imf,
   which has no hand model elsewhere - the list-level model. Definitions only; the proofs are in
   proofs/SkelFacts_Parab.v, the statements in props/Prop_Tie_Parab.v.

   gen/Gen_Skel_Parab.v (regenerated from /repo on every run by harness/gen_skel_parab.py, translator options N16,
   N17, N18) holds the bodies as programs of lib/PyLoop.v. *)
From Coq Require Import String List Bool Arith ZArith QArith Qreduction.
From EmdV Require Import model.Extrema lib.PyLoop lib.PyLoopTools gen.Gen_Skel_Parab.
From EmdV Require model.Config.
Import ListNotations.
Open Scope string_scope.

(* ================================================================================================ *)
(* 1. compute_parabolic_extrema: the vertex formula as a composition of numpy primitives             *)
(* ================================================================================================ *)
(* With N18 every operator of
       w_inv = np.array([[.5, -1, .5], [-5/2, 4, -3/2], [3, -3, 1]]);  abc = w_inv.dot(y)
       tp = - abc[1, :] / (2*abc[0, :]);  t = tp - 2 + locs;  y_hat = tp*abc[1, :]/2 + abc[2, :]
   is its own primitive. Each gets its LITERAL numpy meaning on exact rationals with inf / nan (IEEE division by
   zero written out, no signed zero, no rounding). A finite float is a rational in CANONICAL form: every arithmetic
   primitive reduces its result with Qred (as Python's Fraction does), so that equal numbers are equal values and
   the theorems can be equalities. *)
Inductive xr := XQ (q : Q) | XPInf | XNInf | XNan.

(* the sign of a rational: Lt negative, Eq zero, Gt positive *)
Definition qsign (q : Q) : comparison := (Qnum q ?= 0)%Z.
(* x / 0 by the sign of x:  +x/0 = +inf, -x/0 = -inf, 0/0 = nan  (also: inf * x by the sign of x, inf * 0 = nan) *)
Definition xinf (s : comparison) : xr := match s with Gt => XPInf | Lt => XNInf | Eq => XNan end.

Definition xopp (x : xr) : xr :=
  match x with XQ q => XQ (Qred (- q)) | XPInf => XNInf | XNInf => XPInf | XNan => XNan end.

Definition xadd (x y : xr) : xr :=
  match x, y with
  | XNan, _ => XNan
  | _, XNan => XNan
  | XQ p, XQ q => XQ (Qred (p + q))
  | XQ _, i => i                                   (* finite + inf *)
  | i, XQ _ => i
  | XPInf, XPInf => XPInf
  | XNInf, XNInf => XNInf
  | _, _ => XNan                                   (* inf - inf *)
  end.

Definition xsub (x y : xr) : xr :=
  match x, y with
  | XQ p, XQ q => XQ (Qred (p - q))
  | _, _ => xadd x (xopp y)
  end.

Definition xmul (x y : xr) : xr :=
  match x, y with
  | XNan, _ => XNan
  | _, XNan => XNan
  | XQ p, XQ q => XQ (Qred (p * q))
  | XQ p, XPInf => xinf (qsign p)                  (* 0 * inf = nan *)
  | XPInf, XQ p => xinf (qsign p)
  | XQ p, XNInf => xinf (CompOpp (qsign p))
  | XNInf, XQ p => xinf (CompOpp (qsign p))
  | XPInf, XPInf => XPInf
  | XNInf, XNInf => XPInf
  | _, _ => XNInf
  end.

(* numpy true division of floats: x / 0 = +-inf by the sign of x, 0 / 0 = nan (a RuntimeWarning, not an exception) *)
Definition xdiv (x y : xr) : xr :=
  match x, y with
  | XNan, _ => XNan
  | _, XNan => XNan
  | XQ p, XQ q => match qsign q with Eq => xinf (qsign p) | _ => XQ (Qred (p / q)) end
  | XQ _, _ => XQ 0                                (* finite / inf *)
  | XPInf, XQ q => match qsign q with Lt => XNInf | _ => XPInf end
  | XNInf, XQ q => match qsign q with Lt => XPInf | _ => XNInf end
  | _, _ => XNan                                   (* inf / inf *)
  end.

Inductive pnum :=
| PInt (z : Z)                    (* a negative Python int literal: -1, -5, -3 (non-negative ones are VNat) *)
| PS (x : xr)                     (* a float scalar: 0.5, -5/2 *)
| PVec (l : list xr)              (* a 1-D float array: locs, abc[k, :], tp, t, y_hat *)
| PMat (rows : list (list Q))     (* a small finite 2-D array given by its rows: w_inv *)
| P3n (cols : list (Q * Q * Q)).  (* a [3 x n] finite array given by its n columns: y, abc *)

Section ParabPrims.
  Local Notation val := (val pnum).

  Definition nat_q (n : nat) : Q := inject_Z (Z.of_nat n).

  (* the operands of an elementwise binary operator: a scalar or a 1-D array *)
  Inductive operand := OS (x : xr) | OV (l : list xr).
  Definition operand_of (v : val) : option operand :=
    match v with
    | VNat n => Some (OS (XQ (nat_q n)))
    | VSig (PInt z) => Some (OS (XQ (inject_Z z)))
    | VSig (PS x) => Some (OS x)
    | VSig (PVec l) => Some (OV l)
    | _ => None
    end.

  Fixpoint zipx (f : xr -> xr -> xr) (a b : list xr) : list xr :=
    match a, b with
    | x :: ta, y :: tb => f x y :: zipx f ta tb
    | _, _ => []
    end.
  (* array (op) array of the same length; other lengths (numpy: broadcast of a length-1 array, else ValueError) are
     not modelled *)
  Definition vec_zip (f : xr -> xr -> xr) (a b : list xr) : res val :=
    if (length a =? length b)%nat then Ok (VSig (PVec (zipx f a b))) else Bad.
  (* numpy's elementwise binary operator with a scalar broadcast over an array *)
  Definition bin (f : xr -> xr -> xr) (a b : val) : res val :=
    match operand_of a, operand_of b with
    | Some (OS x), Some (OS y) => Ok (VSig (PS (f x y)))
    | Some (OV l), Some (OS y) => Ok (VSig (PVec (map (fun x => f x y) l)))
    | Some (OS x), Some (OV l) => Ok (VSig (PVec (map (fun y => f x y) l)))
    | Some (OV l), Some (OV m) => vec_zip f l m
    | _, _ => Bad
    end.

  (* the entries of a nested list display of finite scalars, for np.array *)
  Definition scalar_q (v : val) : option Q :=
    match v with
    | VNat n => Some (nat_q n)
    | VSig (PInt z) => Some (inject_Z z)
    | VSig (PS (XQ q)) => Some q
    | _ => None
    end.
  Fixpoint scalars_q (l : list val) : option (list Q) :=
    match l with
    | [] => Some []
    | v :: t => match scalar_q v, scalars_q t with Some q, Some r => Some (q :: r) | _, _ => None end
    end.
  Fixpoint rows_q (l : list val) : option (list (list Q)) :=
    match l with
    | [] => Some []
    | VList r :: t => match scalars_q r, rows_q t with Some q, Some m => Some (q :: m) | _, _ => None end
    | _ => None
    end.

  (* (3 x 3) . (3 x n): every column c of y becomes w . c *)
  Definition dot3 (r : Q * Q * Q) (c : Q * Q * Q) : Q :=
    let '(r0, r1, r2) := r in let '(y0, y1, y2) := c in (r0 * y0 + r1 * y1 + r2 * y2)%Q.
  Definition mat3_apply (r0 r1 r2 : Q * Q * Q) (c : Q * Q * Q) : Q * Q * Q := (dot3 r0 c, dot3 r1 c, dot3 r2 c).
  Definition row_k (k : nat) (c : Q * Q * Q) : Q :=
    let '(c0, c1, c2) := c in match k with 0 => c0 | 1 => c1 | _ => c2 end%nat.

  Definition cpe_table : list (string * handler pnum) :=
    [ (* literals the language has no construct for (N7): a float, negative ints *)
      ("0.5", fun args kw => match args, kw with [], [] => Ok (VSig (PS (XQ (1 # 2)))) | _, _ => Bad end);
      ("-1", fun args kw => match args, kw with [], [] => Ok (VSig (PInt (-1))) | _, _ => Bad end);
      ("-5", fun args kw => match args, kw with [], [] => Ok (VSig (PInt (-5))) | _, _ => Bad end);
      ("-3", fun args kw => match args, kw with [], [] => Ok (VSig (PInt (-3))) | _, _ => Bad end);
      (* N18 true division: Python int / int literal (a float; ZeroDivisionError), else numpy's elementwise one *)
      ("/", fun args kw => match args, kw with
                           | [VSig (PInt a); VNat b], [] =>
                               match b with
                               | O => Exc "ZeroDivisionError"
                               | S _ => Ok (VSig (PS (XQ (Qred (inject_Z a / nat_q b)))))
                               end
                           | [a; b], [] => bin xdiv a b
                           | _, _ => Bad end);
      ("*", fun args kw => match args, kw with [a; b], [] => bin xmul a b | _, _ => Bad end);
      ("-", fun args kw => match args, kw with [a; b], [] => bin xsub a b | _, _ => Bad end);
      ("+", fun args kw => match args, kw with [a; b], [] => bin xadd a b | _, _ => Bad end);
      (* np.array of a nested display of finite scalars: the 2-D array with these rows *)
      ("np.array", fun args kw => match args, kw with
                                  | [VList rows], [] => match rows_q rows with
                                                        | Some m => Ok (VSig (PMat m))
                                                        | None => Bad
                                                        end
                                  | _, _ => Bad end);
      (* the matrix product (3 x 3) . (3 x n) *)
      ("w_inv.dot(y)", fun args kw => match args, kw with
                                      | [VSig (PMat [[a; b; c]; [d; e; f]; [g; h; i]]); VSig (P3n cols)], [] =>
                                          Ok (VSig (P3n (map (mat3_apply (a, b, c) (d, e, f) (g, h, i)) cols)))
                                      | _, _ => Bad end);
      (* row k of a [3 x n] array, as a 1-D float array; unary minus of row 1 *)
      ("abc[0, :]", fun args kw => match args, kw with
                                   | [VSig (P3n cols)], [] => Ok (VSig (PVec (map (fun c => XQ (row_k 0 c)) cols)))
                                   | _, _ => Bad end);
      ("abc[1, :]", fun args kw => match args, kw with
                                   | [VSig (P3n cols)], [] => Ok (VSig (PVec (map (fun c => XQ (row_k 1 c)) cols)))
                                   | _, _ => Bad end);
      ("abc[2, :]", fun args kw => match args, kw with
                                   | [VSig (P3n cols)], [] => Ok (VSig (PVec (map (fun c => XQ (row_k 2 c)) cols)))
                                   | _, _ => Bad end);
      ("-abc[1, :]", fun args kw => match args, kw with
                                    | [VSig (P3n cols)], [] =>
                                        Ok (VSig (PVec (map (fun c => xopp (XQ (row_k 1 c))) cols)))
                                    | _, _ => Bad end) ].
  Definition cpe_prims : prims pnum := prims_of cpe_table.

  (* the input: n extrema, each with its three neighbouring samples (a column of y) and its location *)
  Definition ext := (Q * Q * Q * Q)%type.
  Definition ext_col (e : ext) : Q * Q * Q := let '(y0, y1, y2, _) := e in (y0, y1, y2).
  Definition ext_loc (e : ext) : Q := let '(_, _, _, loc) := e in loc.

  Definition cpe_names : list string :=
    Eval cbv in assigned prog_compute_parabolic_extrema params_compute_parabolic_extrema.
  Definition cpe_env0 (l : list ext) : env pnum :=
    frame params_compute_parabolic_extrema cpe_names
      [VSig (P3n (map ext_col l)); VSig (PVec (map (fun e => XQ (ext_loc e)) l))].

  (* ---- what the formula computes for one extremum ---- *)
  (* the coefficients of the parabola a x^2 + b x + c through (1, y0), (2, y1), (3, y2): the text of
     Extrema.parabolic_vertex *)
  Definition par_a (y0 y1 y2 : Q) : Q := ((1 # 2) * y0 - y1 + (1 # 2) * y2)%Q.
  Definition par_b (y0 y1 y2 : Q) : Q := (- (5 # 2) * y0 + 4 * y1 - (3 # 2) * y2)%Q.
  Definition par_c (y0 y1 y2 : Q) : Q := (3 * y0 - 3 * y1 + y2)%Q.

  (* non-degenerate parabola (a <> 0): the model's vertex, in canonical form.
     Degenerate (a = 0: the three points are on a line) the code divides by zero:
       b = 0 (y0 = y1 = y2):  tp = 0/0 = nan,           t = nan,  y_hat = nan
       b > 0 (rising line):   tp = -b/0 = -inf,         t = -inf, y_hat = -inf * b / 2 + c = -inf
       b < 0 (falling line):  tp = +inf,                t = +inf, y_hat = +inf * b / 2 + c = -inf *)
  Definition np_vertex (e : ext) : xr * xr :=
    let '(y0, y1, y2, loc) := e in
    match qsign (par_a y0 y1 y2) with
    | Eq => match qsign (par_b y0 y1 y2) with
            | Eq => (XNan, XNan)
            | Gt => (XNInf, XNInf)
            | Lt => (XPInf, XNInf)
            end
    | _ => let v := parabolic_vertex y0 y1 y2 loc in (XQ (Qred (fst v)), XQ (Qred (snd v)))
    end.

  (* compute_parabolic_extrema returns (t, y_hat), two 1-D arrays *)
  Definition cpe_render (l : list ext) : outcome pnum :=
    Return (VList [VSig (PVec (map (fun e => fst (np_vertex e)) l)); VSig (PVec (map (fun e => snd (np_vertex e)) l))]).
  (* the same stated with the model alone (used when no parabola is degenerate) *)
  Definition model_vertex (e : ext) : Q * Q := let '(y0, y1, y2, loc) := e in parabolic_vertex y0 y1 y2 loc.
  Definition cpe_render_model (l : list ext) : outcome pnum :=
    Return (VList [VSig (PVec (map (fun e => XQ (Qred (fst (model_vertex e)))) l));
                   VSig (PVec (map (fun e => XQ (Qred (snd (model_vertex e)))) l))]).
  Definition nondegenerate (e : ext) : Prop := let '(y0, y1, y2, _) := e in ~ (par_a y0 y1 y2 == 0)%Q.
End ParabPrims.

(* ================================================================================================ *)
(* 2. _nsamples_warn(N, max_imfs): which inputs warn                                                 *)
(* ================================================================================================ *)
(* The warning itself is a logger call, which the translator drops (N2) together with the evaluation of its
   arguments (np.floor(np.log2(N)).astype(int) - 1); what the program keeps is the guard: the block that builds
   the message is entered iff N < 2 ** (max_imfs + 1), and nothing happens when max_imfs is None. *)
Section WarnPrims.
  Definition nsw_table : list (string * handler unit) :=
    [ (* N18: int ** int *)
      ("**", fun args kw => match args, kw with [VNat a; VNat b], [] => Ok (VNat (a ^ b)) | _, _ => Bad end);
      (* str + str *)
      ("+", fun args kw => match args, kw with [VStr a; VStr b], [] => Ok (VStr (a ++ b)) | _, _ => Bad end) ].
  Definition nsw_prims : prims unit := prims_of nsw_table.

  Definition nsw_names : list string := Eval cbv in assigned prog_nsamples_warn params_nsamples_warn.
  Definition max_imfs_val (m : option nat) : val unit := match m with Some k => VNat k | None => VNone end.
  Definition nsw_env0 (n : nat) (m : option nat) : env unit :=
    frame params_nsamples_warn nsw_names [VNat n; max_imfs_val m].

  (* THE GUARD: the inputs for which the warning is logged *)
  Definition nsamples_warns (n : nat) (m : option nat) : bool :=
    match m with Some k => (n <? 2 ^ (k + 1))%nat | None => false end.

  Definition nsw_msg : string :=
    "Inputs samples ({0}) is small for specified max_imfs ({1}) very likely that {2} or fewer imfs are returned".
  (* max_imfs None: `return`; otherwise the function falls off its end, with the message built iff it warns *)
  Definition nsw_render (n : nat) (m : option nat) : outcome unit :=
    match m with
    | None => Return VNone
    | Some k => Normal (env_of nsw_names
                          (overlay (("N", VNat n) :: ("max_imfs", VNat k) ::
                                    (if nsamples_warns n m then [("msg", VStr nsw_msg)] else [])) (fun _ => None)))
    end.
End WarnPrims.

(* ================================================================================================ *)
(* 3. is_imf(imf, avg_tol, envelope_opts, extrema_opts)                                              *)
(* ================================================================================================ *)
(* There is no hand model of is_imf elsewhere: the list-level model is [is_imf_model] below. Opaque (oracles, for
   EVERY behaviour): the zero-crossing count of a column, the numbers of peaks and of troughs that
   scipy.signal.find_peaks reports, interp_envelope (an envelope, None, or an exception), and the decision
   sum|mean(upper, lower)| / sum|column| < avg_tol. The count criterion |num_zc - num_ext| <= 1 is computed. *)
Inductive ival (S E : Type) :=
| ISig (x : S)                        (* a column of imf (a 1-D signal) *)
| I2d (cols : list S)                 (* a 2-D array [nsamples x nimfs] given by its columns *)
| IEnv (u : E)                        (* an envelope returned by interp_envelope *)
| IZ (z : Z)                          (* a numpy integer / a 1-element integer array *)
| IChecks (rows : list (bool * bool)). (* the boolean array checks [nimfs x 2] given by its rows *)
Arguments ISig {S E}. Arguments I2d {S E}. Arguments IEnv {S E}. Arguments IZ {S E}. Arguments IChecks {S E}.

Inductive emode := Upper | Lower.
(* what interp_envelope does: an envelope, None (too few extrema), or an exception (ValueError ...) *)
Inductive envres (E : Type) := EnvOk (u : E) | EnvNone | EnvRaise (exn : string).
Arguments EnvOk {E}. Arguments EnvNone {E}. Arguments EnvRaise {E}.

Section IsImfPrims.
  Variables S E : Type.
  Local Notation val := (val (ival S E)).
  Variable zc : S -> nat.                          (* zero_crossing_count(column) *)
  Variable npeaks ntroughs : S -> nat.             (* signal.find_peaks(column)[0].shape[0], the same of -column *)
  (* interp_envelope(column, mode=.., **envelope_opts, extrema_opts=extrema_opts): the two option values are passed
     to the oracle as they arrive *)
  Variable envelope : emode -> S -> val -> val -> envres E.
  (* np.sum(np.abs(np.mean([upper, lower], axis=0)[:, None])) / np.sum(np.abs(column)) < avg_tol *)
  Variable mean_ok : E -> E -> S -> bool.

  Definition empty_dict : val := VOpaque "{}" [].
  Definition avg_tol_val : val := VOpaque "avg_tol" [].

  (* ---- the array primitives on symbolic lists (kept folded by the evaluator) ---- *)
  Definition col_at (cols : list S) (i : nat) : option S := nth_error cols i.
  Definition set_cell (k : nat) (b : bool) (r : bool * bool) : bool * bool :=
    match k with 0 => (b, snd r) | _ => (fst r, b) end%nat.
  (* checks[i, k] = b *)
  Definition store_cell (k i : nat) (b : bool) (rows : list (bool * bool)) : option (list (bool * bool)) :=
    match nth_error rows i with
    | Some r => Some (firstn i rows ++ set_cell k b r :: skipn (Datatypes.S i) rows)%list
    | None => None
    end.
  Definition blank_rows (n : nat) : list (bool * bool) := repeat (false, false) n.

  Definition env_val (r : envres E) : res val :=
    match r with EnvOk u => Ok (VSig (IEnv u)) | EnvNone => Ok VNone | EnvRaise x => Exc x end.

  Definition find_peaks_count (count : S -> nat) : handler (ival S E) :=
    fun args kw => match args, kw with
                   | [VSig (I2d cols); VNat i], [] =>
                       match col_at cols i with Some x => Ok (VList [VNat (count x)]) | None => Exc "IndexError" end
                   | _, _ => Bad end.
  Definition store_handler (k : nat) : handler (ival S E) :=
    fun args kw => match args, kw with
                   | [VSig (IChecks rows); VNat i; VBool b], [] =>
                       match store_cell k i b rows with
                       | Some rows' => Ok (VSig (IChecks rows'))
                       | None => Exc "IndexError"
                       end
                   | _, _ => Bad end.

  Definition imf_table : list (string * handler (ival S E)) :=
    [ (* ensure_2d([imf], ['imf'], 'is_imf'): the input is 2-D already (a 1-D input is not modelled) *)
      ("ensure_2d", fun args kw => match args, kw with
                                   | [VList [VSig (I2d cols)]; VList [VStr _]; VStr _], [] => Ok (VSig (I2d cols))
                                   | _, _ => Bad end);
      ("{}", fun args kw => match args, kw with [], [] => Ok empty_dict | _, _ => Bad end);
      ("bool", fun args kw => match args, kw with [], [] => Ok (VOpaque "bool" []) | _, _ => Bad end);
      ("imf.shape", fun args kw => match args, kw with
                                   | [VSig (I2d cols)], [] => Ok (VList [VOpaque "nsamples" []; VNat (length cols)])
                                   | _, _ => Bad end);
      (* np.zeros((nimfs, 2), dtype=bool): all False *)
      ("np.zeros", fun args kw => match args, kw with
                                  | [VList [VNat n; VNat 2]], [(_, d)] =>
                                      if keys_are kw ["dtype"] && is_opaque0 d "bool"
                                      then Ok (VSig (IChecks (blank_rows n))) else Bad
                                  | _, _ => Bad end);
      ("range", range_handler);
      ("imf[:, ii]", fun args kw => match args, kw with
                                    | [VSig (I2d cols); VNat i], [] =>
                                        match col_at cols i with Some x => Ok (VSig (ISig x)) | None => Exc "IndexError" end
                                    | _, _ => Bad end);
      ("zero_crossing_count", fun args kw => match args, kw with
                                             | [VSig (ISig x)], [] => Ok (VSig (IZ (Z.of_nat (zc x))))
                                             | _, _ => Bad end);
      ("signal.find_peaks(imf[:, ii])[0].shape", find_peaks_count npeaks);
      ("signal.find_peaks(-imf[:, ii])[0].shape", find_peaks_count ntroughs);
      (* THE OPTION PLUMBING: mode is the literal of the call, **envelope_opts and extrema_opts are the variables *)
      ("interp_envelope", fun args kw => match args, kw with
                                         | [VSig (ISig x)], [(_, VStr m); (_, eo); (_, xo)] =>
                                             if keys_are kw ["mode"; "**"; "extrema_opts"] then
                                               if String.eqb m "upper" then env_val (envelope Upper x eo xo)
                                               else if String.eqb m "lower" then env_val (envelope Lower x eo xo)
                                               else Bad
                                             else Bad
                                         | _, _ => Bad end);
      (* the relative mean of the envelopes: opaque with its provenance until it is compared *)
      ("np.mean([upper, lower], axis=0)[:, None]",
         fun args kw => match args, kw with
                        | [VSig (IEnv u); VSig (IEnv l)], [] => Ok (VOpaque "avg" [VSig (IEnv u); VSig (IEnv l)])
                        | _, _ => Bad end);
      ("np.abs", fun args kw => match args, kw with
                                | [VSig (IZ z)], [] => Ok (VSig (IZ (Z.abs z)))
                                | [VOpaque t a], [] => Ok (VOpaque "np.abs" [VOpaque t a])
                                | [VSig (ISig x)], [] => Ok (VOpaque "np.abs" [VSig (ISig x)])
                                | _, _ => Bad end);
      ("np.sum", fun args kw => match args, kw with
                                | [VOpaque t a], [] => Ok (VOpaque "np.sum" [VOpaque t a])
                                | _, _ => Bad end);
      ("/", fun args kw => match args, kw with
                           | [VOpaque t a; VOpaque u b], [] => Ok (VOpaque "/" [VOpaque t a; VOpaque u b])
                           | _, _ => Bad end);
      ("<", fun args kw => match args, kw with
                           | [VOpaque "/" [VOpaque "np.sum" [VOpaque "np.abs" [VOpaque "avg" [VSig (IEnv u); VSig (IEnv l)]]];
                                           VOpaque "np.sum" [VOpaque "np.abs" [VSig (ISig x)]]]; tol], [] =>
                               if is_opaque0 tol "avg_tol" then Ok (VBool (mean_ok u l x)) else Bad
                           | _, _ => Bad end);
      (* np.diff((num_zc, num_ext)) = [num_ext - num_zc] *)
      ("np.diff", fun args kw => match args, kw with
                                 | [VList [VSig (IZ a); VNat b]], [] => Ok (VSig (IZ (Z.of_nat b - a)))
                                 | _, _ => Bad end);
      ("<=", fun args kw => match args, kw with
                            | [VSig (IZ z); VNat k], [] => Ok (VBool (z <=? Z.of_nat k)%Z)
                            | _, _ => Bad end);
      (* N11 stores: the new value of checks *)
      ("checks[ii, 0] =", store_handler 0);
      ("checks[ii, 1] =", store_handler 1);
      (* the debug message (only logged) *)
      ("msg.format(ii, np.all(checks[ii, :]), num_ext, num_zc, avg_sum, imf_sum, 100 * diff)",
         fun args kw => match args, kw with
                        | [VStr m; _; _; _; _; _; _; _], [] => Ok (VStr m)
                        | _, _ => Bad end) ].
  Definition imf_prims : prims (ival S E) := prims_of imf_table.

  Definition imf_names : list string := Eval cbv in assigned prog_is_imf params_is_imf.
  (* envelope_opts, extrema_opts: ANY values (None, a dict, ...) *)
  Definition imf_env0 (cols : list S) (eo xo : val) : env (ival S E) :=
    frame params_is_imf imf_names [VSig (I2d cols); avg_tol_val; eo; xo].

  (* ---- THE MODEL ---- *)
  (* envelope_opts=None means {} *)
  Definition eff_opts (eo : val) : val := match eo with VNone => empty_dict | _ => eo end.
  (* criterion 1: the numbers of extrema and of zero crossings differ by at most one *)
  Definition count_ok (x : S) : bool := (Z.abs (Z.of_nat (npeaks x + ntroughs x) - Z.of_nat (zc x)) <=? 1)%Z.
  (* one column: both envelopes are computed (upper first) before either is looked at; an exception of
     interp_envelope propagates; a missing envelope leaves the row (False, False) *)
  Definition imf_row (eo xo : val) (x : S) : string + (bool * bool) :=
    match envelope Upper x eo xo with
    | EnvRaise s => inl s
    | ru => match envelope Lower x eo xo with
            | EnvRaise s => inl s
            | rl => inr (match ru, rl with
                         | EnvOk u, EnvOk l => (count_ok x, mean_ok u l x)
                         | _, _ => (false, false)
                         end)
            end
    end.
  (* the columns in order; the first exception ends the call *)
  Fixpoint imf_rows (eo xo : val) (cols : list S) : string + list (bool * bool) :=
    match cols with
    | [] => inr []
    | x :: t => match imf_row eo xo x with
                | inl s => inl s
                | inr r => match imf_rows eo xo t with inl s => inl s | inr rs => inr (r :: rs) end
                end
    end.
  Definition is_imf_model (cols : list S) (eo xo : val) : string + list (bool * bool) :=
    imf_rows (eff_opts eo) xo cols.

  Definition imf_render (r : string + list (bool * bool)) : outcome (ival S E) :=
    match r with inl s => Raise s | inr rows => Return (VSig (IChecks rows)) end.
End IsImfPrims.

(* ================================================================================================ *)
(* 4. SiftConfig.__iter__, __len__, __repr__  (model/Config.v; the item / YAML methods are in Prop_Tie_Config.v)  *)
(* ================================================================================================ *)
(* A SiftConfig instance is its two fields (as in model/Config.v [config]); `self.store` is a [Config.tree]. The
   store is a dict ([Config.Node]) - iter / len of anything else (a scalar loaded from YAML) are not modelled. *)
Inductive cval :=
| CObj (ty : string) (st : Config.tree)     (* a SiftConfig: sift_type, store *)
| CTree (t : Config.tree).                  (* an object held in a configuration *)

Section ConfigPrims.
  Local Notation val := (val cval).
  (* str.format(template, arguments) on strings *)
  Variable fmt : string -> list string -> string.

  Definition keys_val (t : Config.tree) : list val := map (@VStr cval) (Config.keys_of t).

  Definition cfg_table : list (string * handler cval) :=
    [ ("self.store", fun args kw => match args, kw with
                                    | [VSig (CObj _ st)], [] => Ok (VSig (CTree st))
                                    | _, _ => Bad end);
      (* iter(dict): an iterator over the keys in insertion order *)
      ("iter", fun args kw => match args, kw with
                              | [VSig (CTree (Config.Node kids))], [] =>
                                  Ok (VOpaque "dict_keyiterator" (keys_val (Config.Node kids)))
                              | _, _ => Bad end);
      (* len(dict): the number of entries *)
      ("len", fun args kw => match args, kw with
                             | [VSig (CTree (Config.Node kids))], [] => Ok (VNat (length kids))
                             | _, _ => Bad end);
      ("self.__module__", fun args kw => match args, kw with
                                         | [VSig (CObj _ _)], [] => Ok (VStr "emd.sift")
                                         | _, _ => Bad end);
      ("type(self).__name__", fun args kw => match args, kw with
                                             | [VSig (CObj _ _)], [] => Ok (VStr "SiftConfig")
                                             | _, _ => Bad end);
      ("self.sift_type", fun args kw => match args, kw with
                                        | [VSig (CObj ty _)], [] => Ok (VStr ty)
                                        | _, _ => Bad end);
      ("+", fun args kw => match args, kw with [VStr a; VStr b], [] => Ok (VStr (a ++ b)) | _, _ => Bad end);
      ("str.format", fun args kw => match args, kw with
                                    | [VStr t; VStr a; VStr b], [] => Ok (VStr (fmt t [a; b]))
                                    | _, _ => Bad end) ].
  Definition cfg_prims : prims cval := prims_of cfg_table.

  Definition cfg_env0 (ty : string) (st : Config.tree) : env cval :=
    frame params_config_iter (assigned prog_config_iter params_config_iter) [VSig (CObj ty st)].

  (* iter(cfg): the top-level keys, in order (= Config.keys_of) *)
  Definition iter_render (st : Config.tree) : outcome cval :=
    Return (VOpaque "dict_keyiterator" (map (@VStr cval) (Config.keys_of st))).
  (* len(cfg): their number *)
  Definition len_render (st : Config.tree) : outcome cval := Return (VNat (length (Config.keys_of st))).
  (* repr(cfg) = "<emd.sift.SiftConfig (<sift_type>)>" *)
  Definition repr_render (ty : string) : outcome cval :=
    Return (VStr (fmt "<{0} ({1})>" ["emd.sift.SiftConfig"; ty])).
End ConfigPrims.
