(* Model of the emd.cycles.Cycles container (property C15): emd/cycles.py class Cycles
   (__init__, compute_cycle_metric, add_cycle_metric, compute_cycle_timings, pick_cycle_subset,
   get_matching_cycles, _parse_condition, compute_chain_timings, get_metric_dataframe) and
   emd/_cycles_support.py (make_slice_cache, make_aug_slice_cache, get_slice_stat_from_samples,
   get_cycle_stat_from_samples, get_augmented_cycle_stat_from_samples, map_cycle_to_samples_augmented,
   get_chain_stat_from_samples, project_... functions).  Definitions only; lemmas in proofs/CyclesObjFacts.v.

   The model is of the REPAIRED code (notes/fixes/C15-*.diff); the three definitions the repair
   replaced are kept with suffix _v0 at the end of the file.

   Phases are integer codes (harness: code/8), thresholds as in CycleVec.cv_params plus
   [trough]: phase > 1.5*pi  <->  code > trough.
   A metric value is [option Z]: [None] is numpy nan.  Fields marked (ghost) do not exist in the
   implementation; they record when and how a value was written so that the invariant can be stated. *)
From Coq Require Import String Ascii ZArith QArith List Bool Lia.
From EmdV Require Import lib.NpLite model.CycleMaps model.CycleVec model.CycleStat.
Import ListNotations.
Open Scope Z_scope.

(* ====================================================================================== *)
(* condition strings: Cycles._parse_condition                                              *)
(* ====================================================================================== *)
Inductive cmp := CEq | CNe | CLe | CGe | CLt | CGt.
Record cond := { c_name : string; c_cmp : cmp; c_lit : Q }.

Fixpoint chars (s : string) : list ascii :=
  match s with EmptyString => [] | String c t => c :: chars t end.
Fixpoint unchars (l : list ascii) : string :=
  match l with [] => EmptyString | c :: t => String c (unchars t) end.
Definition code (c : ascii) : Z := Z.of_nat (nat_of_ascii c).

(* the split set of re.split(r'[=<>!]', cond) and of comp.lstrip('!=<>') *)
Definition is_opchar (c : ascii) : bool :=
  let n := code c in (n =? 61) || (n =? 60) || (n =? 62) || (n =? 33).
Definition is_digit (c : ascii) : bool := (48 <=? code c) && (code c <=? 57).

(* name = re.split(r'[=<>!]', cond)[0];  comp = cond[len(name):] *)
Fixpoint span_name (l : list ascii) : list ascii * list ascii :=
  match l with
  | [] => ([], [])
  | c :: t => if is_opchar c then ([], l) else let '(a, b) := span_name t in (c :: a, b)
  end.

Fixpoint lstrip_ops (l : list ascii) : list ascii :=
  match l with
  | c :: t => if is_opchar c then lstrip_ops t else l
  | [] => []
  end.

(* the if/elif chain on comp[:2] and comp[0]; None = no branch taken (the code then fails) *)
Definition parse_cmp (comp : list ascii) : option cmp :=
  match comp with
  | [] => None
  | a :: rest =>
      let b := match rest with [] => 0 | x :: _ => code x end in
      if (code a =? 61) && (b =? 61) then Some CEq
      else if (code a =? 33) && (b =? 61) then Some CNe
      else if (code a =? 60) && (b =? 61) then Some CLe
      else if (code a =? 62) && (b =? 61) then Some CGe
      else if code a =? 60 then Some CLt
      else if code a =? 62 then Some CGt
      else None
  end.

(* float(): [sign] digits [. [digits]] | [sign] . digits, then optional (e|E) [sign] digits;
   the value is the exact rational the text denotes *)
Fixpoint take_digits (l : list ascii) (acc : Z) (n : nat) : Z * nat * list ascii :=
  match l with
  | c :: t => if is_digit c then take_digits t (10 * acc + (code c - 48)) (S n) else (acc, n, l)
  | [] => (acc, n, [])
  end.

Definition parse_sign (l : list ascii) : Z * list ascii :=
  match l with
  | c :: t => if code c =? 45 then (-1, t) else if code c =? 43 then (1, t) else (1, l)
  | [] => (1, [])
  end.

Definition mkQ (m e : Z) : Q :=
  if 0 <=? e then inject_Z (m * 10 ^ e) else Qmake m (Z.to_pos (10 ^ (- e))).

Definition parse_float (l : list ascii) : option Q :=
  let '(sg, l1) := parse_sign l in
  let '(m1, n1, l2) := take_digits l1 0 0 in
  let '(m2, n2, l3) :=
    match l2 with
    | c :: t => if code c =? 46 then take_digits t m1 0 else (m1, 0%nat, l2)
    | [] => (m1, 0%nat, [])
    end in
  if (n1 + n2 =? 0)%nat then None
  else
    let '(ok, ex, l4) :=
      match l3 with
      | c :: t =>
          if (code c =? 101) || (code c =? 69) then
            let '(sg2, t1) := parse_sign t in
            let '(e, ne, t2) := take_digits t1 0 0 in
            if (ne =? 0)%nat then (false, 0, t2) else (true, sg2 * e, t2)
          else (true, 0, l3)
      | [] => (true, 0, [])
      end in
    if negb ok then None
    else match l4 with
         | [] => Some (mkQ (sg * m2) (ex - Z.of_nat n2))
         | _ => None
         end.

Definition parse_cond (s : string) : option cond :=
  let '(name, comp) := span_name (chars s) in
  match parse_cmp comp with
  | None => None
  | Some c =>
      match parse_float (lstrip_ops comp) with
      | None => None
      | Some q => Some {| c_name := unchars name; c_cmp := c; c_lit := q |}
      end
  end.

(* np.equal / not_equal / less_equal / greater_equal / less / greater against the literal;
   a missing value (nan) satisfies only != *)
Definition eval_cmp (c : cmp) (v : option Z) (q : Q) : bool :=
  match v with
  | None => match c with CNe => true | _ => false end
  | Some m =>
      let x := inject_Z m in
      match c with
      | CEq => Qeq_bool x q
      | CNe => negb (Qeq_bool x q)
      | CLe => Qle_bool x q
      | CGe => Qle_bool q x
      | CLt => negb (Qle_bool q x)
      | CGt => negb (Qle_bool x q)
      end
  end.

(* ====================================================================================== *)
(* state                                                                                   *)
(* ====================================================================================== *)
Inductive cmode := MCycle | MAug.

(* (ghost) how a metric value came about *)
Inductive prov :=
| PComputed (f : list Z -> Z) (mode : cmode) (vals : list Z)   (* compute_cycle_metric *)
| PAdded                                                      (* add_cycle_metric by the caller *)
| PChainInd                                                   (* written by pick_cycle_subset *)
| PChainT (kind : nat).                                       (* written by compute_chain_timings *)

Record metric := { m_name : string; m_vals : list (option Z);
                   m_prov : prov (* ghost *); m_stamp : nat (* ghost *) }.

Definition slices := list (nat * nat).
Definition aug_slices := list (option (nat * nat)).

Record cstate := {
  s_P : cv_params; s_trough : Z;          (* construction parameters *)
  s_ph : list Z;                          (* self.phase *)
  s_cv : list Z;                          (* self.cycle_vect *)
  s_cache : option (slices * aug_slices); (* self._slice_cache, self._slice_cache_aug *)
  s_metrics : list metric;                (* self.metrics, insertion ordered *)
  s_subset : option (list Z);             (* self.subset_vect *)
  s_chain : option (list Z);              (* self.chain_vect *)
  s_conds : option (list string);         (* self.mask_conditions *)
  s_valids : list bool;                   (* ghost: the selection the last pick computed *)
  s_clock : nat;                          (* ghost: number of metric writes / picks so far *)
  s_pick_clock : nat                      (* ghost: clock value of the last successful pick *)
}.

Inductive which := ExAll | ExSubset | ExConds (c : list string) | ExBoth (c : list string).

Inductive op :=
| ComputeMetric (name : string) (f : list Z -> Z) (mode : cmode) (vals : list Z)
| AddMetric (name : string) (vals : list (option Z))
| Timings
| Pick (conds : list string)
| ChainTimings
| Export (w : which).

(* error enum of DESIGN A.3: 1 IndexError 2 ValueError 3 TypeError 4 KeyError 9 other *)
Inductive out :=
| OOk
| OReturned (code : Z)           (* add_cycle_metric RETURNS a ValueError object on a length mismatch *)
| ORaised (code : Z)
| OTable (index_col : bool) (names : list string) (rows : list (nat * list (option Z))).

Definition nsamples (st : cstate) : nat := length (s_cv st).
Definition ncyc (st : cstate) : nat := ncycles (s_cv st).

(* ====================================================================================== *)
(* slice cache (repaired make_slice_cache / augment_slice / make_aug_slice_cache)          *)
(* ====================================================================================== *)
(* starts = where(in_cycle & (cv != r_[-1, cv[:-1]])) *)
Fixpoint run_starts (prev : Z) (l : list Z) (i : nat) : list nat :=
  match l with
  | [] => []
  | x :: t => (if (-1 <? x) && negb (x =? prev) then [i] else []) ++ run_starts x t (S i)
  end.

(* stops = where(in_cycle & (cv != r_[cv[1:], -1])) + 1 *)
Fixpoint run_stops (l : list Z) (i : nat) : list nat :=
  match l with
  | [] => []
  | x :: t =>
      let nxt := match t with [] => -1 | y :: _ => y end in
      (if (-1 <? x) && negb (x =? nxt) then [S i] else []) ++ run_stops t (S i)
  end.

Definition make_slice_cache (cv : list Z) : slices :=
  combine (run_starts (-1) cv 0) (run_stops cv 0).

(* first sample of [a,b) whose phase is above 1.5pi *)
Definition first_above (trough : Z) (ph : list Z) (a b : nat) : option nat :=
  find (fun i => trough <? nth i ph 0) (seq a (b - a)).

Definition augment_slice (trough : Z) (ph : list Z) (prev : option (nat * nat)) (s : nat * nat)
  : option (nat * nat) :=
  match prev with
  | None => None
  | Some (pa, pb) => option_map (fun p => (p, snd s)) (first_above trough ph pa pb)
  end.

Fixpoint aug_cache_from (trough : Z) (ph : list Z) (prev : option (nat * nat)) (sl : slices)
  : aug_slices :=
  match sl with
  | [] => []
  | s :: t => augment_slice trough ph prev s :: aug_cache_from trough ph (Some s) t
  end.

Definition make_aug_slice_cache (trough : Z) (ph : list Z) (sl : slices) : aug_slices :=
  aug_cache_from trough ph None sl.

(* ====================================================================================== *)
(* per-cycle statistics, four ways                                                         *)
(* ====================================================================================== *)
Definition take_inds (vals : list Z) (inds : list nat) : list Z := map (fun i => nth i vals 0) inds.

(* get_slice_stat_from_samples *)
Definition slice_stat (f : list Z -> Z) (sl : slices) (vals : list Z) : list (option Z) :=
  map (fun ab => Some (f (slice vals (fst ab) (snd ab)))) sl.
Definition aug_slice_stat (f : list Z -> Z) (asl : aug_slices) (vals : list Z) : list (option Z) :=
  map (option_map (fun ab => f (slice vals (fst ab) (snd ab)))) asl.

(* map_cycle_to_samples_augmented: from the first sample of cycle k-1 whose phase is above 1.5pi
   to the last sample of cycle k; None when there is no such sample *)
Definition map_cycle_to_samples_aug (trough : Z) (cv ph : list Z) (k : Z) : option (list nat) :=
  match filter (fun i => trough <? nth i ph 0) (map_cycle_to_samples cv (k - 1)) with
  | [] => None
  | p :: _ =>
      match map_cycle_to_samples cv k with
      | [] => None
      | i :: t => Some (seq p (S (last t i) - p))
      end
  end.

(* get_cycle_stat_from_samples / get_augmented_cycle_stat_from_samples (None -> nan) *)
Definition label_stat (f : list Z -> Z) (cv vals : list Z) : list (option Z) :=
  map Some (cycle_stat f cv vals).
Definition aug_label_stat (f : list Z -> Z) (trough : Z) (cv ph vals : list Z) : list (option Z) :=
  map (fun k => option_map (fun inds => f (take_inds vals inds))
                           (map_cycle_to_samples_aug trough cv ph (Z.of_nat k)))
      (seq 0 (ncycles cv)).

Definition compute_vals (st : cstate) (f : list Z -> Z) (mode : cmode) (vals : list Z)
  : list (option Z) :=
  match s_cache st, mode with
  | Some (sl, _), MCycle => slice_stat f sl vals
  | Some (_, asl), MAug => aug_slice_stat f asl vals
  | None, MCycle => label_stat f (s_cv st) vals
  | None, MAug => aug_label_stat f (s_trough st) (s_cv st) (s_ph st) vals
  end.

(* ====================================================================================== *)
(* the metric store: add_cycle_metric / _safe_add_metric                                   *)
(* ====================================================================================== *)
Definition find_metric (name : string) (ms : list metric) : option metric :=
  find (fun m => String.eqb name (m_name m)) ms.

(* dict assignment: an existing key keeps its position *)
Fixpoint upd_metric (m : metric) (ms : list metric) : list metric :=
  match ms with
  | [] => [m]
  | x :: t => if String.eqb (m_name m) (m_name x) then m :: t else x :: upd_metric m t
  end.

Definition set_metrics (st : cstate) (ms : list metric) (clock : nat) : cstate :=
  {| s_P := s_P st; s_trough := s_trough st; s_ph := s_ph st; s_cv := s_cv st; s_cache := s_cache st;
     s_metrics := ms; s_subset := s_subset st; s_chain := s_chain st; s_conds := s_conds st;
     s_valids := s_valids st; s_clock := clock; s_pick_clock := s_pick_clock st |}.

(* true = stored; false = length mismatch, nothing stored *)
Definition add_metric (st : cstate) (name : string) (p : prov) (vals : list (option Z)) : cstate * bool :=
  if (length vals =? ncyc st)%nat then
    (set_metrics st (upd_metric {| m_name := name; m_vals := vals; m_prov := p; m_stamp := S (s_clock st) |}
                                (s_metrics st)) (S (s_clock st)), true)
  else (st, false).

(* compute_cycle_metric: the result of add_cycle_metric is dropped *)
Definition compute_metric (st : cstate) (name : string) (f : list Z -> Z) (mode : cmode) (vals : list Z)
  : cstate :=
  fst (add_metric st name (PComputed f mode vals) (compute_vals st f mode vals)).

(* ====================================================================================== *)
(* construction                                                                            *)
(* ====================================================================================== *)
Definition is_good_f (P : cv_params) (seg : list Z) : Z :=
  match is_good P seg with Some true => 1 | _ => 0 end.

Definition empty_state (P : cv_params) (trough : Z) (use_cache : bool) (ph cv : list Z) : cstate :=
  let sl := make_slice_cache cv in
  {| s_P := P; s_trough := trough; s_ph := ph; s_cv := cv;
     s_cache := if use_cache then Some (sl, make_aug_slice_cache trough ph sl) else None;
     s_metrics := []; s_subset := None; s_chain := None; s_conds := None;
     s_valids := []; s_clock := 0; s_pick_clock := 0 |}.

(* Cycles(IP, phase_step, phase_edge, use_cache); None = the constructor raises *)
Definition init (P : cv_params) (trough : Z) (use_cache : bool) (ph : list Z) : option cstate :=
  match get_cycle_vector P false None ph with
  | None => None
  | Some cv => Some (compute_metric (empty_state P trough use_cache ph cv) "is_good" (is_good_f P) MCycle ph)
  end.

(* ====================================================================================== *)
(* compute_cycle_timings                                                                   *)
(* ====================================================================================== *)
Definition f_first (l : list Z) : Z := hd 0 l.
Definition f_last (l : list Z) : Z := last l 0.
Definition f_len (l : list Z) : Z := Z.of_nat (length l).
Definition arange (n : nat) : list Z := map Z.of_nat (seq 0 n).

Definition timings (st : cstate) : cstate :=
  let st1 := compute_metric st "start_sample" f_first MCycle (arange (nsamples st)) in
  let st2 := compute_metric st1 "stop_sample" f_last MCycle (arange (nsamples st)) in
  compute_metric st2 "duration" f_len MCycle (s_cv st).

(* ====================================================================================== *)
(* get_matching_cycles                                                                     *)
(* ====================================================================================== *)
Inductive res (A : Type) := Ok (a : A) | Err (code : Z).
Arguments Ok {A} a.
Arguments Err {A} code.

(* per condition: parse, then look the metric up (KeyError), in the order given *)
Fixpoint resolve (ms : list metric) (cs : list string) : res (list (cond * list (option Z))) :=
  match cs with
  | [] => Ok []
  | s :: t =>
      match parse_cond s with
      | None => Err 9
      | Some c =>
          match find_metric (c_name c) ms with
          | None => Err 4
          | Some m =>
              match resolve ms t with
              | Ok r => Ok ((c, m_vals m) :: r)
              | Err e => Err e
              end
          end
      end
  end.

Definition sat_all (r : list (cond * list (option Z))) (k : nat) : bool :=
  forallb (fun cv => eval_cmp (c_cmp (fst cv)) (nth k (snd cv) None) (c_lit (fst cv))) r.

Definition get_matching (st : cstate) (cs : list string) : res (list bool) :=
  match find_metric "is_good" (s_metrics st) with
  | None => Err 4
  | Some g =>
      match resolve (s_metrics st) cs with
      | Err e => Err e
      | Ok r => Ok (map (sat_all r) (seq 0 (length (m_vals g))))
      end
  end.

(* ====================================================================================== *)
(* pick_cycle_subset (repaired: nothing is stored before everything has been computed)      *)
(* ====================================================================================== *)
Definition nan_to_m1 (l : list (option Z)) : list (option Z) :=
  map (fun o => match o with Some v => Some v | None => Some (-1) end) l.

Definition nchains (chv : list Z) : nat := Z.to_nat (zmax_list (-1) chv + 1).

Definition chain_ind_vals (chv sv : list Z) : list (option Z) :=
  nan_to_m1 (project_chain_to_cycles (arange (nchains chv)) chv sv).

Definition set_subset (st : cstate) (cs : list string) (valids : list bool) (sv chv : list Z) : cstate :=
  {| s_P := s_P st; s_trough := s_trough st; s_ph := s_ph st; s_cv := s_cv st; s_cache := s_cache st;
     s_metrics := s_metrics st; s_subset := Some sv; s_chain := Some chv; s_conds := Some cs;
     s_valids := valids; s_clock := S (s_clock st); s_pick_clock := S (s_clock st) |}.

Definition pick (st : cstate) (cs : list string) : cstate * out :=
  match get_matching st cs with
  | Err e => (st, ORaised e)
  | Ok valids =>
      let sv := get_subset_vector valids in
      let chv := get_chain_vector sv in
      match chv with
      | [] => (st, ORaised 2)                   (* chain_vect.max() of an empty array *)
      | _ => (fst (add_metric (set_subset st cs valids sv chv) "chain_ind" PChainInd (chain_ind_vals chv sv)), OOk)
      end
  end.

(* ====================================================================================== *)
(* compute_chain_timings                                                                   *)
(* ====================================================================================== *)
(* get_chain_stat_from_samples; None = a map is undefined (the code would raise) *)
Definition chain_stat (f : list Z -> Z) (chv sv cv vals : list Z) : option (list Z) :=
  all_some (map (fun c => option_map (fun inds => f (take_inds vals inds))
                                     (map_chain_to_samples chv sv cv (Z.of_nat c)))
                (seq 0 (nchains chv))).

Definition f_nunique (l : list Z) : Z := Z.of_nat (length (nodup Z.eq_dec l)).

(* compute_position_in_chain: rank of each subset entry within its chain *)
Definition chain_pos (chv : list Z) : list Z :=
  map (fun j => Z.of_nat (count_true (map (Z.eqb (nth j chv (-1))) (firstn j chv))))
      (seq 0 (length chv)).

Definition chain_t_name (kind : nat) : string :=
  match kind with
  | 0%nat => "chain_start" | 1%nat => "chain_end" | 2%nat => "chain_len_samples"
  | 3%nat => "chain_len_cycles" | _ => "chain_position"
  end.
Definition chain_t_f (kind : nat) : list Z -> Z :=
  match kind with 0%nat => f_first | 1%nat => f_last | 2%nat => f_len | _ => f_nunique end.
Definition chain_t_src (st : cstate) (kind : nat) : list Z :=
  match kind with 0%nat | 1%nat => arange (nsamples st) | _ => s_cv st end.

(* compute_chain_metric(name, vals, func, dtype=int) for kinds 0..3; compute_position_in_chain for 4 *)
Definition chain_t_vals (st : cstate) (chv sv : list Z) (kind : nat) : option (list (option Z)) :=
  match kind with
  | 4%nat => Some (nan_to_m1 (project_subset_to_cycles (chain_pos chv) sv))
  | _ => option_map (fun stats => nan_to_m1 (project_chain_to_cycles stats chv sv))
                    (chain_stat (chain_t_f kind) chv sv (s_cv st) (chain_t_src st kind))
  end.

Fixpoint chain_t_loop (st : cstate) (chv sv : list Z) (kinds : list nat) : option cstate :=
  match kinds with
  | [] => Some st
  | k :: t =>
      match chain_t_vals st chv sv k with
      | None => None
      | Some vals => chain_t_loop (fst (add_metric st (chain_t_name k) (PChainT k) vals)) chv sv t
      end
  end.

Definition chain_timings (st : cstate) : cstate * out :=
  match s_conds st, s_subset st, s_chain st with
  | Some _, Some sv, Some chv =>
      match chain_t_loop st chv sv [0; 1; 2; 3; 4]%nat with
      | Some st' => (st', OOk)
      | None => (st, ORaised 9)
      end
  | _, _, _ => (st, ORaised 2)
  end.

(* ====================================================================================== *)
(* get_metric_dataframe                                                                    *)
(* ====================================================================================== *)
Definition row (ms : list metric) (k : nat) : nat * list (option Z) :=
  (k, map (fun m => nth k (m_vals m) None) ms).

Definition export (st : cstate) (w : which) : out :=
  let ms := s_metrics st in
  let all := seq 0 (ncyc st) in
  let filtered cs :=
    match get_matching st cs with
    | Err e => ORaised e
    | Ok valids => OTable true (map m_name ms) (map (row ms) (filter (fun k => nth k valids false) all))
    end in
  match w with
  | ExBoth _ => ORaised 2
  | ExAll => OTable false (map m_name ms) (map (row ms) all)
  | ExConds cs => filtered cs
  | ExSubset =>
      match s_conds st with
      | None => OTable false (map m_name ms) (map (row ms) all)
      | Some cs => filtered cs
      end
  end.

(* ====================================================================================== *)
(* step / run                                                                              *)
(* ====================================================================================== *)
Definition step (st : cstate) (o : op) : cstate * out :=
  match o with
  | ComputeMetric name f mode vals => (compute_metric st name f mode vals, OOk)
  | AddMetric name vals =>
      let '(st', stored) := add_metric st name PAdded vals in
      (st', if stored then OOk else OReturned 2)
  | Timings => (timings st, OOk)
  | Pick cs => pick st cs
  | ChainTimings => chain_timings st
  | Export w => (st, export st w)
  end.

Definition run (st : cstate) (ops : list op) : cstate := fold_left (fun s o => fst (step s o)) ops st.

Fixpoint outs (st : cstate) (ops : list op) : list out :=
  match ops with
  | [] => []
  | o :: t => let '(st', r) := step st o in r :: outs st' t
  end.

(* the vectors an operation is allowed to be given: one value per sample *)
Definition wf_op (n : nat) (o : op) : Prop :=
  match o with
  | ComputeMetric _ _ _ vals => length vals = n
  | _ => True
  end.

(* what can be observed of a state (everything but the cache itself) *)
Definition observe (st : cstate) :=
  (s_cv st, s_ph st, s_metrics st, s_subset st, s_chain st, s_conds st).

(* ====================================================================================== *)
(* specification vocabulary                                                                *)
(* ====================================================================================== *)
(* the wrap-delimited segments of C12: cycle k is samples [a_k, b_k) *)
Definition segs_of (P : cv_params) (ph : list Z) : list (nat * nat) :=
  match wrap_hits P ph with [] => [] | _ => adj (boundaries P ph) end.

(* "that cycle's samples" in augmented mode: from the first sample of the previous cycle whose
   phase is above 1.5pi, through the end of cycle k; undefined for the first cycle and when the
   previous cycle has no such sample *)
Definition aug_samples (P : cv_params) (trough : Z) (ph vals : list Z) (k : nat) : option (list Z) :=
  match k with
  | O => None
  | S j =>
      match nth_error (segs_of P ph) j, nth_error (segs_of P ph) k with
      | Some (a', b'), Some (_, b) => option_map (fun p => slice vals p b) (first_above trough ph a' b')
      | _, _ => None
      end
  end.

(* the text of the six comparators *)
Definition cmp_chars (c : cmp) : list ascii :=
  match c with
  | CEq => ["="; "="] | CNe => ["!"; "="] | CLe => ["<"; "="] | CGe => [">"; "="]
  | CLt => ["<"] | CGt => [">"]
  end%char.

Definition no_opchar (l : list ascii) : Prop := Forall (fun c => is_opchar c = false) l.

(* a literal text: something float() accepts never begins with one of = < > ! *)
Definition starts_clean (l : list ascii) : Prop :=
  match l with [] => False | c :: _ => is_opchar c = false end.

Definition cond_view (o : option cond) : option (string * cmp * Q) :=
  option_map (fun c => (c_name c, c_cmp c, Qred (c_lit c))) o.

(* a cycle is selected iff it satisfies EVERY condition string *)
Definition cond_holds (ms : list metric) (k : nat) (s : string) : Prop :=
  exists c m, parse_cond s = Some c /\ find_metric (c_name c) ms = Some m /\
              eval_cmp (c_cmp c) (nth k (m_vals m) None) (c_lit c) = true.

(* the vector Cycles.__init__ stores: all cycles, nothing masked *)
Definition container (P : cv_params) (ph cv : list Z) : Prop :=
  get_cycle_vector P false None ph = Some cv.

(* the cache, when there is one, holds the segments and their augmented versions *)
Definition cache_ok (st : cstate) : Prop :=
  s_cache st = None \/
  s_cache st = Some (segs_of (s_P st) (s_ph st),
                     make_aug_slice_cache (s_trough st) (s_ph st) (segs_of (s_P st) (s_ph st))).

(* value a chain-level quantity g takes on cycle k: g(chain of k), -1 outside the chains *)
Definition chain_value (chv sv : list Z) (g : nat -> Z) (k : nat) : Z :=
  match map_cycle_to_chain chv sv (Z.of_nat k) with FVal c => g (Z.to_nat c) | _ => -1 end.

(* chain_start / chain_end / chain_len_samples / chain_len_cycles of chain c *)
Definition chain_quantity (st : cstate) (chv sv : list Z) (kind : nat) (c : nat) : Z :=
  match map_chain_to_samples chv sv (s_cv st) (Z.of_nat c) with
  | Some inds => chain_t_f kind (take_inds (chain_t_src st kind) inds)
  | None => -1
  end.

(* number of earlier selected cycles in the same chain *)
Definition chain_rank (chv : list Z) (j : nat) : Z :=
  Z.of_nat (count_true (map (Z.eqb (nth j chv (-1))) (firstn j chv))).

Definition chain_metric_ok (st : cstate) (sv chv : list Z) (p : prov) (vals : list (option Z)) : Prop :=
  match p with
  | PChainInd =>
      forall k, (k < ncyc st)%nat ->
        nth_error vals k = Some (Some (chain_value chv sv (fun c => Z.of_nat c) k))
  | PChainT 4 =>
      forall k, (k < ncyc st)%nat ->
        nth_error vals k = Some (Some (match map_cycle_to_subset sv (Z.of_nat k) with
                                       | FVal j => chain_rank chv (Z.to_nat j)
                                       | _ => -1
                                       end))
  | PChainT kind =>
      forall k, (k < ncyc st)%nat ->
        nth_error vals k = Some (Some (chain_value chv sv (chain_quantity st chv sv kind) k))
  | _ => True
  end.

(* one entry per cycle, and the value its origin says it must have *)
Definition metric_ok (st : cstate) (m : metric) : Prop :=
  length (m_vals m) = ncyc st /\
  match m_prov m with
  | PComputed f MCycle vals =>
      length vals = nsamples st /\
      forall k, (k < ncyc st)%nat ->
        nth_error (m_vals m) k = Some (Some (f (samples_with_label (s_cv st) vals (Z.of_nat k))))
  | PComputed f MAug vals =>
      length vals = nsamples st /\
      forall k, (k < ncyc st)%nat ->
        nth_error (m_vals m) k = Some (option_map f (aug_samples (s_P st) (s_trough st) (s_ph st) vals k))
  | PAdded => True
  | p =>
      (* chain metrics written since the last selection describe the current chains *)
      (s_pick_clock st < m_stamp m)%nat ->
      match s_subset st, s_chain st with
      | Some sv, Some chv => chain_metric_ok st sv chv p (m_vals m)
      | _, _ => False
      end
  end.

(* no metric named by the conditions has been rewritten since the selection was made *)
Definition fresh_conds (st : cstate) (cs : list string) : Prop :=
  Forall (fun s => match parse_cond s with
                   | None => False
                   | Some c => match find_metric (c_name c) (s_metrics st) with
                               | None => False
                               | Some m => (m_stamp m < s_pick_clock st)%nat
                               end
                   end) cs.

Definition sel_ok (st : cstate) : Prop :=
  match s_conds st, s_subset st, s_chain st with
  | None, None, None => True
  | Some cs, Some sv, Some chv =>
      length (s_valids st) = ncyc st /\
      sv = get_subset_vector (s_valids st) /\
      chv = get_chain_vector sv /\ chv <> [] /\
      (fresh_conds st cs -> get_matching st cs = Ok (s_valids st))
  | _, _, _ => False
  end.

Definition Inv (st : cstate) : Prop :=
  container (s_P st) (s_ph st) (s_cv st) /\
  cache_ok st /\
  Forall (metric_ok st) (s_metrics st) /\
  sel_ok st /\
  Forall (fun m => (m_stamp m <= s_clock st)%nat) (s_metrics st) /\
  (s_pick_clock st <= s_clock st)%nat.

Definition drop_cache (st : cstate) : cstate :=
  {| s_P := s_P st; s_trough := s_trough st; s_ph := s_ph st; s_cv := s_cv st; s_cache := None;
     s_metrics := s_metrics st; s_subset := s_subset st; s_chain := s_chain st; s_conds := s_conds st;
     s_valids := s_valids st; s_clock := s_clock st; s_pick_clock := s_pick_clock st |}.

(* ====================================================================================== *)
(* rendering for the harness                                                               *)
(* ====================================================================================== *)
Definition rl (l : list Z) : list Z := Z.of_nat (length l) :: l.
Definition render_ovals (l : list (option Z)) : list Z :=
  Z.of_nat (length l) :: flat_map (fun o => match o with None => [0] | Some v => [1; v] end) l.
Definition render_str (s : string) : list Z := rl (map code (chars s)).
Definition render_metrics (ms : list metric) : list Z :=
  Z.of_nat (length ms) :: flat_map (fun m => render_str (m_name m) ++ render_ovals (m_vals m)) ms.
Definition render_optlist (o : option (list Z)) : list Z :=
  match o with None => [0] | Some l => 1 :: rl l end.
Definition render_conds (o : option (list string)) : list Z :=
  match o with None => [0] | Some cs => 1 :: Z.of_nat (length cs) :: flat_map render_str cs end.

Definition render_state (st : cstate) : list Z :=
  rl (s_cv st) ++ render_metrics (s_metrics st) ++ render_optlist (s_subset st)
  ++ render_optlist (s_chain st) ++ render_conds (s_conds st).

Definition render_out (r : out) : list Z :=
  match r with
  | OOk => [0]
  | OReturned c => [1; c]
  | ORaised c => [2; c]
  | OTable idx names rows =>
      [3; if idx then 1 else 0] ++ Z.of_nat (length names) :: flat_map render_str names
      ++ Z.of_nat (length rows) :: flat_map (fun r => Z.of_nat (fst r) :: render_ovals (snd r)) rows
  end.

Fixpoint trace (st : cstate) (ops : list op) : list Z :=
  match ops with
  | [] => []
  | o :: t => let '(st', r) := step st o in render_out r ++ render_state st' ++ trace st' t
  end.

(* reducing functions the harness uses *)
Definition fn (c : Z) : list Z -> Z :=
  match c with
  | 0 => zsum
  | 1 => zmax_nonempty
  | 2 => f_len
  | 3 => f_first
  | 4 => f_last
  | _ => fun l => 3 * zsum l - Z.of_nat (length l)
  end.

(* cfg = [step; e_lo; e_hi; twopi; trough] *)
Definition run_trace (cfg : list Z) (use_cache : bool) (ph : list Z) (ops : list op) : list Z :=
  match init (mk_params cfg) (nth 4 cfg 0) use_cache ph with
  | None => [-2]
  | Some st => 0 :: render_state st ++ trace st ops
  end.

(* ====================================================================================== *)
(* the code before the repairs                                                             *)
(* ====================================================================================== *)
(* make_slice_cache: boundaries where the label grows by one, first slice from 0, last to N *)
Definition make_slice_cache_v0 (cv : list Z) : slices :=
  let starts := map S (positions (Z.eqb 1) (zdiffs cv)) in
  combine (0%nat :: starts) (starts ++ [length cv]).

(* augment_slice: walk left from the start of the cycle over the samples whose phase is not below
   1.5pi (whichever cycle they belong to); None only when the start of the recording is reached *)
Definition augment_slice_v0 (trough : Z) (ph : list Z) (s : nat * nat) : option (nat * nat) :=
  match positions (fun x => x <=? trough) (rev (firstn (fst s) ph)) with
  | [] => None
  | d :: _ => Some ((fst s - d)%nat, snd s)
  end.

(* get_augmented_cycle_stat_from_samples: vals[None] is the whole recording with a new axis *)
Definition aug_label_stat_v0 (f : list Z -> Z) (trough : Z) (cv ph vals : list Z) : list (option Z) :=
  map (fun k => match map_cycle_to_samples_aug trough cv ph (Z.of_nat k) with
                | Some inds => Some (f (take_inds vals inds))
                | None => Some (f vals)
                end)
      (seq 0 (ncycles cv)).

Definition compute_vals_v0 (use_cache : bool) (trough : Z) (cv ph : list Z) (f : list Z -> Z)
           (mode : cmode) (vals : list Z) : list (option Z) :=
  let sl := make_slice_cache_v0 cv in
  match use_cache, mode with
  | true, MCycle => slice_stat f sl vals
  | true, MAug => aug_slice_stat f (map (augment_slice_v0 trough ph) sl) vals
  | false, MCycle => label_stat f cv vals
  | false, MAug => aug_label_stat_v0 f trough cv ph vals
  end.

(* pick_cycle_subset: mask_conditions, subset_vect and chain_vect were stored before the
   step that can fail *)
Definition pick_v0 (st : cstate) (cs : list string) : cstate * out :=
  let st1 := {| s_P := s_P st; s_trough := s_trough st; s_ph := s_ph st; s_cv := s_cv st; s_cache := s_cache st;
                s_metrics := s_metrics st; s_subset := s_subset st; s_chain := s_chain st; s_conds := Some cs;
                s_valids := s_valids st; s_clock := s_clock st; s_pick_clock := s_pick_clock st |} in
  match get_matching st cs with
  | Err e => (st1, ORaised e)
  | Ok valids =>
      let sv := get_subset_vector valids in
      let chv := get_chain_vector sv in
      match chv with
      | [] => (set_subset st cs valids sv chv, ORaised 2)
      | _ => (fst (add_metric (set_subset st cs valids sv chv) "chain_ind" PChainInd (chain_ind_vals chv sv)), OOk)
      end
  end.
