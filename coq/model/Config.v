(* Model of emd/sift.py: SiftConfig (key paths, item access, YAML export / import) and of the
   way sift options are resolved into effective per-stage options (property C18).
   Definitions only; lemmas in proofs/ConfigFacts.v.

   Python objects that can sit in a configuration are a [tree]: a [Leaf] holds an option value
   ([val]: None, bool, int, float (as its repr), str, list, tuple, ndarray), a [Node] is a dict with
   string keys in insertion order.  Errors are values.  PyYAML is an oracle (Section variables with
   the contract used); what the code composes around it is modelled literally. *)
From Coq Require Import ZArith List Bool String Ascii.
From EmdV Require Import lib.NpLite.
Import ListNotations.
Open Scope Z_scope.

Inductive val :=
| VNone
| VBool (b : bool)
| VInt (z : Z)
| VFloat (r : string)          (* a binary64 named by its Python repr *)
| VStr (s : string)
| VList (l : list val)
| VTuple (l : list val)
| VArr (l : list val).         (* numpy.ndarray; 2-D = VArr of VArr *)

Inductive tree :=
| Leaf (v : val)
| Node (kids : list (string * tree)).

Inductive err := EKey | ENotMap | ETooDeep | EYaml.
Inductive result (A : Type) := Ok (a : A) | Err (e : err).
Arguments Ok {A} a.
Arguments Err {A} e.

Definition bind {A B} (r : result A) (f : A -> result B) : result B :=
  match r with Ok a => f a | Err e => Err e end.

(* ------------------------------------------------------------------ dicts as association lists *)
Fixpoint aget (k : string) (l : list (string * tree)) : option tree :=
  match l with
  | [] => None
  | (k', t) :: r => if String.eqb k k' then Some t else aget k r
  end.

Definition amem (k : string) (l : list (string * tree)) : bool :=
  match aget k l with Some _ => true | None => false end.

(* d[k] = v : an existing key keeps its place, a new one goes to the end *)
Fixpoint aset (k : string) (v : tree) (l : list (string * tree)) : list (string * tree) :=
  match l with
  | [] => [(k, v)]
  | (k', t) :: r => if String.eqb k k' then (k', v) :: r else (k', t) :: aset k v r
  end.

Fixpoint adel (k : string) (l : list (string * tree)) : list (string * tree) :=
  match l with
  | [] => []
  | (k', t) :: r => if String.eqb k k' then adel k r else (k', t) :: adel k r
  end.

(* obj[k], obj[k] = v, del obj[k] on a plain Python object *)
Definition idx (k : string) (t : tree) : result tree :=
  match t with
  | Leaf _ => Err ENotMap
  | Node kids => match aget k kids with Some c => Ok c | None => Err EKey end
  end.

Definition idx_set (k : string) (v : tree) (t : tree) : result tree :=
  match t with
  | Leaf _ => Err ENotMap
  | Node kids => Ok (Node (aset k v kids))
  end.

Definition idx_del (k : string) (t : tree) : result tree :=
  match t with
  | Leaf _ => Err ENotMap
  | Node kids => if amem k kids then Ok (Node (adel k kids)) else Err EKey
  end.

(* ------------------------------------------------------------------ nested indexing (the reference)
   config[k1][k2]...[kn],  config[k1]...[kn] = v,  del config[k1]...[kn]  with plain keys *)
Fixpoint nget (ks : list string) (t : tree) : result tree :=
  match ks with
  | [] => Ok t
  | k :: r => bind (idx k t) (nget r)
  end.

Fixpoint nset (ks : list string) (v : tree) (t : tree) : result tree :=
  match ks with
  | [] => Err EKey                       (* no key: not an item assignment *)
  | [k] => idx_set k v t
  | k :: r => bind (idx k t) (fun c => bind (nset r v c) (fun c' => idx_set k c' t))
  end.

Fixpoint ndel (ks : list string) (t : tree) : result tree :=
  match ks with
  | [] => Err EKey
  | [k] => idx_del k t
  | k :: r => bind (idx k t) (fun c => bind (ndel r c) (fun c' => idx_set k c' t))
  end.

(* ------------------------------------------------------------------ key paths *)
Definition slash : ascii := "/"%char.

(* str.split('/') : always at least one part *)
Fixpoint split_slash (s : string) : list string :=
  match s with
  | EmptyString => [EmptyString]
  | String c r =>
      let ps := split_slash r in
      if Ascii.eqb c slash then EmptyString :: ps
      else match ps with
           | p :: q => String c p :: q
           | [] => [String c EmptyString]
           end
  end.

Fixpoint join_slash (ks : list string) : string :=
  match ks with
  | [] => EmptyString
  | [k] => k
  | k :: r => (k ++ String slash (join_slash r))%string
  end.

Fixpoint no_slash (s : string) : bool :=
  match s with
  | EmptyString => true
  | String c r => negb (Ascii.eqb c slash) && no_slash r
  end.

(* SiftConfig.__keytransform__ : one part -> that string, 2..3 parts -> the list, more -> ValueError *)
Definition keytransform (key : string) : result (list string) :=
  let ps := split_slash key in
  if (3 <? Z.of_nat (List.length ps)) then Err ETooDeep else Ok ps.

(* SiftConfig.__getitem__ / __setitem__ / __delitem__, as written (one case per depth) *)
Definition getitem (key : string) (store : tree) : result tree :=
  match keytransform key with
  | Err e => Err e
  | Ok [a] => idx a store
  | Ok [a; b] => bind (idx a store) (idx b)
  | Ok [a; b; c] => bind (bind (idx a store) (idx b)) (idx c)
  | Ok _ => Err ETooDeep                 (* not reachable: keytransform yields 1..3 parts *)
  end.

Definition setitem (key : string) (v : tree) (store : tree) : result tree :=
  match keytransform key with
  | Err e => Err e
  | Ok [a] => idx_set a v store
  | Ok [a; b] =>
      bind (idx a store) (fun i1 =>
      bind (idx_set b v i1) (fun i1' => idx_set a i1' store))
  | Ok [a; b; c] =>
      bind (idx a store) (fun i1 =>
      bind (idx b i1) (fun i2 =>
      bind (idx_set c v i2) (fun i2' =>
      bind (idx_set b i2' i1) (fun i1' => idx_set a i1' store))))
  | Ok _ => Err ETooDeep
  end.

Definition delitem (key : string) (store : tree) : result tree :=
  match keytransform key with
  | Err e => Err e
  | Ok [a] => idx_del a store
  | Ok [a; b] =>
      bind (idx a store) (fun i1 =>
      bind (idx_del b i1) (fun i1' => idx_set a i1' store))
  | Ok [a; b; c] =>
      bind (idx a store) (fun i1 =>
      bind (idx b i1) (fun i2 =>
      bind (idx_del c i2) (fun i2' =>
      bind (idx_set b i2' i1) (fun i1' => idx_set a i1' store))))
  | Ok _ => Err ETooDeep
  end.

(* keys usable both ways: one to three levels, none containing the separator *)
Definition plain_keys (ks : list string) : Prop :=
  ks <> [] /\ forallb no_slash ks = true /\ (List.length ks <= 3)%nat.

(* two key lists address unrelated entries: they part ways at some level *)
Fixpoint diverge (ks ks' : list string) : bool :=
  match ks, ks' with
  | k :: r, k' :: r' => if String.eqb k k' then diverge r r' else true
  | _, _ => false
  end.

(* ------------------------------------------------------------------ preparing for YAML
   _array_or_tuple_to_list: for every value of every (nested) dict, ndarray -> .tolist() (deep),
   tuple -> list(value) (one level); everything else is left as it is *)
Fixpoint tolist (v : val) : val :=
  match v with
  | VArr l => VList (map tolist l)
  | x => x
  end.

Definition listify_val (v : val) : val :=
  match v with
  | VArr l => VList (map tolist l)
  | VTuple l => VList l
  | x => x
  end.

Fixpoint listify (t : tree) : tree :=
  match t with
  | Leaf v => Leaf (listify_val v)
  | Node kids => Node (map (fun kt => match kt with (k, c) => (k, listify c) end) kids)
  end.

(* the conversion works on a shallow copy of the store: values of nested dicts are converted in
   place, so after an export the live configuration itself has changed below the first level.
   (C18 does not speak about this; property C19 does and proposes that _array_or_tuple_to_list build a
   copy.  Either way the documents written are [listify]; the check probes which of the two the code
   does and uses OYamlFile/OYamlText or OYamlFilePure/OYamlTextPure accordingly.) *)
Definition store_after_export (t : tree) : tree :=
  match t with
  | Leaf v => Leaf v
  | Node kids => Node (map (fun kt => match kt with
                                      | (k, Leaf v) => (k, Leaf v)
                                      | (k, Node g) => (k, listify (Node g))
                                      end) kids)
  end.

(* "same options, tuples may become lists": equality that does not look at the kind of a sequence *)
Definition list_sim {A} (f : A -> A -> bool) : list A -> list A -> bool :=
  fix go (l m : list A) {struct l} : bool :=
  match l, m with
  | [], [] => true
  | x :: l', y :: m' => f x y && go l' m'
  | _, _ => false
  end.

Fixpoint val_sim (a b : val) {struct a} : bool :=
  match a, b with
  | VNone, VNone => true
  | VBool x, VBool y => Bool.eqb x y
  | VInt x, VInt y => Z.eqb x y
  | VFloat x, VFloat y => String.eqb x y
  | VStr x, VStr y => String.eqb x y
  | (VList l | VTuple l | VArr l), (VList m | VTuple m | VArr m) => list_sim val_sim l m
  | _, _ => false
  end.

Definition kids_sim (f : tree -> tree -> bool) : list (string * tree) -> list (string * tree) -> bool :=
  fix go (l m : list (string * tree)) {struct l} : bool :=
  match l, m with
  | [], [] => true
  | (k, x) :: l', (k', y) :: m' => String.eqb k k' && f x y && go l' m'
  | _, _ => false
  end.

Fixpoint tree_sim (a b : tree) {struct a} : bool :=
  match a, b with
  | Leaf x, Leaf y => val_sim x y
  | Node l, Node m => kids_sim tree_sim l m
  | _, _ => false
  end.

(* documents PyYAML's FullLoader gives back unchanged: anything without an ndarray inside *)
Fixpoint val_plain (v : val) : bool :=
  match v with
  | VList l | VTuple l => forallb val_plain l
  | VArr _ => false
  | _ => true
  end.

Fixpoint tree_plain (t : tree) : bool :=
  match t with
  | Leaf v => val_plain v
  | Node kids => forallb (fun kt => match kt with (_, c) => tree_plain c end) kids
  end.

(* arrays occur only as option values (or inside arrays), never inside a list or a tuple *)
Fixpoint arr_ok (v : val) : bool :=
  match v with
  | VArr l => forallb arr_ok l
  | VList _ | VTuple _ => false
  | _ => true
  end.

Definition val_exportable (v : val) : bool :=
  match v with
  | VArr l => forallb arr_ok l
  | x => val_plain x
  end.

Fixpoint tree_exportable (t : tree) : bool :=
  match t with
  | Leaf v => val_exportable v
  | Node kids => forallb (fun kt => match kt with (_, c) => tree_exportable c end) kids
  end.

(* ------------------------------------------------------------------ configurations and YAML *)
Record config := { ctype : string; cstore : tree }.

(* a YAML document: a mapping / scalar, or a top-level sequence of such *)
Inductive ydoc := DTree (t : tree) | DSeq (l : list tree).

Definition doc_plain (d : ydoc) : bool :=
  match d with DTree t => tree_plain t | DSeq l => forallb tree_plain l end.

Definition type_doc (c : config) : tree := Node [("sift_type"%string, Leaf (VStr (ctype c)))].

(* _get_yamlsafe_dict: [{'sift_type': name}, converted copy of the store] *)
Definition yamlsafe (c : config) : list tree := [type_doc c; listify (cstore c)].

(* what a loader hands back: the sift_type object and the object installed as the store *)
Definition loaded := (tree * ydoc)%type.

Definition DEFAULT_NAME : string := "sift"%string.       (* SiftConfig.__init__(name='sift') *)
Definition UNKNOWN : string := "Unknown"%string.

(* cfg[0]['sift_type'], cfg[1] of a list of loaded objects *)
Definition split_pair (l : list tree) : result loaded :=
  match l with
  | d0 :: d1 :: _ => bind (idx "sift_type"%string d0) (fun ty => Ok (ty, DTree d1))
  | _ => Err EYaml
  end.

Definition doc_tree (d : ydoc) : tree :=
  match d with DTree t => t | DSeq l => Leaf (VList []) end.

(* what the property asks of a write-then-read: same sift type, same options up to tuple -> list *)
Definition roundtrip_spec (c : config) : result loaded :=
  Ok (Leaf (VStr (ctype c)), DTree (listify (cstore c))).

Section Yaml.
  Variable ytext : Type.
  Variable dump : ydoc -> ytext.                 (* yaml.dump(obj) *)
  Variable dump_all : list ydoc -> ytext.        (* yaml.dump_all(objs, f) *)
  Variable load : ytext -> option ydoc.          (* yaml.load: exactly one document, else it raises *)
  Variable load_all : ytext -> list ydoc.        (* list(yaml.load_all(f)) *)

  (* to_yaml_file: dump_all of the two parts = two documents *)
  Definition to_yaml_file (c : config) : ytext := dump_all (map DTree (yamlsafe c)).

  (* from_yaml_file: one document -> store, type 'Unknown'; otherwise cfg[0]['sift_type'], cfg[1] *)
  Definition from_yaml_file (t : ytext) : result loaded :=
    match load_all t with
    | [d] => Ok (Leaf (VStr UNKNOWN), d)
    | d0 :: d1 :: _ => bind (idx "sift_type"%string (doc_tree d0)) (fun ty => Ok (ty, d1))
    | [] => Err EYaml
    end.

  (* to_yaml_text: dump of the two-element list = ONE document holding a sequence *)
  Definition to_yaml_text (c : config) : ytext := dump (DSeq (yamlsafe c)).

  (* from_yaml_stream before the repair: whatever the single document is becomes the store and the
     type stays the constructor default *)
  Definition from_yaml_stream_v0 (t : ytext) : result loaded :=
    match load t with
    | Some d => Ok (Leaf (VStr DEFAULT_NAME), d)
    | None => Err EYaml
    end.

  (* from_yaml_stream, repaired: a sequence document is the pair written by to_yaml_text *)
  Definition from_yaml_stream (t : ytext) : result loaded :=
    match load t with
    | Some (DSeq l) => split_pair l
    | Some (DTree d) => Ok (Leaf (VStr UNKNOWN), DTree d)
    | None => Err EYaml
    end.
End Yaml.

(* the trivial PyYAML: a text IS its list of documents (used to evaluate the model; it meets the contract) *)
Definition dumpI (d : ydoc) : list ydoc := [d].
Definition dump_allI (ds : list ydoc) : list ydoc := ds.
Definition loadI (t : list ydoc) : option ydoc := match t with [d] => Some d | _ => None end.
Definition load_allI (t : list ydoc) : list ydoc := t.

Definition file_roundtrip (c : config) : result loaded :=
  from_yaml_file (list ydoc) load_allI (to_yaml_file (list ydoc) dump_allI c).
Definition text_roundtrip (c : config) : result loaded :=
  from_yaml_stream (list ydoc) loadI (to_yaml_text (list ydoc) dumpI c).
Definition text_roundtrip_v0 (c : config) : result loaded :=
  from_yaml_stream_v0 (list ydoc) loadI (to_yaml_text (list ydoc) dumpI c).

(* to_yaml_file and from_yaml_file end with a log line that formats the configuration (__str__).  Before
   the repair __str__ called .keys() on the entries named imf_opts / envelope_opts / extrema_opts whatever
   they held, so a configuration with one of them set to None (the functions' own default) - or to any
   non-dict - could be neither saved to nor loaded from a file: AttributeError after the file was written *)
Definition LOWER_LEVEL : list string := ["imf_opts"; "envelope_opts"; "extrema_opts"]%string.

Definition str_ok_v0 (s : tree) : bool :=
  match s with
  | Node kids => forallb (fun kt => match kt with
                                    | (k, Leaf _) => negb (existsb (String.eqb k) LOWER_LEVEL)
                                    | (_, Node _) => true
                                    end) kids
  | Leaf _ => false
  end.

Definition file_roundtrip_v0 (c : config) : result loaded :=
  if str_ok_v0 (cstore c)
  then bind (file_roundtrip c) (fun r => if str_ok_v0 (doc_tree (snd r)) then Ok r else Err ENotMap)
  else Err ENotMap.

(* ------------------------------------------------------------------ effective options of a call
   Tables (generated from the source by harness/gen_tables.py, see gen/Gen_Defaults.v):
   sigtab : function -> parameters in order with their default (None = required);
   fbtab  : function -> option parameter -> (test, literal) for `if not p:` (test = true) or
            `if p is None:` (test = false) followed by `p = {literal}`. *)
Definition sigtab := list (string * list (string * option tree)).
Definition fbtab := list (string * list (string * (bool * tree))).

Fixpoint lookup {A} (k : string) (l : list (string * A)) : option A :=
  match l with
  | [] => None
  | (k', a) :: r => if String.eqb k k' then Some a else lookup k r
  end.

Definition mem_str (k : string) (l : list string) : bool := existsb (String.eqb k) l.

(* Python truthiness of an option value (`not x`) *)
Definition falsy (t : tree) : bool :=
  match t with
  | Leaf VNone | Leaf (VBool false) | Leaf (VInt 0) | Leaf (VStr EmptyString)
  | Leaf (VList []) | Leaf (VTuple []) | Node [] => true
  | _ => false
  end.

Definition is_none (t : tree) : bool := match t with Leaf VNone => true | _ => false end.

Definition params (sigs : sigtab) (fn : string) : list (string * option tree) :=
  match lookup fn sigs with Some l => l | None => [] end.

Definition sig_default (sigs : sigtab) (fn p : string) : tree :=
  match lookup p (params sigs fn) with Some (Some t) => t | _ => Leaf VNone end.

(* value a function sees for parameter p when called with keyword dict d *)
Definition arg_value (sigs : sigtab) (fn : string) (d : tree) (p : string) : tree :=
  match d with
  | Node kids => match aget p kids with Some t => t | None => sig_default sigs fn p end
  | Leaf _ => sig_default sigs fn p
  end.

(* `if not p: p = {...}` / `if p is None: p = {...}` at the top of function fn *)
Definition resolve (fbs : fbtab) (fn p : string) (given : tree) : tree :=
  match lookup fn fbs with
  | Some l => match lookup p l with
              | Some (by_truth, lit) => if (if by_truth then falsy given else is_none given) then lit else given
              | None => given
              end
  | None => given
  end.

Definition STAGE_KEYS : list string := ["imf_opts"; "envelope_opts"; "extrema_opts"]%string.
Definition IMF_SKIP : list string := ["X"; "envelope_opts"; "extrema_opts"]%string.
Definition ENV_SKIP : list string := ["X"; "mode"; "extrema_opts"; "ret_extrema"]%string.
Definition EXT_SKIP : list string := ["X"; "mode"; "loc_pad_opts"; "mag_pad_opts"]%string.

(* the function whose own fall-back applies to a missing imf_opts: sift for the classic and the
   ensemble variants (they call sift), get_next_imf_mask for mask_sift *)
Definition imf_resolver (variant : string) : string :=
  if String.eqb variant "mask_sift" then "get_next_imf_mask"%string else "sift"%string.

Definition stage_names (sigs : sigtab) (fn : string) (skip : list string) : list string :=
  filter (fun p => negb (mem_str p skip)) (map fst (params sigs fn)).

Definition tag (pre p : string) : string := (pre ++ p)%string.

(* every value each stage ends up working with when `variant(X, **opts)` is called *)
Definition effective_options (sigs : sigtab) (fbs : fbtab) (variant : string) (opts : tree)
  : list (string * tree) :=
  let top := stage_names sigs variant ("X"%string :: STAGE_KEYS) in
  let io := resolve fbs (imf_resolver variant) "imf_opts" (arg_value sigs variant opts "imf_opts") in
  let eo := resolve fbs "get_next_imf" "envelope_opts" (arg_value sigs variant opts "envelope_opts") in
  let xo := resolve fbs "interp_envelope" "extrema_opts" (arg_value sigs variant opts "extrema_opts") in
  map (fun p => (tag "top/" p, arg_value sigs variant opts p)) top
  ++ map (fun p => (tag "imf_opts/" p, arg_value sigs "get_next_imf" io p))
         (stage_names sigs "get_next_imf" IMF_SKIP)
  ++ map (fun p => (tag "envelope_opts/" p, arg_value sigs "interp_envelope" eo p))
         (stage_names sigs "interp_envelope" ENV_SKIP)
  ++ map (fun p => (tag "extrema_opts/" p, arg_value sigs "get_padded_extrema" xo p))
         (stage_names sigs "get_padded_extrema" EXT_SKIP)
  ++ map (fun p => (tag "extrema_opts/" p,
                    resolve fbs "get_padded_extrema" p (arg_value sigs "get_padded_extrema" xo p)))
         ["loc_pad_opts"; "mag_pad_opts"]%string.

Definition keys_of (t : tree) : list string :=
  match t with Node kids => map fst kids | Leaf _ => [] end.

Definition sub_keys (t : tree) (k : string) : list string :=
  match t with
  | Node kids => match aget k kids with Some c => keys_of c | None => [] end
  | Leaf _ => []
  end.

(* `variant(X, **opts)` binds: every key is a parameter of the function it is unpacked into and
   does not collide with an argument that function's caller passes itself *)
Definition keys_accepted (sigs : sigtab) (variant : string) (opts : tree) : bool :=
  forallb (fun k => mem_str k (stage_names sigs variant ["X"%string])) (keys_of opts)
  && forallb (fun k => mem_str k (stage_names sigs "get_next_imf" IMF_SKIP)) (sub_keys opts "imf_opts")
  && forallb (fun k => mem_str k (stage_names sigs "interp_envelope" ENV_SKIP)) (sub_keys opts "envelope_opts")
  && forallb (fun k => mem_str k (stage_names sigs "get_padded_extrema" ["X"; "mode"]%string))
             (sub_keys opts "extrema_opts").

(* ------------------------------------------------------------------ rendering (DESIGN A.3) *)
Definition enc_str (s : string) : list Z :=
  Z.of_nat (String.length s) :: map (fun c => Z.of_nat (nat_of_ascii c)) (list_ascii_of_string s).

Fixpoint enc_val (v : val) : list Z :=
  match v with
  | VNone => [0]
  | VBool b => [1; if b then 1 else 0]
  | VInt z => [2; z]
  | VFloat r => 3 :: enc_str r
  | VStr s => 4 :: enc_str s
  | VList l => 5 :: Z.of_nat (List.length l) :: List.concat (map enc_val l)
  | VTuple l => 6 :: Z.of_nat (List.length l) :: List.concat (map enc_val l)
  | VArr l => 7 :: Z.of_nat (List.length l) :: List.concat (map enc_val l)
  end.

(* dict entries are rendered in key order (code-point order, as Python sorts ASCII strings): two dicts
   are compared as Python compares them, without regard to insertion order *)
Fixpoint str_leb (a b : string) : bool :=
  match a, b with
  | EmptyString, _ => true
  | String _ _, EmptyString => false
  | String x a', String y b' =>
      let nx := nat_of_ascii x in
      let ny := nat_of_ascii y in
      if Nat.ltb nx ny then true else if Nat.ltb ny nx then false else str_leb a' b'
  end.

Fixpoint insert_key {A} (k : string) (a : A) (l : list (string * A)) : list (string * A) :=
  match l with
  | [] => [(k, a)]
  | (k', a') :: r => if str_leb k k' then (k, a) :: l else (k', a') :: insert_key k a r
  end.

Definition sort_keys {A} (l : list (string * A)) : list (string * A) :=
  fold_right (fun ka acc => insert_key (fst ka) (snd ka) acc) [] l.

Fixpoint enc_tree (t : tree) : list Z :=
  match t with
  | Leaf v => 8 :: enc_val v
  | Node kids => 9 :: Z.of_nat (List.length kids)
                 :: List.concat (map (fun ke => enc_str (fst ke) ++ snd ke)
                                     (sort_keys (map (fun kt => match kt with (k, c) => (k, enc_tree c) end) kids)))
  end.

Definition enc_doc (d : ydoc) : list Z :=
  match d with
  | DTree t => enc_tree t
  | DSeq l => 5 :: Z.of_nat (List.length l) :: List.concat (map enc_tree l)
  end.

Definition err_code (e : err) : Z :=
  match e with EKey => -4 | ENotMap => -3 | ETooDeep => -2 | EYaml => -9 end.

Definition enc_res (r : result tree) : list Z :=
  match r with Ok t => 0 :: enc_tree t | Err e => [err_code e] end.

Definition enc_loaded (r : result loaded) : list Z :=
  match r with Ok (ty, d) => 0 :: enc_tree ty ++ enc_doc d | Err e => [err_code e] end.

(* ------------------------------------------------------------------ edit histories *)
Inductive op :=
| OGet (key : string) | OSet (key : string) (v : tree) | ODel (key : string)        (* by key path *)
| NGet (ks : list string) | NSet (ks : list string) (v : tree) | NDel (ks : list string) (* nested *)
| OYamlFile | OYamlText | OYamlTextV0
| OYamlFilePure | OYamlTextPure      (* the same round trips when the export works on a full copy *)
| OKeys (key : string).

(* one edit: (observation, configuration afterwards); a failed write leaves the store alone *)
Definition step (c : config) (o : op) : list Z * config :=
  let keep (r : result tree) : list Z * config :=
    match r with
    | Ok s => ([0], {| ctype := ctype c; cstore := s |})
    | Err e => ([err_code e], c)
    end in
  let exported := {| ctype := ctype c; cstore := store_after_export (cstore c) |} in
  match o with
  | OGet k => (enc_res (getitem k (cstore c)), c)
  | OSet k v => keep (setitem k v (cstore c))
  | ODel k => keep (delitem k (cstore c))
  | NGet ks => (enc_res (nget ks (cstore c)), c)
  | NSet ks v => keep (nset ks v (cstore c))
  | NDel ks => keep (ndel ks (cstore c))
  | OYamlFile => (enc_loaded (file_roundtrip c), exported)
  | OYamlText => (enc_loaded (text_roundtrip c), exported)
  | OYamlTextV0 => (enc_loaded (text_roundtrip_v0 c), exported)
  | OYamlFilePure => (enc_loaded (file_roundtrip c), c)
  | OYamlTextPure => (enc_loaded (text_roundtrip c), c)
  | OKeys k => (match keytransform k with
                | Ok ps => 0 :: Z.of_nat (List.length ps) :: List.concat (map enc_str ps)
                | Err e => [err_code e]
                end, c)
  end.

(* the whole history: after every edit the observation and the full store *)
Fixpoint run_ops (c : config) (ops : list op) : list (list Z) :=
  match ops with
  | [] => []
  | o :: r => let '(obs, c') := step c o in obs :: enc_tree (cstore c') :: run_ops c' r
  end.

(* the same with the store summarised by its hash (NpLite.hashL) to keep outputs small *)
Fixpoint run_ops_h (c : config) (ops : list op) : list (list Z) :=
  match ops with
  | [] => []
  | o :: r => let '(obs, c') := step c o in obs :: [hashL (enc_tree (cstore c'))] :: run_ops_h c' r
  end.
