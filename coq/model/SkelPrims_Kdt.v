(* Control-skeleton tie of emd/cycles.py kdt_match / _unique_inds (notes/TIE_KDT.md) - THE REVIEWABLE PART:
   what each opaque primitive of the generated programs (gen/Gen_Skel_Kdt.v) stands for, the initial
   environments, and how a result of the model (model/KdtMatch.v) shows at the Python level.
   Definitions only; the proofs are in proofs/SkelFacts_Kdt.v.

   Arrays at the Python level:  a 1-d int array = VList of VNat ([vnats]); a 1-d bool array = VList of VBool
   ([vbools]); a list of index arrays = VList of [vnats]; the marks matrix II = VList of rows, each a [vnats] of
   0/1 entries; the content of an uninitialised array (np.empty) = an oracle; the int -1 = VOpaque "-1" [].
   The query result (D, inds) is the ORACLE of the model: the two arrays are the tagged opaque values "D" /
   "inds" (2-d) or "D1" / "inds1" (the squeezed 1-d form scipy returns for k=1), and every primitive that reads
   them does so through the model's own accessors ([column 0 D c], [nth c (nth r inds []) 0]); the query's
   contract "the table has K columns" is built into np.zeros_like / inds.shape (rows of K cells).
   N11x (harness/gen_skel_kdt.py): the statement selected.extend(E) is the store
   selected = "selected.extend(E)"(selected, ...), the primitive returning the list after the in-place extend. *)
From Coq Require Import String List Bool Arith ZArith Lia.
From EmdV Require Import lib.NpLite lib.PyLoop lib.PyLoopTools gen.Gen_Skel_Kdt model.KdtMatch.
Import ListNotations.
Open Scope string_scope.
Open Scope nat_scope.

(* ---- list operations the numpy expressions are mapped to --------------------------------------- *)
(* a[m] with m a boolean mask *)
Definition select {A} (l : list A) (m : list bool) : list A := map fst (filter snd (combine l m)).
(* a != b, elementwise *)
Definition neq_list (a b : list nat) : list bool := map (fun p => negb (Nat.eqb (fst p) (snd p))) (combine a b).
(* a[i] = v *)
Definition set_nth {A} (i : nat) (v : A) (l : list A) : list A := (firstn i l ++ v :: skipn (S i) l)%list.
(* np.argmin of a 1-d array: the first index attaining the minimum *)
Fixpoint argmin_idx (vals : list Z) : nat :=
  match vals with
  | [] => 0
  | v :: t => match t with
              | [] => 0
              | _ :: _ => let j := argmin_idx t in if (v <=? nth j t 0)%Z then 0 else S j
              end
  end.
(* np.argmax of a 1-d array: the first index attaining the maximum *)
Fixpoint argmax_idx (vals : list nat) : nat :=
  match vals with
  | [] => 0
  | v :: t => match t with
              | [] => 0
              | _ :: _ => let j := argmax_idx t in if (nth j t 0 <=? v)%nat then 0 else S j
              end
  end.
(* a[idx] = vals with idx an index array: one store per index, in order *)
Fixpoint scatter {A} (l : list A) (idx : list nat) (vals : list A) : list A :=
  match idx, vals with
  | i :: it, v :: vt => scatter (set_nth i v l) it vt
  | _, _ => l
  end.
Definition nonzero (n : nat) : bool := negb (Nat.eqb n 0).

Section KdtValues.
  Variable V : Type.

  Definition vnats (l : list nat) : val V := VList (map VNat l).
  Definition vbools (l : list bool) : val V := VList (map VBool l).

  Fixpoint nats_of (l : list (val V)) : option (list nat) :=
    match l with
    | [] => Some []
    | VNat n :: t => match nats_of t with Some r => Some (n :: r) | None => None end
    | _ => None
    end.
  Fixpoint bools_of (l : list (val V)) : option (list bool) :=
    match l with
    | [] => Some []
    | VBool b :: t => match bools_of t with Some r => Some (b :: r) | None => None end
    | _ => None
    end.
  (* a list of int arrays *)
  Fixpoint natss_of (l : list (val V)) : option (list (list nat)) :=
    match l with
    | [] => Some []
    | VList r :: t => match nats_of r, natss_of t with Some a, Some b => Some (a :: b) | _, _ => None end
    | _ => None
    end.
End KdtValues.
Arguments vnats {V}. Arguments vbools {V}. Arguments nats_of {V}. Arguments bools_of {V}. Arguments natss_of {V}.

(* ============================================================================================== *)
(* _unique_inds(ar): the sorted unique values of ar and, for each, the positions where it occurs   *)
(* ============================================================================================== *)
(* THE MODEL (in the terms of model/KdtMatch.v: [claimant Dc Ic y] is the arg-min over
   [positions (Nat.eqb y) Ic]; the v0 model used [nodup_sorted (sort_nat Ic)] for the unique values) *)
Definition unique_inds_model (Ic : list nat) : list nat * list (list nat) :=
  let u := nodup_sorted (sort_nat Ic) in (u, map (fun y => positions (Nat.eqb y) Ic) u).

Section UniquePrims.
  Variable V : Type.
  Variable junk : nat -> bool.               (* the content of the uninitialised array np.empty returns *)

  Definition unique_table : list (string * handler V) :=
    [ (* a 1-d int array stays what it is *)
      ("np.asanyarray(ar).flatten()",
        fun args kw => match args, kw with
                       | [VList l], [] => match nats_of l with Some ns => Ok (vnats ns) | None => Bad end
                       | _, _ => Bad end);
      ("np.sort",
        fun args kw => match args, kw with
                       | [VList l], [] => match nats_of l with Some ns => Ok (vnats (sort_nat ns)) | None => Bad end
                       | _, _ => Bad end);
      ("aux.shape", fun args kw => match args, kw with [VList l], [] => Ok (VList [VNat (length l)]) | _, _ => Bad end);
      ("np.bool_", fun args kw => match args, kw with [], [] => Ok (VOpaque "np.bool_" []) | _, _ => Bad end);
      (* np.empty(shape, dtype=np.bool_): n uninitialised cells = whatever the oracle [junk] says *)
      ("np.empty",
        fun args kw => match args, kw with
                       | [VList [VNat n]], [(k, d)] =>
                           if String.eqb k "dtype" && is_opaque0 d "np.bool_" then Ok (vbools (map junk (seq 0 n))) else Bad
                       | _, _ => Bad end);
      (* mask[:1] = b: the first cell, if there is one *)
      ("mask[:1] =",
        fun args kw => match args, kw with
                       | [VList m; VBool b], [] =>
                           match bools_of m with
                           | Some c => Ok (vbools (match c with [] => [] | _ :: t => b :: t end))
                           | None => Bad
                           end
                       | _, _ => Bad end);
      ("aux[1:]",
        fun args kw => match args, kw with
                       | [VList l], [] => match nats_of l with Some ns => Ok (vnats (tl ns)) | None => Bad end
                       | _, _ => Bad end);
      ("aux[:-1]",
        fun args kw => match args, kw with
                       | [VList l], [] => match nats_of l with Some ns => Ok (vnats (removelast ns)) | None => Bad end
                       | _, _ => Bad end);
      (* elementwise != of two int arrays of the same length *)
      ("!=",
        fun args kw => match args, kw with
                       | [VList a; VList b], [] =>
                           match nats_of a, nats_of b with
                           | Some x, Some y => if Nat.eqb (length x) (length y) then Ok (vbools (neq_list x y)) else Bad
                           | _, _ => Bad
                           end
                       | _, _ => Bad end);
      (* mask[1:] = bs: all cells but the first *)
      ("mask[1:] =",
        fun args kw => match args, kw with
                       | [VList m; VList bs], [] =>
                           match bools_of m, bools_of bs with
                           | Some c, Some d =>
                               if Nat.eqb (length (tl c)) (length d)
                               then Ok (vbools (match c with [] => [] | h :: _ => h :: d end))
                               else Exc "ValueError"
                           | _, _ => Bad
                           end
                       | _, _ => Bad end);
      (* aux[mask], mask a boolean array of the same length *)
      ("getitem",
        fun args kw => match args, kw with
                       | [VList a; VList m], [] =>
                           match nats_of a, bools_of m with
                           | Some x, Some b => if Nat.eqb (length x) (length b) then Ok (vnats (select x b)) else Exc "IndexError"
                           | _, _ => Bad
                           end
                       | _, _ => Bad end);
      ("[np.where(ar == ii)[0] for ii in aux[mask]]",
        fun args kw => match args, kw with
                       | [VList ar; VList a; VList m], [] =>
                           match nats_of ar, nats_of a, bools_of m with
                           | Some r, Some x, Some b =>
                               if Nat.eqb (length x) (length b)
                               then Ok (VList (map (fun y => vnats (positions (Nat.eqb y) r)) (select x b)))
                               else Exc "IndexError"
                           | _, _, _ => Bad
                           end
                       | _, _ => Bad end) ].
  Definition unique_prims : prims V := prims_of unique_table.

  Definition unique_names : list string := Eval cbv in assigned prog_unique_inds params_unique_inds.
  Definition unique_env0 (Ic : list nat) : env V := frame params_unique_inds unique_names [vnats Ic].

  (* how the model's pair shows in Python: the tuple (array of unique values, list of index arrays) *)
  Definition unique_value (r : list nat * list (list nat)) : val V :=
    VList [vnats (fst r); VList (map vnats (snd r))].
  Definition unique_render (r : list nat * list (list nat)) : outcome V := Return (unique_value r).
End UniquePrims.

(* ============================================================================================== *)
(* kdt_match below its import: tree, query, K=1 reshaping, column loop, winners, final extraction  *)
(* ============================================================================================== *)
(* row m of the marks matrix II when the model's mark of that row is m: all zeros, or a single 1 *)
Definition onehot (K : nat) (m : option nat) : list nat :=
  match m with
  | None => repeat 0 K
  | Some c => (repeat 0 c ++ 1 :: repeat 0 (K - S c))%list
  end.

Definition is_nil {A} (l : list A) : bool := match l with [] => true | _ => false end.

Section KdtPrims.
  Variable V : Type.
  (* THE ORACLE: the table the K-nearest-neighbour query returns, as in model/KdtMatch.v *)
  Variable D : list (list Z).
  Variable inds : list (list nat).
  Variable K ny : nat.                        (* K columns; ny = y.shape[0] = the "no neighbour" index *)
  Variable squeezed : bool.                   (* the query returned 1-d arrays (scipy does for k=1) *)

  (* final[r]: a candidate, or -1 *)
  Definition vopt (o : option nat) : val V := match o with Some y => VNat y | None => VOpaque "-1" [] end.
  Fixpoint opts_of (l : list (val V)) : option (list (option nat)) :=
    match l with
    | [] => Some []
    | v :: t =>
        match (match v with
               | VNat n => Some (Some n)
               | VOpaque tag [] => if String.eqb tag "-1" then Some None else None
               | _ => None
               end), opts_of t with
        | Some a, Some b => Some (a :: b)
        | _, _ => None
        end
    end.
  Definition is_some {A} (o : option A) : bool := match o with Some _ => true | None => false end.

  Definition Dcol (c : nat) : list Z := column 0%Z D c.
  Definition Icol (c : nat) : list nat := column 0 inds c.

  Definition kdt_table : list (string * handler V) :=
    [ ("spatial.cKDTree", fun args kw => match args, kw with
                                         | [y], [] => if is_opaque0 y "y" then Ok (VOpaque "kdt" []) else Bad
                                         | _, _ => Bad end);
      (* the query: the oracle's table, 2-d or squeezed; x and the distance bound are only passed on *)
      ("kdt.query(x, k=K, distance_upper_bound=distance_upper_bound)",
        fun args kw => match args, kw with
                       | [t; _; VNat k; _], [] =>
                           if is_opaque0 t "kdt" && Nat.eqb k K
                           then Ok (if squeezed then VList [VOpaque "D1" []; VOpaque "inds1" []]
                                    else VList [VOpaque "D" []; VOpaque "inds" []])
                           else Bad
                       | _, _ => Bad end);
      ("D.ndim", fun args kw => match args, kw with
                                | [d], [] => if is_opaque0 d "D1" then Ok (VNat 1)
                                             else if is_opaque0 d "D" then Ok (VNat 2) else Bad
                                | _, _ => Bad end);
      ("D[:, None]", fun args kw => match args, kw with
                                    | [d], [] => if is_opaque0 d "D1" then Ok (VOpaque "D" []) else Bad
                                    | _, _ => Bad end);
      ("inds[:, None]", fun args kw => match args, kw with
                                       | [i], [] => if is_opaque0 i "inds1" then Ok (VOpaque "inds" []) else Bad
                                       | _, _ => Bad end);
      (* II: one all-zero row of K cells per row of the table *)
      ("np.zeros_like", fun args kw => match args, kw with
                                       | [i], [] => if is_opaque0 i "inds"
                                                    then Ok (VList (map vnats (map (fun _ => repeat 0 K) inds))) else Bad
                                       | _, _ => Bad end);
      ("range", range_handler);
      ("inds[:, ii]", fun args kw => match args, kw with
                                     | [i; VNat c], [] => if is_opaque0 i "inds" then Ok (vnats (Icol c)) else Bad
                                     | _, _ => Bad end);
      (* the sibling function, as tied by skeleton_unique_inds *)
      ("_unique_inds", fun args kw => match args, kw with
                                      | [VList l], [] => match nats_of l with
                                                         | Some ns => Ok (unique_value V (unique_inds_model ns))
                                                         | None => Bad end
                                      | _, _ => Bad end);
      (* ix[jj] = position, inside uni_inds[jj], of the first smallest distance; np.argmin of nothing raises *)
      ("[np.argmin(D[uni_inds[jj], ii]) for jj in range(len(uni))]",
        fun args kw => match args, kw with
                       | [d; VList ui; VNat c; VList u], [] =>
                           match natss_of ui, nats_of u with
                           | Some pss, Some us =>
                               if is_opaque0 d "D" && Nat.eqb (length us) (length pss) then
                                 if existsb is_nil pss then Exc "ValueError"
                                 else Ok (vnats (map (fun rows => argmin_idx (map (fun r => nth r (Dcol c) 0%Z) rows)) pss))
                               else Bad
                           | _, _ => Bad
                           end
                       | _, _ => Bad end);
      (* closest_uni_inds[jj] = uni_inds[jj][ix[jj]] *)
      ("[uni_inds[jj][ix[jj]] for jj in range(len(uni))]",
        fun args kw => match args, kw with
                       | [VList ui; VList ix; VList u], [] =>
                           match natss_of ui, nats_of ix, nats_of u with
                           | Some pss, Some ixs, Some us =>
                               if Nat.eqb (length us) (length pss) && Nat.eqb (length us) (length ixs) then
                                 if forallb (fun p => Nat.ltb (snd p) (length (fst p))) (combine pss ixs)
                                 then Ok (vnats (map (fun p => nth (snd p) (fst p) 0) (combine pss ixs)))
                                 else Exc "IndexError"
                               else Bad
                           | _, _, _ => Bad
                           end
                       | _, _ => Bad end);
      (* an int is never inf *)
      ("uni[uni != np.inf]", fun args kw => match args, kw with
                                            | [VList u], [] => match nats_of u with Some us => Ok (vnats us) | None => Bad end
                                            | _, _ => Bad end);
      ("[u in selected for u in uni]",
        fun args kw => match args, kw with
                       | [VList sel; VList u], [] =>
                           match nats_of sel, nats_of u with
                           | Some ss, Some us => Ok (vbools (map (fun y => mem_nat y ss) us))
                           | _, _ => Bad
                           end
                       | _, _ => Bad end);
      ("np.array", fun args kw => match args, kw with [VList l], [] => Ok (VList l) | _, _ => Bad end);
      ("uni[bo == False]",
        fun args kw => match args, kw with
                       | [VList u; VList bo], [] =>
                           match nats_of u, bools_of bo with
                           | Some us, Some bs => if Nat.eqb (length us) (length bs) then Ok (vnats (select us (map negb bs)))
                                                 else Exc "IndexError"
                           | _, _ => Bad
                           end
                       | _, _ => Bad end);
      ("inds.shape", fun args kw => match args, kw with
                                    | [i], [] => if is_opaque0 i "inds" then Ok (VList [VNat (length inds); VNat K]) else Bad
                                    | _, _ => Bad end);
      ("int", fun args kw => match args, kw with [], [] => Ok (VOpaque "int" []) | _, _ => Bad end);
      (* np.zeros((n,)) and np.zeros((n,), dtype=int) *)
      ("np.zeros", fun args kw => match args, kw with
                                  | [VList [VNat n]], [] => Ok (vnats (repeat 0 n))
                                  | [VList [VNat n]], [(k, d)] =>
                                      if String.eqb k "dtype" && is_opaque0 d "int" then Ok (vnats (repeat 0 n)) else Bad
                                  | _, _ => Bad end);
      (* the column vector of the candidates of the rows listed *)
      ("inds[closest_uni_inds, ii, None]",
        fun args kw => match args, kw with
                       | [i; VList cl; VNat c], [] =>
                           match nats_of cl with
                           | Some rs => if is_opaque0 i "inds"
                                        then Ok (VOpaque "colvec" (map VNat (map (fun r => nth r (Icol c) 0) rs))) else Bad
                           | None => Bad
                           end
                       | _, _ => Bad end);
      (* colvec == uni: the broadcast comparison matrix, kept with its provenance until it is summed *)
      ("==", fun args kw => match args, kw with
                            | [VOpaque t ys; VList u], [] =>
                                match nats_of ys, nats_of u with
                                | Some a, Some b => if String.eqb t "colvec" then Ok (VOpaque "eq_outer" [vnats a; vnats b]) else Bad
                                | _, _ => Bad
                                end
                            | _, _ => Bad end);
      (* np.sum(matrix, axis=1): per row of the comparison, how many of uni equal it; np.sum(row): the sum *)
      ("np.sum", fun args kw => match args, kw with
                                | [VOpaque t [VList ys; VList u]], [(k, VNat 1)] =>
                                    match nats_of ys, nats_of u with
                                    | Some a, Some b =>
                                        if String.eqb t "eq_outer" && String.eqb k "axis"
                                        then Ok (vnats (map (fun y => length (filter (Nat.eqb y) b)) a)) else Bad
                                    | _, _ => Bad
                                    end
                                | [VList row], [] => match nats_of row with Some r => Ok (VNat (list_sum r)) | None => Bad end
                                | _, _ => Bad end);
      (* uni_matches[closest_uni_inds] = vals: one store per listed row, in order *)
      ("uni_matches[closest_uni_inds] =",
        fun args kw => match args, kw with
                       | [VList um; VList cl; VList vals], [] =>
                           match nats_of um, nats_of cl, nats_of vals with
                           | Some m, Some rs, Some vs =>
                               if Nat.eqb (length rs) (length vs) then
                                 if forallb (fun r => Nat.ltb r (length m)) rs then Ok (vnats (scatter m rs vs))
                                 else Exc "IndexError"
                               else Exc "ValueError"
                           | _, _, _ => Bad
                           end
                       | _, _ => Bad end);
      (* uni_matches[II[:, :ii].sum(axis=1) > 0] = z: rows with a 1 in an earlier column *)
      ("uni_matches[II[:, :ii].sum(axis=1) > 0] =",
        fun args kw => match args, kw with
                       | [VList um; VList ii; VNat c; VNat z], [] =>
                           match nats_of um, natss_of ii with
                           | Some m, Some rows =>
                               if Nat.eqb (length rows) (length m)
                               then Ok (vnats (map (fun p => if nonzero (list_sum (firstn c (fst p))) then z else snd p)
                                                   (combine rows m)))
                               else Exc "IndexError"
                           | _, _ => Bad
                           end
                       | _, _ => Bad end);
      (* II[np.where(uni_matches)[0], ii] = o: cell ii of the rows whose uni_matches entry is not 0 *)
      ("II[np.where(uni_matches)[0], ii] =",
        fun args kw => match args, kw with
                       | [VList ii; VList um; VNat c; VNat o], [] =>
                           match natss_of ii, nats_of um with
                           | Some rows, Some m =>
                               if Nat.eqb (length rows) (length m) then
                                 if forallb (fun row => Nat.ltb c (length row)) rows
                                 then Ok (VList (map vnats (map (fun p => if nonzero (snd p) then set_nth c o (fst p) else fst p)
                                                                 (combine rows m))))
                                 else Exc "IndexError"
                               else Bad
                           | _, _ => Bad
                           end
                       | _, _ => Bad end);
      (* N11x: the list after the in-place extend: the candidates of the rows just marked, in row order *)
      ("selected.extend(inds[np.where(uni_matches)[0], ii])",
        fun args kw => match args, kw with
                       | [VList sel; i; VList um; VNat c], [] =>
                           match nats_of sel, nats_of um with
                           | Some ss, Some m =>
                               if is_opaque0 i "inds"
                               then Ok (vnats (ss ++ map (fun r => nth r (Icol c) 0) (positions nonzero m))) else Bad
                           | _, _ => Bad
                           end
                       | _, _ => Bad end);
      (* np.argmax(II, axis=1); the argmax of a row without cells raises *)
      ("np.argmax", fun args kw => match args, kw with
                                   | [VList ii], [(k, VNat 1)] =>
                                       match natss_of ii with
                                       | Some rows => if String.eqb k "axis" then
                                                        if existsb is_nil rows then Exc "ValueError"
                                                        else Ok (vnats (map argmax_idx rows))
                                                      else Bad
                                       | None => Bad
                                       end
                                   | _, _ => Bad end);
      ("II.shape", fun args kw => match args, kw with
                                  | [VList ii], [] => Ok (VList [VNat (length ii); VNat K])
                                  | _, _ => Bad end);
      ("II[ii, :]", fun args kw => match args, kw with
                                   | [VList ii; VNat r], [] => match nth_error ii r with Some row => Ok row | None => Exc "IndexError" end
                                   | _, _ => Bad end);
      ("y.shape", fun args kw => match args, kw with
                                 | [y], [] => if is_opaque0 y "y" then Ok (VList [VNat ny; VOpaque "nfeatures" []]) else Bad
                                 | _, _ => Bad end);
      ("inds[ii, winner[ii]]",
        fun args kw => match args, kw with
                       | [i; VNat r; VList w], [] =>
                           match nats_of w with
                           | Some ws => if is_opaque0 i "inds" then
                                          match nth_error ws r with
                                          | Some c => Ok (VNat (nth c (nth r inds []) 0))
                                          | None => Exc "IndexError"
                                          end
                                        else Bad
                           | None => Bad
                           end
                       | _, _ => Bad end);
      ("-1", fun args kw => match args, kw with [], [] => Ok (VOpaque "-1" []) | _, _ => Bad end);
      ("final[ii] =", fun args kw => match args, kw with
                                     | [VList fin; VNat r; v], [] =>
                                         if Nat.ltb r (length fin) then Ok (VList (set_nth r v fin)) else Exc "IndexError"
                                     | _, _ => Bad end);
      (* the result is not used *)
      ("np.unique", fun args kw => match args, kw with
                                   | [VList fin], [(k, VBool true)] =>
                                       if String.eqb k "return_counts"
                                       then Ok (VList [VOpaque "unique" [VList fin]; VOpaque "counts" [VList fin]]) else Bad
                                   | _, _ => Bad end);
      (* final > -1 *)
      (">", fun args kw => match args, kw with
                           | [VList fin; m], [] =>
                               match opts_of fin with
                               | Some os => if is_opaque0 m "-1" then Ok (vbools (map is_some os)) else Bad
                               | None => Bad
                               end
                           | _, _ => Bad end);
      ("np.where", fun args kw => match args, kw with
                                  | [VList bs], [] => match bools_of bs with
                                                      | Some b => Ok (VList [vnats (positions (fun x => x) b)])
                                                      | None => Bad end
                                  | _, _ => Bad end);
      (* final[x_inds], x_inds an index array *)
      ("getitem", fun args kw => match args, kw with
                                 | [VList fin; VList xs], [] =>
                                     match nats_of xs with
                                     | Some rs => if forallb (fun r => Nat.ltb r (length fin)) rs
                                                  then Ok (VList (map (fun r => nth r fin VNone) rs)) else Exc "IndexError"
                                     | None => Bad
                                     end
                                 | _, _ => Bad end) ].
  Definition kdt_prims : prims V := prims_of kdt_table.

  Definition kdt_names : list string := Eval cbv in assigned prog_kdt_match params_kdt_match.
  (* x and distance_upper_bound are only handed to the query: any values *)
  Definition kdt_env0 (x dub : val V) : env V :=
    frame params_kdt_match kdt_names [x; VOpaque "y" []; VNat K; dub].

  (* the model's pairs show as the tuple (x_inds, y_inds) *)
  Definition kdt_render (ps : list (nat * nat)) : outcome V :=
    Return (VList [vnats (map fst ps); vnats (map snd ps)]).
End KdtPrims.
