(* Executable instance of the abstract sift layer: signals are integer lists and the numeric
   stages are replaced by deterministic integer-valued TOY oracles that are also written in
   Python (harness/toys.py) and patched into the real emd.sift, so that the control skeleton
   of get_next_imf / sift / mask_sift / ensemble_sift is compared bit-for-bit.
   The real stopping rules (sd_stop, rilling_stop) are modelled exactly (cross-multiplied
   ratios with numpy's x/0 behaviour written out); thresholds are rationals num/den. *)
From Coq Require Import ZArith List Bool Lia.
From EmdV Require Import lib.NpLite model.Extrema model.SiftCore.
Import ListNotations.
Open Scope Z_scope.

Definition V := list Z.

Fixpoint zip_with (f : Z -> Z -> Z) (a b : list Z) : list Z :=
  match a, b with
  | x :: ta, y :: tb => f x y :: zip_with f ta tb
  | _, _ => []
  end.

Definition vadd : V -> V -> V := zip_with Z.add.
Definition vsub : V -> V -> V := zip_with Z.sub.
Definition vscale (num den : Z) (v : V) : V := map (fun z => z * num / den) v.
Definition vavg (u l : V) : V := zip_with (fun a b => (a + b) / 2) u l.
Definition vzero (n : nat) : V := repeat 0 n.

Definition sumsq (v : V) : Z := zsum (map (fun z => z * z) v).
Definition sumabs (v : V) : Z := zsum (map Z.abs v).
Definition maxabs (v : V) : Z := zmax_list 0 (map Z.abs v).

(* ---- toy envelopes ---------------------------------------------------------------------- *)
Definition nmaxima (x : V) : nat := length (find_maxima x).
Definition nminima (x : V) : nat := length (find_maxima (map Z.opp x)).

Definition at_clamped (x : V) (i : Z) : Z :=
  let n := Z.of_nat (length x) in
  nth (Z.to_nat (Z.max 0 (Z.min (n - 1) i))) x 0.

(* the toy "local mean" of x at sample i, a multiple of 4, for rule r *)
Definition toy_mean_at (r : Z) (x : V) (i : Z) : Z :=
  let a := at_clamped x in
  if r =? 0 then 4 * ((a (i - 1) + 2 * a i + a (i + 1)) / 16)
  else if r =? 1 then 4 * ((a (i - 1) + a (i + 1)) / 8)
  else if r =? 2 then 4 * (a i / 8)
  else if r =? 3 then 4 * (zsum x / (4 * Z.of_nat (length x)))
  else if r =? 4 then 4 * ((a (i - 2) + a (i - 1) + a i + a (i + 1) + a (i + 2)) / 20)
  else 4 * ((3 * a i) / 16).

Definition toy_mean (r : Z) (x : V) : V :=
  map (fun i => toy_mean_at r x (Z.of_nat i)) (seq 0 (length x)).

Definition toy_amp (x : V) : Z := 8 + 4 * (maxabs x / 4).

(* upper is None iff fewer than two maxima, lower iff fewer than two minima (as the real one) *)
Definition toy_envs (r : Z) (x : V) : option (V * V) :=
  if ((nmaxima x <? 2) || (nminima x <? 2))%nat then None
  else let m := toy_mean r x in
       let d := toy_amp x in
       Some (map (fun v => v + d) m, map (fun v => v - d) m).

(* ---- the real stopping rules, exactly ----------------------------------------------------- *)
(* sd_stop: sum((proto-x1)^2)/sum(proto^2) < sd, sd = sn/sd_; 0/0 = nan and x/0 = inf compare False *)
Definition sd_stop (sn sd_ : Z) (proto x1 : V) : bool :=
  let a := sumsq (vsub proto x1) in
  let b := sumsq proto in
  negb (b =? 0) && (a * sd_ <? sn * b).

(* rilling_stop(upper, lower, sd1, sd2, tol) *)
Definition ril_exceeds (tn td : Z) (u l : Z) : bool :=
  (* |avg|/amp > t  with avg=(u+l)/2, amp=|u-l|/2 : |u+l| * td > tn * |u-l| ; amp=0: inf>t iff avg<>0 *)
  if (u - l =? 0) then negb (u + l =? 0)
  else (tn * Z.abs (u - l) <? Z.abs (u + l) * td).

Definition rilling_stop (s1n s1d s2n s2d tn td : Z) (u l : V) : bool :=
  let e1 := map (fun ul => ril_exceeds s1n s1d (fst ul) (snd ul)) (combine u l) in
  let e2 := map (fun ul => ril_exceeds s2n s2d (fst ul) (snd ul)) (combine u l) in
  let cnt := Z.of_nat (count_true e1) in
  let continue1 := (tn * Z.of_nat (length e1) <? cnt * td) in       (* mean(E > sd1) > tol *)
  let continue2 := existsb (fun b => b) e2 in
  negb (continue1 || continue2).

(* energy: 20*log10(sum X^2) - 20*log10(sum (X-imf)^2) > 20  <=>  sum X^2 > 10 * sum res^2
   (the harness discards the cases where either sum is 0 or the two sides are equal) *)
Definition energy_fires (X res : V) : bool := 10 * sumsq res <? sumsq X.

(* np.abs(next_imf).sum() < sift_thresh with sift_thresh = t2/2 *)
Definition small (t2 : Z) (v : V) : bool := 2 * sumabs v <? t2.

(* ---- configuration --------------------------------------------------------------------------
   cfg = [rule; method(0 sd,1 rilling,2 fixed); max_iters; step_num; step_den; use_energy;
          sd_num; sd_den; r1n; r1d; r2n; r2d; rtn; rtd; sift_thresh*2; cap (0 = none); v0 flag] *)
Definition cg (c : list Z) (k : nat) : Z := nth k c 0.

Definition toy_gni (c : list Z) (v0 : bool) (X : V) : gni_result V :=
  get_next_imf_gen V vsub (vscale (cg c 3) (cg c 4)) vavg (toy_envs (cg c 0))
                   (sd_stop (cg c 6) (cg c 7))
                   (rilling_stop (cg c 8) (cg c 9) (cg c 10) (cg c 11) (cg c 12) (cg c 13))
                   energy_fires (method_of (cg c 1)) (Z.to_nat (cg c 2)) (cg c 5 =? 1) v0 X.

Definition toy_sift (c : list Z) (v0 : bool) (fuel : nat) (X : V) : list V * exit_flags :=
  peel_loop V (vzero (length X)) vadd vsub (small (cg c 14)) (fun _ _ => toy_gni c v0)
            fuel (if cg c 15 =? 0 then None else Some (Z.to_nat (cg c 15))) X [].

(* ---- rendering ---------------------------------------------------------------------------- *)
Definition render_gni (r : gni_result V) : list Z :=
  match r with
  | Imf x flag n => [0; if flag then 1 else 0; Z.of_nat n] ++ x
  | ConvergeError n => [5; Z.of_nat n]
  | GniOutOfFuel => [6]
  end.

Definition b2z (b : bool) : Z := if b then 1 else 0.

Definition render_sift (r : list V * exit_flags) : list Z :=
  let '(imfs, e) := r in
  [b2z (raised e); b2z (out_of_fuel e)] ++ flat_map (fun v => v ++ [-99999]) imfs.

Definition run_toy_gni (c : list Z) (X : V) : list Z := render_gni (toy_gni c (cg c 16 =? 1) X).
Definition run_toy_sift (c : list Z) (X : V) : list Z := render_sift (toy_sift c (cg c 16 =? 1) 60 X).
