(* Model of per-cycle statistics, projection to samples, phase alignment and phase
   binning (property C14): emd/_cycles_support.py get_cycle_stat_from_samples /
   project_cycles_to_samples, emd/cycles.py get_cycle_stat / phase_align / bin_by_phase.
   Definitions only; lemmas in proofs/CycleStatFacts.v. *)
From Coq Require Import ZArith QArith List Bool Lia.
From EmdV Require Import lib.NpLite model.CycleMaps model.CycleVec model.Spectra.
Import ListNotations.
Open Scope Z_scope.

(* ---- get_cycle_stat_from_samples (109-121): any reducing function f --------------- *)
Definition cycle_stat {B} (f : list Z -> B) (cv vals : list Z) : list B :=
  map (fun k => f (select_cycle cv vals (Z.of_nat k))) (seq 0 (ncycles cv)).

(* get_cycle_stat(..., out='samples'): the statistic projected back onto the samples *)
Definition cycle_stat_samples {B} (f : list Z -> B) (cv vals : list Z) : list (option B) :=
  project_cycles_to_samples (cycle_stat f cv vals) cv.

(* the samples carrying label k, stated without indices *)
Definition samples_with_label (cv vals : list Z) (k : Z) : list Z :=
  map snd (filter (fun cvv => fst cvv =? k) (combine cv vals)).

(* ---- phase_align (506-533): scipy interp1d(kind='linear', fill_value='extrapolate') --- *)
Open Scope Q_scope.

(* np.searchsorted(xs, g, side='left'): number of knots strictly below g *)
Fixpoint searchsorted_left (xs : list Q) (g : Q) : nat :=
  match xs with
  | [] => 0%nat
  | x :: t => if Qlt_le_dec x g then S (searchsorted_left t g) else 0%nat
  end.

Definition clip_nat (lo hi n : nat) : nat := Nat.max lo (Nat.min hi n).

Definition interp_linear (xs ys : list Q) (g : Q) : Q :=
  let hi := clip_nat 1 (length xs - 1) (searchsorted_left xs g) in
  let lo := (hi - 1)%nat in
  let x_lo := nth lo xs 0 in let x_hi := nth hi xs 0 in
  let y_lo := nth lo ys 0 in let y_hi := nth hi ys 0 in
  (y_hi - y_lo) / (x_hi - x_lo) * (g - x_lo) + y_lo.

(* one column of phase_align's output: the cycle's values resampled at the phase grid *)
Definition phase_align_cycle (phase x : list Q) (grid : list Q) : list Q :=
  map (interp_linear phase x) grid.

Fixpoint q_increasing (l : list Q) : Prop :=
  match l with
  | a :: (b :: _) as t => a < b /\ q_increasing t
  | _ => True
  end.
Close Scope Q_scope.

(* ---- bin_by_phase (618-652), weights=None, repaired form: every bin 1..nbins is visited ---- *)
(* mean of an empty bin is numpy nan = None; otherwise (sum, count) i.e. the mean sum/count *)
Definition bin_mean (edges ip x : list Z) (b : nat) : option (Z * Z) :=
  let sel := map snd (filter (fun px => Nat.eqb (digitize (fst px) edges) (S b)) (combine ip x)) in
  match sel with
  | [] => None
  | _ => Some (zsum sel, Z.of_nat (length sel))
  end.

Definition bin_by_phase (edges ip x : list Z) : list (option (Z * Z)) :=
  map (bin_mean edges ip x) (seq 0 (length edges - 1)).

(* the code before the repair: `for ii in range(1, nbins)` never visits the last bin *)
Definition bin_by_phase_v0 (edges ip x : list Z) : list (option (Z * Z)) :=
  map (bin_mean edges ip x) (seq 0 (length edges - 2)) ++
  (if (2 <=? length edges)%nat then [None] else []).

(* ---- rendering ---------------------------------------------------------------------- *)
Definition zmax_nonempty (l : list Z) : Z := match l with [] => -99999 | a :: t => zmax_list a t end.

(* the reducing functions the harness exercises: sum, len, max, first, last, 3*sum-len *)
Definition run_stats (cv vals : list Z) : list Z :=
  cycle_stat zsum cv vals ++ [-7]
  ++ cycle_stat (fun l => Z.of_nat (length l)) cv vals ++ [-7]
  ++ cycle_stat zmax_nonempty cv vals ++ [-7]
  ++ cycle_stat (fun l => hd (-99999) l) cv vals ++ [-7]
  ++ cycle_stat (fun l => last l (-99999)) cv vals ++ [-7]
  ++ cycle_stat (fun l => 3 * zsum l - Z.of_nat (length l)) cv vals ++ [-7]
  ++ render_proj (cycle_stat_samples zsum cv vals).

Definition render_bins (l : list (option (Z * Z))) : list Z :=
  flat_map (fun o => match o with None => [0] | Some (s, n) => [1; s; n] end) l.

Definition run_bins (edges ip x : list Z) : list Z := render_bins (bin_by_phase edges ip x).

Definition render_q (q : Q) : list Z := let r := Qred q in [Qnum r; Zpos (Qden r)].
Definition mkq (p : list Z) : Q := Qmake (nth 0 p 0) (Z.to_pos (nth 1 p 1)).

(* phases, values and grid points are given as [num; den] pairs *)
Definition run_align (phase x grid : list (list Z)) : list Z :=
  flat_map render_q (phase_align_cycle (map mkq phase) (map mkq x) (map mkq grid)).

(* ---- specification vocabulary ---------------------------------------------------------- *)
(* the values whose phase lies in the half-open bin [edges[b], edges[b+1]) *)
Definition bin_samples (edges ip x : list Z) (b : nat) : list Z :=
  map snd (filter (fun px => in_bin edges b (fst px)) (combine ip x)).
