(* Control-skeleton tie of class Cycles (emd/cycles.py), SECOND PART (property C15); notes/TIE_CYCLESOBJ2.md.
   THE REVIEWABLE PART: the value universe, the primitive mapping table for the translated programs of
   gen/Gen_Skel_Cyclesobj2.v, the initial environments and the rendering of model results. Definitions only; the
   proofs are in proofs/SkelFacts_Cyclesobj2.v, the statements in props/Prop_Tie_Cyclesobj2.v.

   Cycles.compute_cycle_metric   <->  CyclesObj.step (ComputeMetric name f mode vals)
   Cycles.get_metric_dataframe   <->  CyclesObj.step (Export w)
   Cycles.compute_cycle_timings  <->  CyclesObj.step Timings
   Cycles.compute_chain_metric   <->  one round of CyclesObj.chain_t_loop (kinds 0..3 of ChainTimings)
   Cycles.__init__               <->  CyclesObj.init

   The encoding of the object is the one of the first part (model/SkelPrims_Cyclesobj.v, imported): `self` is an
   ordinary variable holding ONE value [OSelf st], st : CyclesObj.cstate; attribute reads are primitives
   "self.attr" [self], attribute stores `self = "self.attr =" [self; v]` (N7 / N11); method calls written as
   expression statements that mutate the object are rewritten by [thread_self writers2] into `self = <call>`
   ([erase_self] of the result is the generated program: checked in the proofs file); the state a method leaves
   behind is the value of "self" in [final_env]. Ghost fields (s_valids s_clock s_pick_clock m_prov m_stamp) have
   no Python counterpart: states are compared through [pyview] where the ghosts a row writes differ from the
   model's (add_cycle_metric records PAdded where compute_metric records PComputed). *)
From Coq Require Import String Ascii List Bool Arith ZArith QArith Lia.
From EmdV Require Import lib.NpLite model.CycleMaps model.CycleVec model.CycleStat model.CyclesObj.
From EmdV Require Import lib.PyLoop lib.PyLoopTools model.SkelPrims_Cyclesobj gen.Gen_Skel_Cyclesobj2.
Import ListNotations.
Open Scope string_scope.
(* name clashes: [res Ok] and [CEq ..] are those of lib/PyLoop.v; the model's are CyclesObj.Ok / CyclesObj.Err *)

(* ================================================================================================ *)
(* 0. the value universe                                                                              *)
(* ================================================================================================ *)
Inductive oval :=
| OSelf (st : cstate)               (* the Cycles object *)
| OVec (l : list Z)                 (* a per-sample vector: vals, self.cycle_vect, self.phase; chain-level stats *)
| OArr (l : list (option Z))        (* a per-cycle value array, nan = None *)
| OSlices (sl : slices)             (* self._slice_cache *)
| OAug (asl : aug_slices)           (* self._slice_cache_aug *)
| OFun (f : list Z -> Z)            (* func: the reducing function *)
| OBools (l : list bool)            (* a boolean ndarray *)
| OInt (z : Z)                      (* an integer scalar that may be negative *)
| OMetrics (ms : list metric)       (* the dict self.metrics *)
| OFrame (index_col : bool) (names : list string) (rows : list (nat * list (option Z))).
    (* a pandas DataFrame: one column per name, one row per entry; the nat of a row is its index label while
       index_col = false, and the value of the column 'index' that reset_index() made of it afterwards *)

Local Notation V := oval.
Local Notation val := (PyLoop.val oval).

Definition oself (st : cstate) : val := VSig (OSelf st).
Definition ovec (l : list Z) : val := VSig (OVec l).
Definition oarr (l : list (option Z)) : val := VSig (OArr l).
Definition ofun (f : list Z -> Z) : val := VSig (OFun f).

(* mode: the two strings the model knows, and any other string *)
Inductive pymode := PyMode (m : cmode) | PyOther.
Definition mode_str (m : pymode) : string :=
  match m with PyMode MCycle => "cycle" | PyMode MAug => "augmented" | PyOther => "other" end.
(* dtype: None or int *)
Definition odtype (toint : bool) : val := if toint then VOpaque "int" [] else VNone.

(* conditions: a list of str, or one str *)
Fixpoint strs_of2 (l : list val) : option (list string) :=
  match l with
  | [] => Some []
  | VStr s :: t => match strs_of2 t with Some r => Some (s :: r) | None => None end
  | _ => None
  end.
Definition conds_of2 (v : val) : option (list string) :=
  match v with VStr s => Some [s] | VList l => strs_of2 l | _ => None end.
Definition oconds (cs : list string) : val := VList (map VStr cs).

(* the exception of a result of another universe *)
Definition exc_of {A B : Type} (r : res A) : res B := match r with Exc x => Exc x | _ => Bad end.

Definition as_call2 (o : outcome V) : outcome V :=
  match o with Normal _ | Continue _ => Return VNone | o' => o' end.

(* ================================================================================================ *)
(* 1. the program transformation: writers                                                             *)
(* ================================================================================================ *)
Definition writers2 : list string :=
  [ "self.add_cycle_metric(name, vals)";                        (* compute_cycle_metric, compute_chain_metric *)
    "self.compute_cycle_metric('start_sample', np.arange(len(self.cycle_vect)), cf_start_value, dtype=int)";
    "self.compute_cycle_metric('stop_sample', np.arange(len(self.cycle_vect)), cf_end_value, dtype=int)";
    "self.compute_cycle_metric('duration', self.cycle_vect, len, dtype=int)";            (* compute_cycle_timings *)
    "self.compute_cycle_metric('is_good', self.phase, functools.partial(is_good, phase_edge=phase_edge), dtype=int)";
    "self.compute_cycle_timings()" ].                                                     (* __init__ *)

Definition tprog_compute_cycle_metric : stmt := Eval cbv in thread_self writers2 prog_Cycles_compute_cycle_metric.
Definition tprog_compute_cycle_timings : stmt := Eval cbv in thread_self writers2 prog_Cycles_compute_cycle_timings.
Definition tprog_compute_chain_metric : stmt := Eval cbv in thread_self writers2 prog_Cycles_compute_chain_metric.
Definition tprog_init : stmt := Eval cbv in thread_self writers2 prog_Cycles_init.
(* get_metric_dataframe does not change the object: used as generated *)

(* ================================================================================================ *)
(* 2. helpers of the rows (not unfolded by the evaluator of the proofs)                               *)
(* ================================================================================================ *)
Definition is_some {A : Type} (o : option A) : bool := match o with Some _ => true | None => false end.

(* vals.astype(int): the identity on integers; numpy's cast of nan to int is undefined (a RuntimeWarning and
   the smallest int64 on x86) and NOT modelled *)
Definition astype_int (l : list (option Z)) : option (list (option Z)) :=
  if forallb is_some l then Some l else None.

(* pd.DataFrame.from_dict(self.metrics): the rows are those of the arrays' common length (no array: no row);
   arrays of different lengths are a ValueError *)
Definition frame_rows (ms : list metric) : option nat :=
  match ms with
  | [] => Some 0%nat
  | m :: t => if forallb (fun m' => (length (m_vals m') =? length (m_vals m))%nat) t
              then Some (length (m_vals m)) else None
  end.
Definition frame_of (ms : list metric) (n : nat) : oval :=
  OFrame false (map m_name ms) (map (row ms) (seq 0 n)).

(* <bool array> == False, elementwise *)
Definition flip_all (l : list bool) : list bool := map negb l.

(* d.drop(np.where(inds)[0]): the rows whose label is a True position of inds go *)
Definition drop_rows (inds : list bool) (rows : list (nat * list (option Z))) : list (nat * list (option Z)) :=
  filter (fun r => negb (nth (fst r) inds false)) rows.

(* the builder view of the cache pair during __init__ *)
Definition set_cache (st : cstate) (c : option (slices * aug_slices)) : cstate :=
  {| s_P := s_P st; s_trough := s_trough st; s_ph := s_ph st; s_cv := s_cv st; s_cache := c;
     s_metrics := s_metrics st; s_subset := s_subset st; s_chain := s_chain st; s_conds := s_conds st;
     s_valids := s_valids st; s_clock := s_clock st; s_pick_clock := s_pick_clock st |}.
Definition set_ph (st : cstate) (ph : list Z) : cstate :=
  {| s_P := s_P st; s_trough := s_trough st; s_ph := ph; s_cv := s_cv st; s_cache := s_cache st;
     s_metrics := s_metrics st; s_subset := s_subset st; s_chain := s_chain st; s_conds := s_conds st;
     s_valids := s_valids st; s_clock := s_clock st; s_pick_clock := s_pick_clock st |}.
Definition set_cv (st : cstate) (cv : list Z) : cstate :=
  {| s_P := s_P st; s_trough := s_trough st; s_ph := s_ph st; s_cv := cv; s_cache := s_cache st;
     s_metrics := s_metrics st; s_subset := s_subset st; s_chain := s_chain st; s_conds := s_conds st;
     s_valids := s_valids st; s_clock := s_clock st; s_pick_clock := s_pick_clock st |}.
Definition clear_subset (st : cstate) : cstate :=
  {| s_P := s_P st; s_trough := s_trough st; s_ph := s_ph st; s_cv := s_cv st; s_cache := s_cache st;
     s_metrics := s_metrics st; s_subset := None; s_chain := s_chain st; s_conds := s_conds st;
     s_valids := s_valids st; s_clock := s_clock st; s_pick_clock := s_pick_clock st |}.
Definition clear_chain (st : cstate) : cstate :=
  {| s_P := s_P st; s_trough := s_trough st; s_ph := s_ph st; s_cv := s_cv st; s_cache := s_cache st;
     s_metrics := s_metrics st; s_subset := s_subset st; s_chain := None; s_conds := s_conds st;
     s_valids := s_valids st; s_clock := s_clock st; s_pick_clock := s_pick_clock st |}.
Definition clear_conds (st : cstate) : cstate :=
  {| s_P := s_P st; s_trough := s_trough st; s_ph := s_ph st; s_cv := s_cv st; s_cache := s_cache st;
     s_metrics := s_metrics st; s_subset := s_subset st; s_chain := s_chain st; s_conds := None;
     s_valids := s_valids st; s_clock := s_clock st; s_pick_clock := s_pick_clock st |}.
Definition clear_metrics (st : cstate) : cstate :=
  {| s_P := s_P st; s_trough := s_trough st; s_ph := s_ph st; s_cv := s_cv st; s_cache := s_cache st;
     s_metrics := []; s_subset := s_subset st; s_chain := s_chain st; s_conds := s_conds st;
     s_valids := s_valids st; s_clock := s_clock st; s_pick_clock := s_pick_clock st |}.

(* the object before the first statement of __init__: every attribute holds ARBITRARY junk (so that a store that
   __init__ forgets shows in the result), except what the caller's phase_step / phase_edge / the constant 1.5*pi
   denote (not attributes that any tied method reads; the model keeps them) and the ghosts *)
Record junk := { j_ph : list Z; j_cv : list Z; j_cache : option (slices * aug_slices); j_metrics : list metric;
                 j_subset : option (list Z); j_chain : option (list Z); j_conds : option (list string) }.
Definition blank (P : cv_params) (trough : Z) (j : junk) : cstate :=
  {| s_P := P; s_trough := trough; s_ph := j_ph j; s_cv := j_cv j; s_cache := j_cache j; s_metrics := j_metrics j;
     s_subset := j_subset j; s_chain := j_chain j; s_conds := j_conds j;
     s_valids := []; s_clock := 0; s_pick_clock := 0 |}.

(* self.cycle_vect.max(): ValueError on an empty array *)
Definition zvec_max (l : list Z) : option Z := match l with [] => None | x :: t => Some (zmax_list x t) end.

(* ================================================================================================ *)
(* 3. the table                                                                                       *)
(* ================================================================================================ *)
Section ObjPrims.
  (* the integer code of 1.5*pi (CyclesObj.v header): `phase > 1.5*pi <-> code > trough`. The constant is inside
     _cycles_support.map_cycle_to_samples_augmented / augment_slice, not an attribute of the object. *)
  Variable trough : Z.
  (* the thresholds that the arguments phase_step / phase_edge of __init__ denote *)
  Variable P0 : cv_params.

  (* keyword func=<function> *)
  Definition kw_func (kw : list (string * val)) : option (list Z -> Z) :=
    match kw with
    | [(k, VSig (OFun f))] => if String.eqb k "func" then Some f else None
    | _ => None
    end.

  (* callee row of get_matching_cycles: the row [gm_row] of the first part (proved there by
     skeleton_get_matching_cycles), its value re-tagged for this universe *)
  Definition gm_row2 (st : cstate) (cs : list string) : res val :=
    match get_matching st cs with
    | CyclesObj.Ok v => Ok (VSig (OBools v))
    | Err _ => exc_of (gm_row st cs)
    end.

  Definition h_timing (name : string) (f : list Z -> Z) (src : cstate -> list Z) : handler V :=
    fun args kw => match args, kw with
                   | [VSig (OSelf st)], [] => Ok (oself (compute_metric st name f MCycle (src st)))
                   | _, _ => Bad
                   end.

  Definition obj_table : list (string * handler V) :=
    [ (* ---- attribute reads ---- *)
      ("self._slice_cache",
        fun args kw => match args, kw with
                       | [VSig (OSelf st)], [] =>
                           Ok (match s_cache st with Some (sl, _) => VSig (OSlices sl) | None => VNone end)
                       | _, _ => Bad
                       end);
      ("self._slice_cache_aug",
        fun args kw => match args, kw with
                       | [VSig (OSelf st)], [] =>
                           Ok (match s_cache st with Some (_, asl) => VSig (OAug asl) | None => VNone end)
                       | _, _ => Bad
                       end);
      ("self.cycle_vect", fun args kw => match args, kw with
                                         | [VSig (OSelf st)], [] => Ok (ovec (s_cv st)) | _, _ => Bad end);
      ("self.phase", fun args kw => match args, kw with
                                    | [VSig (OSelf st)], [] => Ok (ovec (s_ph st)) | _, _ => Bad end);
      ("self.metrics", fun args kw => match args, kw with
                                      | [VSig (OSelf st)], [] => Ok (VSig (OMetrics (s_metrics st))) | _, _ => Bad end);
      ("self.mask_conditions",
        fun args kw => match args, kw with
                       | [VSig (OSelf st)], [] =>
                           Ok (match s_conds st with Some cs => oconds cs | None => VNone end)
                       | _, _ => Bad
                       end);
      ("self.chain_vect",
        fun args kw => match args, kw with
                       | [VSig (OSelf st)], [] => Ok (match s_chain st with Some v => ovec v | None => VNone end)
                       | _, _ => Bad
                       end);
      ("self.subset_vect",
        fun args kw => match args, kw with
                       | [VSig (OSelf st)], [] => Ok (match s_subset st with Some v => ovec v | None => VNone end)
                       | _, _ => Bad
                       end);
      (* ---- compute_cycle_metric: the four ways of model/CyclesObj.v "per-cycle statistics, four ways"
              (callees tied in Prop_Tie_Cyclestat.v, under its hypotheses on the vectors) ---- *)
      ("_cycles_support.get_cycle_stat_from_samples",
        fun args kw => match args, kw_func kw with
                       | [VSig (OVec vals); VSig (OVec cv)], Some f => Ok (oarr (label_stat f cv vals))
                       | _, _ => Bad
                       end);
      ("_cycles_support.get_slice_stat_from_samples",
        fun args kw => match args, kw_func kw with
                       | [VSig (OVec vals); VSig (OSlices sl)], Some f => Ok (oarr (slice_stat f sl vals))
                       | [VSig (OVec vals); VSig (OAug asl)], Some f => Ok (oarr (aug_slice_stat f asl vals))
                       | _, _ => Bad
                       end);
      ("_cycles_support.get_augmented_cycle_stat_from_samples",
        fun args kw => match args, kw_func kw with
                       | [VSig (OVec vals); VSig (OVec cv); VSig (OVec ph)], Some f =>
                           Ok (oarr (aug_label_stat f trough cv ph vals))
                       | _, _ => Bad
                       end);
      ("vals.astype(dtype)",
        fun args kw => match args, kw with
                       | [VSig (OArr l); d], [] =>
                           if is_opaque0 d "int"
                           then match astype_int l with Some l' => Ok (oarr l') | None => Bad end
                           else Bad
                       | _, _ => Bad
                       end);
      (* WRITER; callee row of add_cycle_metric with dtype=None (skeleton_add_cycle_metric of the first part):
         the new object; the ValueError object that the length guard RETURNS is dropped by the caller *)
      ("self.add_cycle_metric(name, vals)",
        fun args kw => match args, kw with
                       | [VSig (OSelf st); VStr name; VSig (OArr vals)], [] =>
                           Ok (oself (fst (add_metric st name PAdded vals)))
                       | _, _ => Bad
                       end);
      (* ---- get_metric_dataframe ---- *)
      ("pd.DataFrame.from_dict",
        fun args kw => match args, kw with
                       | [VSig (OMetrics ms)], [] =>
                           match frame_rows ms with
                           | Some n => Ok (VSig (frame_of ms n)) | None => Exc "ValueError"
                           end
                       | _, _ => Bad
                       end);
      ("self.get_matching_cycles(conditions)",
        fun args kw => match args, kw with
                       | [VSig (OSelf st); c], [] => match conds_of2 c with Some cs => gm_row2 st cs | None => Bad end
                       | _, _ => Bad
                       end);
      (* <bool array> == False *)
      ("==", fun args kw => match args, kw with
                            | [VSig (OBools l); VBool false], [] => Ok (VSig (OBools (flip_all l)))
                            | _, _ => Bad
                            end);
      (* one flag per row of the frame (anything else - labels that do not exist are a KeyError - is not modelled) *)
      ("d.drop(np.where(inds)[0])",
        fun args kw => match args, kw with
                       | [VSig (OFrame false names rows); VSig (OBools inds)], [] =>
                           if (length inds =? length rows)%nat
                           then Ok (VSig (OFrame false names (drop_rows inds rows))) else Bad
                       | _, _ => Bad
                       end);
      (* the old labels become the column 'index' *)
      ("d.reset_index()",
        fun args kw => match args, kw with
                       | [VSig (OFrame false names rows)], [] => Ok (VSig (OFrame true names rows))
                       | _, _ => Bad
                       end);
      (* ---- compute_cycle_timings: WRITERS, callee rows of compute_cycle_metric (skeleton_compute_cycle_metric
              below; mode = 'cycle', dtype = int) with cf_start_value = first, cf_end_value = last, len, and
              np.arange(len(self.cycle_vect)) = 0 .. nsamples-1 ---- *)
      ("self.compute_cycle_metric('start_sample', np.arange(len(self.cycle_vect)), cf_start_value, dtype=int)",
        h_timing "start_sample" f_first (fun st => arange (nsamples st)));
      ("self.compute_cycle_metric('stop_sample', np.arange(len(self.cycle_vect)), cf_end_value, dtype=int)",
        h_timing "stop_sample" f_last (fun st => arange (nsamples st)));
      ("self.compute_cycle_metric('duration', self.cycle_vect, len, dtype=int)",
        h_timing "duration" f_len (fun st => s_cv st));
      (* ---- compute_chain_metric ---- *)
      (* callee (NOT tied): a chain whose samples are undefined is not modelled (CyclesObj.chain_stat = None,
         the model's ORaised 9; never under Inv: CyclesObjFacts.chain_timings_total) *)
      ("_cycles_support.get_chain_stat_from_samples",
        fun args kw => match args, kw_func kw with
                       | [VSig (OVec vals); VSig (OVec chv); VSig (OVec sv); VSig (OVec cv)], Some f =>
                           match chain_stat f chv sv cv vals with Some stats => Ok (ovec stats) | None => Bad end
                       | _, _ => Bad
                       end);
      (* callee (tied in Prop_Tie_Maps.v) *)
      ("_cycles_support.project_chain_to_cycles",
        fun args kw => match args, kw with
                       | [VSig (OVec stats); VSig (OVec chv); VSig (OVec sv)], [] =>
                           Ok (oarr (project_chain_to_cycles stats chv sv))
                       | _, _ => Bad
                       end);
      ("-1", fun args kw => match args, kw with [], [] => Ok (VSig (OInt (-1))) | _, _ => Bad end);
      ("vals[np.isnan(vals)] =",
        fun args kw => match args, kw with
                       | [VSig (OArr l); VSig (OInt (Zneg xH))], [] => Ok (oarr (nan_to_m1 l))
                       | _, _ => Bad
                       end);
      (* ---- __init__ ---- *)
      ("self.phase =", fun args kw => match args, kw with
                                      | [VSig (OSelf st); VSig (OVec ph)], [] => Ok (oself (set_ph st ph))
                                      | _, _ => Bad
                                      end);
      (* phase_step / phase_edge are not fields of the model's state (s_P holds what they denote) *)
      ("self.phase_step =", fun args kw => match args, kw with
                                           | [VSig (OSelf st); v], [] =>
                                               if is_opaque0 v "phase_step" then Ok (oself st) else Bad
                                           | _, _ => Bad
                                           end);
      ("self.phase_edge =", fun args kw => match args, kw with
                                           | [VSig (OSelf st); v], [] =>
                                               if is_opaque0 v "phase_edge" then Ok (oself st) else Bad
                                           | _, _ => Bad
                                           end);
      (* callee (tied in Prop_Tie_Support.v): a vector is returned as it is *)
      ("ensure_vector", fun args kw => match args, kw with
                                       | [VList [VSig (OVec ph)]; VList [VStr _]; VStr _], [] => Ok (ovec ph)
                                       | _, _ => Bad
                                       end);
      (* callee (tied in Prop_Tie_Cycles.v): the module-level function, with the object's phase and the CALLER's
         phase_step / phase_edge; the model's None = the function raises (ValueError) *)
      ("get_cycle_vector(self.phase, return_good=False, phase_step=phase_step, phase_edge=phase_edge)",
        fun args kw => match args, kw with
                       | [g; VSig (OSelf st); s; e], [] =>
                           if is_opaque0 g "get_cycle_vector" && is_opaque0 s "phase_step" && is_opaque0 e "phase_edge"
                           then match get_cycle_vector P0 false None (s_ph st) with
                                | Some cv => Ok (ovec cv) | None => Exc "ValueError"
                                end
                           else Bad
                       | _, _ => Bad
                       end);
      ("self.cycle_vect =", fun args kw => match args, kw with
                                           | [VSig (OSelf st); VSig (OVec cv)], [] => Ok (oself (set_cv st cv))
                                           | _, _ => Bad
                                           end);
      ("self.cycle_vect.max()",
        fun args kw => match args, kw with
                       | [VSig (OSelf st)], [] =>
                           match zvec_max (s_cv st) with Some z => Ok (VSig (OInt z)) | None => Exc "ValueError" end
                       | _, _ => Bad
                       end);
      ("+", fun args kw => match args, kw with
                           | [VSig (OInt z); VNat n], [] => Ok (VSig (OInt (z + Z.of_nat n)))
                           | _, _ => Bad
                           end);
      (* ncycles is not a field of the model (ncyc st = ncycles (s_cv st) is): the stored value must BE it *)
      ("self.ncycles =", fun args kw => match args, kw with
                                        | [VSig (OSelf st); VSig (OInt z)], [] =>
                                            if Z.eqb z (Z.of_nat (ncyc st)) then Ok (oself st) else Bad
                                        | _, _ => Bad
                                        end);
      ("self.phase.shape", fun args kw => match args, kw with
                                          | [VSig (OSelf st)], [] => Ok (VList [VNat (length (s_ph st))])
                                          | _, _ => Bad
                                          end);
      (* nsamples is not read by any tied method and not a field of the model *)
      ("self.nsamples =", fun args kw => match args, kw with
                                         | [VSig (OSelf st); VNat _], [] => Ok (oself st)
                                         | _, _ => Bad
                                         end);
      (* callees (tied in Prop_Tie_Cyclestat.v: make_slice_cache; make_aug_slice_cache is translated there, no theorem) *)
      ("_cycles_support.make_slice_cache",
        fun args kw => match args, kw with
                       | [VSig (OVec cv)], [] => Ok (VSig (OSlices (make_slice_cache cv)))
                       | _, _ => Bad
                       end);
      ("_cycles_support.make_aug_slice_cache",
        fun args kw => match args, kw with
                       | [VSig (OSlices sl); VSig (OVec ph)], [] => Ok (VSig (OAug (make_aug_slice_cache trough ph sl)))
                       | _, _ => Bad
                       end);
      (* the model holds the two caches as ONE optional pair: between the two stores the second component is a
         placeholder that the second store replaces *)
      ("self._slice_cache =",
        fun args kw => match args, kw with
                       | [VSig (OSelf st); VSig (OSlices sl)], [] => Ok (oself (set_cache st (Some (sl, []))))
                       | [VSig (OSelf st); VNone], [] => Ok (oself (set_cache st None))
                       | _, _ => Bad
                       end);
      ("self._slice_cache_aug =",
        fun args kw => match args, kw with
                       | [VSig (OSelf st); VSig (OAug asl)], [] =>
                           match s_cache st with
                           | Some (sl, _) => Ok (oself (set_cache st (Some (sl, asl)))) | None => Bad
                           end
                       | [VSig (OSelf st); VNone], [] =>
                           match s_cache st with None => Ok (oself st) | Some _ => Bad end
                       | _, _ => Bad
                       end);
      ("self.subset_vect =", fun args kw => match args, kw with
                                            | [VSig (OSelf st); VNone], [] => Ok (oself (clear_subset st))
                                            | _, _ => Bad
                                            end);
      ("self.chain_vect =", fun args kw => match args, kw with
                                           | [VSig (OSelf st); VNone], [] => Ok (oself (clear_chain st))
                                           | _, _ => Bad
                                           end);
      ("self.mask_conditions =", fun args kw => match args, kw with
                                                | [VSig (OSelf st); VNone], [] => Ok (oself (clear_conds st))
                                                | _, _ => Bad
                                                end);
      ("dict", fun args kw => match args, kw with [], [] => Ok (VSig (OMetrics [])) | _, _ => Bad end);
      ("self.metrics =", fun args kw => match args, kw with
                                        | [VSig (OSelf st); VSig (OMetrics [])], [] => Ok (oself (clear_metrics st))
                                        | _, _ => Bad
                                        end);
      (* WRITER; callee row of compute_cycle_metric (mode 'cycle', dtype int) on the object's OWN phase with
         is_good bound to the CALLER's phase_edge: CyclesObj.is_good_f of the thresholds it denotes *)
      ("self.compute_cycle_metric('is_good', self.phase, functools.partial(is_good, phase_edge=phase_edge), dtype=int)",
        fun args kw => match args, kw with
                       | [VSig (OSelf st); e], [] =>
                           if is_opaque0 e "phase_edge"
                           then Ok (oself (compute_metric st "is_good" (is_good_f P0) MCycle (s_ph st))) else Bad
                       | _, _ => Bad
                       end);
      (* WRITER; callee row of compute_cycle_timings (skeleton_compute_cycle_timings below) *)
      ("self.compute_cycle_timings()",
        fun args kw => match args, kw with
                       | [VSig (OSelf st)], [] => Ok (oself (timings st))
                       | _, _ => Bad
                       end) ].
  Definition obj_prims : prims V := prims_of obj_table.
End ObjPrims.

(* ================================================================================================ *)
(* 4. initial environments                                                                            *)
(* ================================================================================================ *)
Definition names_compute_cycle_metric : list string :=
  Eval cbv in assigned tprog_compute_cycle_metric params_Cycles_compute_cycle_metric.
Definition names_get_metric_dataframe : list string :=
  Eval cbv in assigned prog_Cycles_get_metric_dataframe params_Cycles_get_metric_dataframe.
Definition names_compute_cycle_timings : list string :=
  Eval cbv in assigned tprog_compute_cycle_timings params_Cycles_compute_cycle_timings.
Definition names_compute_chain_metric : list string :=
  Eval cbv in assigned tprog_compute_chain_metric params_Cycles_compute_chain_metric.
(* N16 counts the METHOD names of the class as names of the frame, so the call of the module-level function
   get_cycle_vector inside __init__ reads a frame variable "get_cycle_vector": it is an entry name here, bound to
   the module-level function *)
Definition entry_init : list string := params_Cycles_init ++ ["get_cycle_vector"].
Definition names_init : list string := Eval cbv in assigned tprog_init entry_init.

(* def compute_cycle_metric(self, name, vals, func, dtype=None, mode='cycle') *)
Definition env0_compute_cycle_metric (st : cstate) (name : string) (vals : list Z) (f : list Z -> Z)
           (toint : bool) (m : pymode) : env V :=
  frame params_Cycles_compute_cycle_metric names_compute_cycle_metric
        [oself st; VStr name; ovec vals; ofun f; odtype toint; VStr (mode_str m)].

(* def get_metric_dataframe(self, subset=False, conditions=None) *)
Definition oconditions (c : option (list string)) : val := match c with Some cs => oconds cs | None => VNone end.
Definition env0_get_metric_dataframe (st : cstate) (subset : bool) (c : option (list string)) : env V :=
  frame params_Cycles_get_metric_dataframe names_get_metric_dataframe [oself st; VBool subset; oconditions c].
Definition which_of (subset : bool) (c : option (list string)) : which :=
  match subset, c with
  | false, None => ExAll | true, None => ExSubset | false, Some cs => ExConds cs | true, Some cs => ExBoth cs
  end.

Definition env0_compute_cycle_timings (st : cstate) : env V :=
  frame params_Cycles_compute_cycle_timings names_compute_cycle_timings [oself st].

(* def compute_chain_metric(self, name, vals, func, dtype=None) *)
Definition env0_compute_chain_metric (st : cstate) (name : string) (vals : list Z) (f : list Z -> Z) (toint : bool)
  : env V :=
  frame params_Cycles_compute_chain_metric names_compute_chain_metric
        [oself st; VStr name; ovec vals; ofun f; odtype toint].

(* def __init__(self, IP, phase_step, phase_edge, compute_timings=False, mode='cycle', use_cache=True); the new
   object is [blank] (junk in every attribute); `mode` is not used by the body *)
Definition env0_init (P : cv_params) (trough : Z) (j : junk) (ph : list Z) (compute_timings use_cache : bool)
           (mode : val) : env V :=
  frame entry_init names_init
        [oself (blank P trough j); ovec ph; VOpaque "phase_step" []; VOpaque "phase_edge" [];
         VBool compute_timings; mode; VBool use_cache; VOpaque "get_cycle_vector" []].

(* ================================================================================================ *)
(* 5. rendering of model results                                                                      *)
(* ================================================================================================ *)
(* an exported table is the DataFrame; a failure of the model is the exception the code raises: ValueError for
   subset=True together with conditions (model code 2), otherwise the exception of get_matching_cycles (the row
   of the first part: KeyError = model code 4, a condition that does not parse = model code 9) *)
Definition conds_for (st : cstate) (w : which) : list string :=
  match w with
  | ExConds cs | ExBoth cs => cs
  | ExSubset => match s_conds st with Some cs => cs | None => [] end
  | ExAll => []
  end.
Definition export_outcome (st : cstate) (w : which) : outcome V :=
  match export st w with
  | OTable i names rows => Return (VSig (OFrame i names rows))
  | ORaised _ => match w with
                 | ExBoth _ => Raise "ValueError"
                 | _ => res_outcome (exc_of (B := val) (gm_row st (conds_for st w)))
                 end
  | _ => Stuck
  end.

(* hypothesis of the export theorem: there is a metric, and every metric has one value per cycle (part of the
   invariant of C15 - CyclesObj.metric_ok - once 'is_good' exists, i.e. after __init__) *)
Definition frame_ok (st : cstate) : Prop :=
  s_metrics st <> [] /\ Forall (fun m => length (m_vals m) = ncyc st) (s_metrics st).

(* what compute_chain_metric does on a state with a selection: one round of CyclesObj.chain_t_loop *)
Definition chain_metric_vals (st : cstate) (f : list Z -> Z) (vals chv sv : list Z) (toint : bool)
  : option (list (option Z)) :=
  option_map (fun stats => let v := project_chain_to_cycles stats chv sv in if toint then nan_to_m1 v else v)
             (chain_stat f chv sv (s_cv st) vals).
