(* Model of emd/sift.py _find_extrema, compute_parabolic_extrema, get_padded_extrema and the
   sample grid of interp_envelope (property C05; concrete layer under C01/C02).
   Definitions only; lemmas in proofs/ExtremaFacts.v.

   Signals are integer lists (every comparison the code makes is then exact); extrema
   locations are integers (padding produces negative ones).  np.pad, argrelextrema are
   modelled concretely and validated exhaustively by the correspondence check. *)
From Coq Require Import ZArith QArith Qround List Bool Lia.
From EmdV Require Import lib.NpLite.
Import ListNotations.
Open Scope Z_scope.

(* ---- scipy.signal.argrelextrema(X, np.greater, order=1) : strict interior local maxima ---- *)
Fixpoint maxima_from (i : nat) (l : list Z) : list nat :=
  match l with
  | a :: ((b :: (c :: _)) as t) =>
      if (a <? b) && (c <? b) then S i :: maxima_from (S i) t else maxima_from (S i) t
  | _ => []
  end.
Definition find_maxima (x : list Z) : list nat := maxima_from 0 x.

Inductive emode := Peaks | Troughs | AbsPeaks.

(* _find_extrema on the transformed signal; magnitudes in the original sign convention
   (get_padded_extrema 1247-1253) *)
Definition transform (m : emode) (x : list Z) : list Z :=
  match m with Peaks => x | Troughs => map Z.opp x | AbsPeaks => map Z.abs x end.

Definition extrema (m : emode) (x : list Z) : list nat * list Z :=
  let y := transform m x in
  let locs := find_maxima y in
  let mags := map (fun i => nth i y 0) locs in
  (locs, match m with Troughs => map Z.opp mags | _ => mags end).

(* ---- np.pad(a, p, 'reflect', reflect_type='odd'), numpy's chunked algorithm ---- *)
(* one chunk of width c <= len(a)-1 on both sides *)
Definition reflect_chunk (a : list Z) (c : nat) : list Z :=
  let a0 := hd 0 a in
  let an := last a 0 in
  let n := length a in
  map (fun k => 2 * a0 - nth k a 0) (rev (seq 1 c))
  ++ a ++
  map (fun k => 2 * an - nth (n - 1 - k) a 0) (seq 1 c).

Fixpoint pad_reflect_odd (fuel : nat) (a : list Z) (p : nat) : list Z :=
  match fuel with
  | O => a
  | S f =>
      if (p =? 0)%nat then a
      else if (length a <=? 1)%nat then repeat (hd 0 a) p ++ a ++ repeat (hd 0 a) p   (* single value: constant *)
      else let c := Nat.min p (length a - 1) in
           pad_reflect_odd f (reflect_chunk a c) (p - c)
  end.

(* np.pad(a, p, 'median', stat_length=1): the median of one edge value is that value *)
Definition pad_edge (a : list Z) (p : nat) : list Z :=
  repeat (hd 0 a) p ++ a ++ repeat (last a 0) p.

Fixpoint zmin_list (d : Z) (l : list Z) : Z :=
  match l with [] => d | x :: t => Z.min x (zmin_list d t) end.
Definition list_max (l : list Z) : Z := match l with [] => 0 | a :: t => zmax_list a t end.
Definition list_min (l : list Z) : Z := match l with [] => 0 | a :: t => zmin_list a t end.

(* ---- the re-padding loop (1270-1278) on fuel ---- *)
Inductive pad_result :=
| NoExtrema                                   (* (None, None): fewer than two extrema *)
| Padded (locs mags : list Z)
| PadOutOfFuel.

Fixpoint pad_loop (fuel : nat) (N : Z) (p : nat) (locs mags : list Z) : pad_result :=
  match fuel with
  | O => PadOutOfFuel
  | S f =>
      if (list_max locs <? N) || (0 <=? list_min locs)
      then pad_loop f N p (pad_reflect_odd (S p) locs p) (pad_edge mags p)
      else Padded locs mags
  end.

Definition get_padded_extrema (x : list Z) (pad_width : nat) (m : emode) : pad_result :=
  let '(locs, mags) := extrema m x in
  if (length locs <=? 1)%nat then NoExtrema
  else
    let p := Nat.min pad_width (length locs) in
    let zl := map Z.of_nat locs in
    if (p =? 0)%nat then Padded zl mags
    else pad_loop (length x + 2) (Z.of_nat (length x)) p (pad_reflect_odd (S p) zl p) (pad_edge mags p).

(* ---- interp_envelope's sample grid (1411, 1422-1429), integer locations ---- *)
(* t = arange(ceil(locs[0]), locs[-1]) restricted to 0 <= t < N; the envelope is returned only if
   that leaves exactly N points (else ValueError = None) *)
Definition zrange (lo hi : Z) : list Z := map (fun k => lo + Z.of_nat k) (seq 0 (Z.to_nat (hi - lo))).

Definition env_grid (locs : list Z) (N : Z) : option (list Z) :=
  let t := zrange (hd 0 locs) (last locs 0) in
  let sel := filter (fun v => (0 <=? v) && (v <? N)) t in
  if (Z.of_nat (length sel) =? N) then Some sel else None.

(* ---- compute_parabolic_extrema (1355-1366): exact rational vertex of the parabola through
   (1,y0),(2,y1),(3,y2), shifted to the extremum's location ---- *)
Definition parabolic_vertex (y0 y1 y2 : Q) (loc : Q) : Q * Q :=
  let a := ((1#2) * y0 - y1 + (1#2) * y2)%Q in
  let b := (-(5#2) * y0 + 4 * y1 - (3#2) * y2)%Q in
  let c := (3 * y0 - 3 * y1 + y2)%Q in
  let tp := (- b / (2 * a))%Q in
  ((tp - 2 + loc)%Q, (tp * b / 2 + c)%Q).

(* the sample grid for rational (refined) locations, repaired form: start at ceil(first) *)
Definition qceil (q : Q) : Z := (- Qfloor (- q))%Z.
Definition env_grid_q (first last_ : Q) (N : Z) : list Z :=
  filter (fun v => (0 <=? v) && (v <? N)) (zrange (qceil first) (qceil last_)).

(* ---- rendering ---------------------------------------------------------------------- *)
Definition render_pad (r : pad_result) : list Z :=
  match r with
  | NoExtrema => [-1]
  | PadOutOfFuel => [-6]
  | Padded l m => 0 :: l ++ [-99999] ++ m
  end.

Definition render_grid (r : pad_result) (N : Z) : list Z :=
  match r with
  | Padded l _ => match env_grid l N with Some g => 0 :: g | None => [-2] end
  | _ => [-1]
  end.

Definition run_extrema (pads : list nat) (x : list Z) : list Z :=
  flat_map (fun p =>
    flat_map (fun m => let r := get_padded_extrema x p m in
                       render_pad r ++ [-99998] ++ render_grid r (Z.of_nat (length x)) ++ [-99997])
             [Peaks; Troughs; AbsPeaks]) pads.

Definition render_q (q : Q) : list Z := let r := Qred q in [Qnum r; Zpos (Qden r)].
Definition run_parabolic (y0 y1 y2 loc : Z) : list Z :=
  let '(t, y) := parabolic_vertex (inject_Z y0 / 8) (inject_Z y1 / 8) (inject_Z y2 / 8) (inject_Z loc) in
  render_q t ++ render_q y.

(* ---- specification vocabulary ------------------------------------------------------------ *)
(* i is a strict interior local maximum of x *)
Definition strict_max_at (x : list Z) (i : nat) : Prop :=
  (1 <= i)%nat /\ exists a b c,
    nth_error x (i - 1) = Some a /\ nth_error x i = Some b /\ nth_error x (S i) = Some c /\ a < b /\ c < b.
Definition strict_min_at (x : list Z) (i : nat) : Prop :=
  (1 <= i)%nat /\ exists a b c,
    nth_error x (i - 1) = Some a /\ nth_error x i = Some b /\ nth_error x (S i) = Some c /\ b < a /\ b < c.

(* the grid before the repair: t = first + k, k = 0,1,.. restricted to [0, N) *)
Definition env_grid_q_v0 (first last_ : Q) (N : Z) : list Q :=
  filter (fun v => Qle_bool 0 v && negb (Qle_bool (inject_Z N) v))
         (map (fun k => (first + inject_Z k)%Q) (zrange 0 (qceil (last_ - first)))).
