(* Control-skeleton tie of emd/cycles.py get_cycle_vector and is_good to model/CycleVec.v (notes/TIE_CYCLES.md).
   THE REVIEWABLE PART: the value representation, the primitive mapping tables (one row per primitive name as
   emitted in gen/Gen_Skel_Cycles.v), the initial environments and the rendering of model results.
   Definitions only; the proofs are in proofs/SkelFacts_Cycles.v.

   Here the "signal type" of lib/PyLoop.v is a concrete type of numpy values over the model's integer phase codes:
   every numpy expression of the two functions is mapped to the LITERAL list operation it denotes (np.diff = zdiffs,
   np.where = positions, a[i:j] = slice, ...), not to the model's composite definitions (wrap_hits, boundaries,
   expand, ...): that the composition of the literal operations along the code's control flow equals the model's
   "simplest equivalent form" is what the theorems prove.
   The real-valued thresholds (phase_step, phase_edge, np.pi) stay opaque; only their comparisons with phase samples
   are interpreted, by the four integer thresholds of the model's cv_params (step, e_lo, e_hi, twopi). *)
From Coq Require Import String List Bool Arith ZArith Lia.
From EmdV Require Import lib.PyLoop lib.PyLoopTools lib.NpLite model.CycleMaps model.CycleVec gen.Gen_Skel_Cycles.
Import ListNotations.
Open Scope nat_scope.
Open Scope string_scope.

(* ---- numpy values --------------------------------------------------------------------------------- *)
Inductive cval :=
| CMat (n : nat) (cols : list (list Z))   (* a 2-d array with n rows, given by its columns (phase, cycles) *)
| CVec (l : list Z)                       (* a 1-d array of phase codes or of their differences *)
| CBools (l : list bool)                  (* a boolean array (a comparison result, the mask) *)
| CIdx (l : list nat)                     (* an index array (np.where(..)[0], inds) *)
| CNum (z : Z).                           (* one phase sample *)

(* aliases that the symbolic evaluator of the proofs does not unfold (definitions, not new notions) *)
Definition nth_opt {A : Type} (l : list A) (i : nat) : option A := nth_error l i.
Definition all4 (a b c d : bool) : bool := a && b && c && d.
Definition notb (b : bool) : bool := negb b.

(* x[a:b] = v on a 1-d array, defined for 0 <= a <= b <= len only (anything else is Bad = Stuck below) *)
Definition slice_ok {A : Type} (a b : nat) (l : list A) : bool := (a <=? b)%nat && (b <=? length l)%nat.
Definition set_slice (a b : nat) (v : Z) (l : list Z) : list Z :=
  (firstn a l ++ repeat v (b - a) ++ skipn b l)%list.
(* M[:, i] = c on the column list *)
Definition set_col (i : nat) (c : list Z) (M : list (list Z)) : list (list Z) :=
  (firstn i M ++ c :: skipn (S i) M)%list.

(* ==================================================================================================== *)
(* is_good(phase, waveform=None, ret_all_checks, phase_edge, mode='cycle')                              *)
(* ==================================================================================================== *)
Section IsGoodPrims.
  Variable P : cv_params.

  Definition isgood_table : list (string * handler cval) :=
    [ (* np.zeros((4,), dtype=bool) *)
      ("np.zeros", fun args kw => match args, kw with
         | [VList [VNat 4]], [(_, d)] =>
             if keys_are kw ["dtype"] && is_opaque0 d "bool"
             then Ok (VList [VBool false; VBool false; VBool false; VBool false]) else Bad
         | _, _ => Bad end);
      (* the name `bool` in value position (N15) *)
      ("bool", fun args kw => match args, kw with [], [] => Ok (VOpaque "bool" []) | _, _ => Bad end);
      ("np.diff", fun args kw => match args, kw with
         | [VSig (CVec l)], [] => Ok (VSig (CVec (zdiffs l))) | _, _ => Bad end);
      (* np.diff(phase) > 0 *)
      (">", fun args kw => match args, kw with
         | [VSig (CVec l); VNat 0], [] => Ok (VSig (CBools (map (fun d => (0 <? d)%Z) l))) | _, _ => Bad end);
      (* np.all of a boolean array; of the four checks *)
      ("np.all", fun args kw => match args, kw with
         | [VSig (CBools l)], [] => Ok (VBool (forallb (fun b => b) l))
         | [VList [VBool a; VBool b; VBool c; VBool d]], [] => Ok (VBool (all4 a b c d))
         | _, _ => Bad end);
      (* cycle_checks[k] = v  (N11: the store returns the new value of cycle_checks) *)
      ("cycle_checks[0] =", fun args kw => match args, kw with
         | [VList [_; b; c; d]; VBool v], [] => Ok (VList [VBool v; b; c; d]) | _, _ => Bad end);
      ("cycle_checks[1] =", fun args kw => match args, kw with
         | [VList [a; _; c; d]; VBool v], [] => Ok (VList [a; VBool v; c; d]) | _, _ => Bad end);
      ("cycle_checks[2] =", fun args kw => match args, kw with
         | [VList [a; b; _; d]; VBool v], [] => Ok (VList [a; b; VBool v; d]) | _, _ => Bad end);
      ("cycle_checks[3] =", fun args kw => match args, kw with
         | [VList [a; b; c; _]; VBool v], [] => Ok (VList [a; b; c; VBool v]) | _, _ => Bad end);
      (* phase[0] *)
      ("getitem", fun args kw => match args, kw with
         | [VSig (CVec l); VNat 0], [] =>
             match l with [] => Exc "IndexError" | z :: _ => Ok (VSig (CNum z)) end
         | _, _ => Bad end);
      (* phase[-1] *)
      ("phase[-1]", fun args kw => match args, kw with
         | [VSig (CVec l)], [] =>
             match l with [] => Exc "IndexError" | z :: _ => Ok (VSig (CNum (last l z))) end
         | _, _ => Bad end);
      (* the real thresholds: np.pi, 2 * np.pi, phase_min + phase_edge (phase_min = 0), 2 * np.pi - phase_edge *)
      ("np.pi", fun args kw => match args, kw with [], [] => Ok (VOpaque "pi" []) | _, _ => Bad end);
      ("*", fun args kw => match args, kw with
         | [VNat 2; p], [] => if is_opaque0 p "pi" then Ok (VOpaque "2pi" []) else Bad | _, _ => Bad end);
      ("+", fun args kw => match args, kw with
         | [VNat 0; e], [] => if is_opaque0 e "phase_edge" then Ok (VOpaque "0+edge" []) else Bad | _, _ => Bad end);
      ("-", fun args kw => match args, kw with
         | [t; e], [] => if is_opaque0 t "2pi" && is_opaque0 e "phase_edge" then Ok (VOpaque "2pi-edge" []) else Bad
         | _, _ => Bad end);
      (* phase[0] >= phase_min (= 0);  phase[-1] >= 2 * np.pi - phase_edge *)
      (">=", fun args kw => match args, kw with
         | [VSig (CNum z); VNat 0], [] => Ok (VBool (0 <=? z)%Z)
         | [VSig (CNum z); VOpaque t []], [] => if String.eqb t "2pi-edge" then Ok (VBool (e_hi P <=? z)%Z) else Bad
         | _, _ => Bad end);
      (* phase[0] <= phase_min + phase_edge;  phase[-1] <= 2 * np.pi *)
      ("<=", fun args kw => match args, kw with
         | [VSig (CNum z); VOpaque t []], [] =>
             if String.eqb t "0+edge" then Ok (VBool (z <=? e_lo P)%Z)
             else if String.eqb t "2pi" then Ok (VBool (z <=? twopi P)%Z) else Bad
         | _, _ => Bad end) ].
  Definition isgood_prims : prims cval := prims_of isgood_table.

  Definition isgood_names : list string := Eval cbv in assigned prog_is_good params_is_good.

  (* arguments in def-line order: phase, waveform = None (its default), ret_all_checks, phase_edge, mode = 'cycle'
     (its default). The waveform branch (control points) and mode = 'augmented' are outside the model. *)
  Definition isgood_env0 (seg : list Z) (ret_all : bool) : env cval :=
    frame params_is_good isgood_names
      [VSig (CVec seg); VNone; VBool ret_all; VOpaque "phase_edge" []; VStr "cycle"].

  (* the four checks of the code, in the vocabulary of model/CycleVec.v; None = IndexError (phase[0] of nothing) *)
  Definition is_good_checks (seg : list Z) : option (list bool) :=
    match seg with
    | [] => None
    | first :: _ =>
        let lst := last seg first in
        Some [ strictly_increasing seg;
               ((0 <=? first) && (first <=? e_lo P))%Z;
               ((lst <=? twopi P) && (e_hi P <=? lst))%Z;
               true ]
    end.

  Definition checks_val (cs : list bool) : val cval := VList (map VBool cs).

  Definition isgood_render (ret_all : bool) (r : option (list bool)) : outcome cval :=
    match r with
    | None => Raise "IndexError"
    | Some cs => Return (if ret_all then checks_val cs else VBool (forallb (fun b => b) cs))
    end.

  (* is_good as a primitive of its caller: the translated body of is_good itself, run by the interpreter
     (it has no loop: any fuel). The refinement theorem of get_cycle_vector is therefore about the two
     translated programs linked together, not about a second description of is_good. *)
  Definition isgood_call (seg : list Z) : res (val cval) :=
    match exec isgood_prims prog_is_good 0 (isgood_env0 seg true) with
    | Return v => Ok v
    | Raise x => Exc x
    | _ => Bad
    end.
End IsGoodPrims.

(* ---- the labelling loop of get_cycle_vector as a function (the intermediate form of the refinement proof:
   [acc] = the per-segment decision, None = it raises; the state is the column of labels and the counter) ---- *)
Fixpoint lab_loop (acc : nat * nat -> option bool) (segs : list (nat * nat)) (col : list Z) (count : nat)
  : option (list Z * nat) :=
  match segs with
  | [] => Some (col, count)
  | (a, b) :: t =>
      match acc (a, b) with
      | None => None
      | Some g => lab_loop acc t (if g then set_slice a b (Z.of_nat count) col else col) (if g then S count else count)
      end
  end.

(* ==================================================================================================== *)
(* get_cycle_vector(phase, return_good, mask, imf, phase_step, phase_edge)                              *)
(* ==================================================================================================== *)
Section GcvPrims.
  Variable P : cv_params.
  (* phase.max() > 2 * np.pi, and what utils.wrap_phase(phase) returns then (any array of the same shape) *)
  Variable needs_wrap : bool.
  Variable wrapped : list (list Z).

  Definition gcv_table : list (string * handler cval) :=
    [ (* support.ensure_2d: the arrays are 2-d already; a list of one array is returned as that array *)
      ("ensure_2d", fun args kw => match args, kw with
         | [VList [p; m]; VList [VStr _; VStr _]; VStr _], [] => Ok (VList [p; m])
         | [VList [p]; VList [VStr _]; VStr _], [] => Ok p
         | _, _ => Bad end);
      (* support.ensure_equal_dims(.., dim=0): ValueError unless the mask has one entry per sample *)
      ("ensure_equal_dims", fun args kw => match args, kw with
         | [VList [VSig (CMat n _); VSig (CBools m)]; VList [VStr _; VStr _]; VStr _], [(_, VNat 0)] =>
             if keys_are kw ["dim"] then (if (length m =? n)%nat then Ok VNone else Exc "ValueError") else Bad
         | _, _ => Bad end);
      ("phase.max()", fun args kw => match args, kw with
         | [VSig (CMat _ _)], [] => Ok (VOpaque "phase.max" []) | _, _ => Bad end);
      ("np.pi", fun args kw => match args, kw with [], [] => Ok (VOpaque "pi" []) | _, _ => Bad end);
      ("*", fun args kw => match args, kw with
         | [VNat 2; p], [] => if is_opaque0 p "pi" then Ok (VOpaque "2pi" []) else Bad | _, _ => Bad end);
      (* phase.max() > 2 * np.pi;  np.abs(np.diff(col)) > phase_step *)
      (">", fun args kw => match args, kw with
         | [VOpaque _ [] as a; b], [] =>
             if is_opaque0 a "phase.max" && is_opaque0 b "2pi" then Ok (VBool needs_wrap) else Bad
         | [VSig (CVec l); s], [] =>
             if is_opaque0 s "phase_step" then Ok (VSig (CBools (map (fun d => (step P <? d)%Z) l))) else Bad
         | _, _ => Bad end);
      ("print", fun args kw => match args, kw with [VStr _], [] => Ok VNone | _, _ => Bad end);
      ("utils.wrap_phase", fun args kw => match args, kw with
         | [VSig (CMat n _)], [] => Ok (VSig (CMat n wrapped)) | _, _ => Bad end);
      (* np.zeros_like(phase, dtype=int) - 1 *)
      ("int", fun args kw => match args, kw with [], [] => Ok (VOpaque "int" []) | _, _ => Bad end);
      ("np.zeros_like", fun args kw => match args, kw with
         | [VSig (CMat n c)], [(_, d)] =>
             if keys_are kw ["dtype"] && is_opaque0 d "int"
             then Ok (VSig (CMat n (map (fun _ => repeat 0%Z n) c))) else Bad
         | _, _ => Bad end);
      ("-", fun args kw => match args, kw with
         | [VSig (CMat n c); VNat k], [] => Ok (VSig (CMat n (map (map (fun x => (x - Z.of_nat k)%Z)) c)))
         | _, _ => Bad end);
      ("phase.shape", fun args kw => match args, kw with
         | [VSig (CMat n c)], [] => Ok (VList [VNat n; VNat (length c)]) | _, _ => Bad end);
      ("range", range_handler);
      (* phase[:, ii] *)
      ("phase[:, ii]", fun args kw => match args, kw with
         | [VSig (CMat _ c); VNat i], [] =>
             match nth_opt c i with Some col => Ok (VSig (CVec col)) | None => Exc "IndexError" end
         | _, _ => Bad end);
      ("np.diff", fun args kw => match args, kw with
         | [VSig (CVec l)], [] => Ok (VSig (CVec (zdiffs l))) | _, _ => Bad end);
      ("np.abs", fun args kw => match args, kw with
         | [VSig (CVec l)], [] => Ok (VSig (CVec (map Z.abs l))) | _, _ => Bad end);
      (* np.where(b) of a 1-d boolean array: a 1-tuple with the positions of the True entries *)
      ("np.where", fun args kw => match args, kw with
         | [VSig (CBools l)], [] => Ok (VList [VSig (CIdx (positions (fun b => b) l))]) | _, _ => Bad end);
      (* np.where(..)[0] + 1 *)
      ("+", fun args kw => match args, kw with
         | [VSig (CIdx l); VNat 1], [] => Ok (VSig (CIdx (map S l))) | _, _ => Bad end);
      ("len", fun args kw => match args, kw with
         | [VSig (CIdx l)], [] => Ok (VNat (length l)) | _, _ => Bad end);
      (* inds[0] *)
      ("getitem", fun args kw => match args, kw with
         | [VSig (CIdx l); VNat i], [] =>
             match nth_opt l i with Some a => Ok (VNat a) | None => Exc "IndexError" end
         | _, _ => Bad end);
      ("inds[-1]", fun args kw => match args, kw with
         | [VSig (CIdx l)], [] => match l with [] => Exc "IndexError" | _ :: _ => Ok (VNat (last l 0)) end
         | _, _ => Bad end);
      ("np.r_[0, inds]", fun args kw => match args, kw with
         | [VSig (CIdx l)], [] => Ok (VSig (CIdx (0 :: l))) | _, _ => Bad end);
      ("np.r_[inds, phase.shape[0]]", fun args kw => match args, kw with
         | [VSig (CIdx l); VSig (CMat n _)], [] => Ok (VSig (CIdx (l ++ [n]))) | _, _ => Bad end);
      (* ~mask[inds[jj]:inds[jj + 1]] and any(..) *)
      ("~mask[inds[jj]:inds[jj + 1]]", fun args kw => match args, kw with
         | [VSig (CBools m); VSig (CIdx l); VNat j], [] =>
             match nth_opt l j, nth_opt l (S j) with
             | Some a, Some b => Ok (VSig (CBools (map notb (slice m a b))))
             | _, _ => Exc "IndexError"
             end
         | _, _ => Bad end);
      ("any", fun args kw => match args, kw with
         | [VSig (CBools l)], [] => Ok (VBool (existsb (fun b => b) l)) | _, _ => Bad end);
      (* phase[inds[jj]:inds[jj + 1], ii] *)
      ("phase[inds[jj]:inds[jj + 1], ii]", fun args kw => match args, kw with
         | [VSig (CMat _ c); VSig (CIdx l); VNat j; VNat i], [] =>
             match nth_opt c i, nth_opt l j, nth_opt l (S j) with
             | Some col, Some a, Some b => Ok (VSig (CVec (slice col a b)))
             | _, _, _ => Exc "IndexError"
             end
         | _, _ => Bad end);
      (* is_good(cycle_phase, ret_all_checks=True, phase_edge=phase_edge): the translated is_good itself *)
      ("is_good", fun args kw => match args, kw with
         | [VSig (CVec seg)], [(_, VBool true); (_, e)] =>
             if keys_are kw ["ret_all_checks"; "phase_edge"] && is_opaque0 e "phase_edge"
             then isgood_call P seg else Bad
         | _, _ => Bad end);
      (* np.ones((4,), dtype=bool) *)
      ("bool", fun args kw => match args, kw with [], [] => Ok (VOpaque "bool" []) | _, _ => Bad end);
      ("np.ones", fun args kw => match args, kw with
         | [VList [VNat 4]], [(_, d)] =>
             if keys_are kw ["dtype"] && is_opaque0 d "bool"
             then Ok (VList [VBool true; VBool true; VBool true; VBool true]) else Bad
         | _, _ => Bad end);
      (* all(cycle_checks), four checks *)
      ("all", fun args kw => match args, kw with
         | [VList [VBool a; VBool b; VBool c; VBool d]], [] => Ok (VBool (all4 a b c d)) | _, _ => Bad end);
      (* cycles[inds[jj]:inds[jj + 1], ii] = count  (N11: returns the new value of cycles) *)
      ("cycles[inds[jj]:inds[jj + 1], ii] =", fun args kw => match args, kw with
         | [VSig (CMat n M); VSig (CIdx l); VNat j; VNat i; VNat k], [] =>
             match nth_opt M i, nth_opt l j, nth_opt l (S j) with
             | Some col, Some a, Some b =>
                 if slice_ok a b col then Ok (VSig (CMat n (set_col i (set_slice a b (Z.of_nat k) col) M)))
                 else Bad
             | _, _, _ => Exc "IndexError"
             end
         | _, _ => Bad end) ].
  Definition gcv_prims : prims cval := prims_of gcv_table.

  Definition gcv_names : list string := Eval cbv in assigned prog_get_cycle_vector params_get_cycle_vector.

  Definition mask_val (mask : option (list bool)) : val cval :=
    match mask with None => VNone | Some m => VSig (CBools m) end.

  (* arguments in def-line order; imf is never read: any value *)
  Definition gcv_env0 (n : nat) (cols : list (list Z)) (ret_good : bool) (mask : option (list bool))
             (imf : val cval) : env cval :=
    frame params_get_cycle_vector gcv_names
      [VSig (CMat n cols); VBool ret_good; mask_val mask; imf; VOpaque "phase_step" []; VOpaque "phase_edge" []].

  (* the phase the main body works on *)
  Definition gcv_phase (cols : list (list Z)) : list (list Z) := if needs_wrap then wrapped else cols.

  (* the model, column by column; a column whose model result is None makes the call raise *)
  Definition gcv_model (ret_good : bool) (mask : option (list bool)) (cols : list (list Z))
    : option (list (list Z)) :=
    all_some (map (get_cycle_vector P ret_good mask) (gcv_phase cols)).

  Definition gcv_render (n : nat) (r : option (list (list Z))) : outcome cval :=
    match r with
    | None => Raise "IndexError"
    | Some outs => Return (VSig (CMat n outs))
    end.

  (* what the entry checks demand of the arguments: n rows everywhere, one mask entry per row *)
  Definition gcv_shape_ok (n : nat) (cols : list (list Z)) (mask : option (list bool)) : Prop :=
    Forall (fun c => length c = n) cols /\
    Forall (fun c => length c = n) wrapped /\
    match mask with None => True | Some m => length m = n end.
End GcvPrims.
