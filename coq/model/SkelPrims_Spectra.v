(* Control-skeleton tie of emd/spectra.py (hilberthuang, hilberthuang_1d, holospectrum) to model/Spectra.v:
   THE REVIEWABLE PART - the array universe, the literal list semantics of every numpy / scipy.sparse
   expression that gen/Gen_Skel_Spectra.v mentions, the initial environments and the rendering of the
   model's results. Definitions only; the proofs are in proofs/SkelFacts_Spectra.v, the statements in
   props/Prop_Tie_Spectra.v, the prose in notes/TIE_SPECTRA.md.

   The "signal type" V of lib/PyLoop.v is here a CONCRETE universe of numpy values ([arr]); every primitive is
   the list operation that the numpy expression of that name denotes (row-major nested lists, integers for
   the integer-valued floats the harness uses). What the theorems then prove is that the COMPOSITION written
   in the Python source - which array is digitized with which edges, which mask filters which coordinate
   list, which index is folded how, which axis is trimmed / summed in which branch - is the model's.
   The only abstract oracle is [mean_of] (division of a column sum by the number of rows, not an integer).

   Not modelled (see the notes): numpy's shape-mismatch errors of elementwise operations, boolean indexing and
   coo_matrix (the operations below truncate to the shorter operand; the theorems assume rectangular inputs
   of the shapes that ensure_equal_dims checks), the ValueError of np.digitize for non-monotonic edges,
   logging, dtype. *)
From Coq Require Import String List Bool Arith ZArith Lia.
From EmdV Require Import lib.NpLite lib.PyLoop lib.PyLoopTools model.Spectra gen.Gen_Skel_Spectra.
Import ListNotations.
Close Scope Z_scope.
Open Scope nat_scope.
Open Scope string_scope.

(* ---- the numpy values ---------------------------------------------------------------------------- *)
Inductive arr :=
| Sc (z : Z)                                     (* a numpy scalar *)
| A1 (l : list Z)                                (* 1-D *)
| A2 (m : list (list Z))                         (* 2-D, [row][col] *)
| A3 (c : list (list (list Z)))                  (* 3-D *)
| A3last (m : list (list Z))                     (* m[:, :, None]: shape (n0, n1, 1) *)
| A3first (l : list Z)                           (* l[:, None, None]: shape (n0, 1, 1) *)
| M1 (b : list bool)                             (* 1-D boolean mask *)
| M2 (b : list (list bool))                      (* 2-D boolean mask *)
| N2 (m : list (list (option Z)))                (* 2-D float array that may hold NaN (= None) *)
| Coo (es : list (nat * nat * Z)) (nr nc : nat)  (* scipy.sparse.coo_matrix: (row, col, value) triplets, shape *)
| Mat (row : list Z).                            (* the 1 x n np.matrix that coo.sum(axis=0) / .mean(axis=0) return *)

Definition shape1 {A} (m : list (list A)) : nat := length (hd [] m).
Definition shape2 {A} (c : list (list (list A))) : nat := length (hd [] (hd [] c)).

(* a 3-D array of shape (_, M, K) *)
Definition cube (c : list (list (list Z))) (M K : nat) : Prop :=
  Forall (fun p => length p = M /\ rectangular p K) c.

Definition map2d {A B} (f : A -> B) : list (list A) -> list (list B) := map (map f).
Definition map3d {A B} (f : A -> B) : list (list (list A)) -> list (list (list B)) := map (map (map f)).
(* elementwise binary operation (operands of equal shape; truncates otherwise - numpy would raise or broadcast) *)
Definition zip_with {A B C} (f : A -> B -> C) (a : list A) (b : list B) : list C :=
  map (fun p => f (fst p) (snd p)) (combine a b).
(* l[mask] *)
Definition mask_select {A} (m : list bool) (l : list A) : list A := map snd (filter fst (combine m l)).
(* logical and / or of masks (own names: the evaluator of the proofs unfolds andb / orb) *)
Definition band (a b : bool) : bool := andb a b.
Definition bor (a b : bool) : bool := orb a b.
(* x ** 2 *)
Definition sq (a : Z) : Z := (a * a)%Z.

(* scipy.sparse.coo_matrix((data, (rows, cols)), shape=(nr, nc)): negative or too large indices are a ValueError *)
Definition idx_ok (n : nat) (i : Z) : bool := ((0 <=? i)%Z && (i <? Z.of_nat n)%Z)%bool.
Definition coo_triplets (data rows cols : list Z) : list (nat * nat * Z) :=
  map (fun p => (Z.to_nat (fst (fst p)), Z.to_nat (snd (fst p)), snd p)) (combine (combine rows cols) data).
Definition coo_build (data rows cols : list Z) (nr nc : nat) : res (val arr) :=
  if (forallb (idx_ok nr) rows && forallb (idx_ok nc) cols)%bool
  then Ok (VSig (Coo (coo_triplets data rows cols) nr nc))
  else Exc "ValueError".

(* row.reshape(d2, d1) of a row of d2 * d1 numbers (row-major) *)
Definition chunks {A} (d2 d1 : nat) (row : list A) : list (list A) :=
  map (fun a => firstn d1 (skipn (a * d1) row)) (seq 0 d2).
(* coo.sum(axis=0): one number per column *)
Definition coo_colsums (es : list (nat * nat * Z)) (nr nc : nat) : list Z :=
  map (fun col => zsum (map (fun t => coo_cell es t col) (seq 0 nr))) (seq 0 nc).
(* m[j] of every row (numpy m[:, j]) *)
(* m[i] as an option (own name: the evaluator of the proofs unfolds nth_error) *)
Definition row_at {A} (m : list A) (i : nat) : option A := nth_error m i.
Definition set_nth {A} (i : nat) (v : A) (l : list A) : list A := (firstn i l ++ v :: skipn (S i) l)%list.

(* ---- mode strings ----------------------------------------------------------------------------------- *)
Inductive smode := MEnergy | MAmplitude | MOther.
Definition mode_str (m : smode) : string :=
  match m with MEnergy => "energy" | MAmplitude => "amplitude" | MOther => "power" end.
Definition is_energy (m : smode) : bool := match m with MEnergy => true | _ => false end.

Inductive squash := SqFalse | SqMean | SqSum | SqTrue | SqOther.
Definition squash_val (s : squash) : val arr :=
  match s with
  | SqFalse => VBool false | SqMean => VStr "mean" | SqSum => VStr "sum" | SqTrue => VBool true | SqOther => VStr "median"
  end.

(* ---- the primitives (one definition per numpy expression; the tables below name them as emitted) --- *)
Section Handlers.
  Variable mean_of : Z -> nat -> Z.          (* ORACLE: column sum / number of rows (holo.mean(axis=0)) *)

  Definition H := handler arr.

  (* support.ensure_2d: 1-D inputs get a singleton second dimension, the list of arrays is returned *)
  Definition to2d (a : arr) : arr := match a with A1 l => A2 (map (fun x => [x]) l) | _ => a end.
  Definition h_ensure_2d : H := fun args kw =>
    match args, kw with
    | [VList [VSig a; VSig b]; VList [VStr _; VStr _]; VStr _], [] => Ok (VList [VSig (to2d a); VSig (to2d b)])
    | [VList [VSig a; VSig b; VSig c]; VList [VStr _; VStr _; VStr _]; VStr _], [] =>
        Ok (VList [VSig (to2d a); VSig (to2d b); VSig (to2d c)])
    | _, _ => Bad
    end.

  (* support.ensure_equal_dims: all dimensions (no dim=), or one dimension; ValueError on a mismatch *)
  Definition same_shape2 (a b : list (list Z)) : bool :=
    (Nat.eqb (length a) (length b) && Nat.eqb (shape1 a) (shape1 b))%bool.
  Definition same_dim (d : nat) (a : list (list Z)) (b c : list (list (list Z))) : bool :=
    match d with
    | 0 => (Nat.eqb (length a) (length b) && Nat.eqb (length a) (length c))%bool
    | _ => (Nat.eqb (shape1 a) (shape1 b) && Nat.eqb (shape1 a) (shape1 c))%bool
    end.
  Definition h_ensure_equal_dims : H := fun args kw =>
    match args, kw with
    | [VList [VSig (A2 a); VSig (A2 b)]; VList [VStr _; VStr _]; VStr _], [] =>
        if same_shape2 a b then Ok VNone else Exc "ValueError"
    | [VList [VSig (A2 a); VSig (A3 b); VSig (A3 c)]; VList [VStr _; VStr _; VStr _]; VStr _], [(k, VNat d)] =>
        if String.eqb k "dim" then
          match d with
          | 0 | 1 => if same_dim d a b c then Ok VNone else Exc "ValueError"
          | _ => Bad
          end
        else Bad
    | _, _ => Bad
    end.

  (* inam ** 2, inam2 ** 2 *)
  Definition h_square : H := fun args kw =>
    match args, kw with
    | [VSig (A2 m)], [] => Ok (VSig (A2 (map2d sq m)))
    | [VSig (A3 c)], [] => Ok (VSig (A3 (map3d sq c)))
    | _, _ => Bad
    end.

  (* np.digitize(x, edges), right=False, increasing edges (model/Spectra.v digitize); NaN goes past the last edge *)
  Definition dig (e : list Z) (f : Z) : Z := Z.of_nat (digitize f e).
  Definition dig_nan (e : list Z) (f : option Z) : Z :=
    Z.of_nat (match f with Some x => digitize x e | None => length e end).
  Definition h_digitize : H := fun args kw =>
    match args, kw with
    | [VSig (A2 m); VSig (A1 e)], [] => Ok (VSig (A2 (map2d (dig e) m)))
    | [VSig (A3 c); VSig (A1 e)], [] => Ok (VSig (A3 (map3d (dig e) c)))
    | [VSig (N2 m); VSig (A1 e)], [] => Ok (VSig (A2 (map2d (dig_nan e) m)))
    | _, _ => Bad
    end.

  (* array - int *)
  Definition h_sub : H := fun args kw =>
    match args, kw with
    | [VSig (A2 m); VNat n], [] => Ok (VSig (A2 (map2d (fun y => (y - Z.of_nat n)%Z) m)))
    | _, _ => Bad
    end.

  (* np.tile(np.arange(n0), (n1, 1)).T for the shape (n0, n1) of its argument: entry [t][j] = t *)
  Definition h_tile_T : H := fun args kw =>
    match args, kw with
    | [VSig (A2 y)], [] => Ok (VSig (A2 (map (fun t => repeat (Z.of_nat t) (shape1 y)) (seq 0 (length y)))))
    | _, _ => Bad
    end.

  (* x.reshape(-1) *)
  Definition h_flatten : H := fun args kw =>
    match args, kw with
    | [VSig (A2 m)], [] => Ok (VSig (A1 (concat m)))
    | [VSig (A3 c)], [] => Ok (VSig (A1 (concat (concat c))))
    | _, _ => Bad
    end.

  (* comparisons: a 1-D array with a non-negative int; a 2-D array with a scalar *)
  Definition h_ge : H := fun args kw =>
    match args, kw with
    | [VSig (A1 l); VNat n], [] => Ok (VSig (M1 (map (fun y => (Z.of_nat n <=? y)%Z) l)))
    | _, _ => Bad
    end.
  Definition h_lt : H := fun args kw =>
    match args, kw with
    | [VSig (A1 l); VNat n], [] => Ok (VSig (M1 (map (fun y => (y <? Z.of_nat n)%Z) l)))
    | [VSig (A2 m); VSig (Sc z)], [] => Ok (VSig (M2 (map2d (fun f => (f <? z)%Z) m)))
    | _, _ => Bad
    end.
  Definition h_gt : H := fun args kw =>
    match args, kw with
    | [VSig (A2 m); VSig (Sc z)], [] => Ok (VSig (M2 (map2d (fun f => (z <? f)%Z) m)))
    | _, _ => Bad
    end.

  (* len of a 1-D array *)
  Definition h_len : H := fun args kw =>
    match args, kw with [VSig (A1 l)], [] => Ok (VNat (length l)) | _, _ => Bad end.

  Definition h_logical_and : H := fun args kw =>
    match args, kw with
    | [VSig (M1 a); VSig (M1 b)], [] => Ok (VSig (M1 (zip_with band a b)))
    | _, _ => Bad
    end.

  (* x[i]: a 1-D array indexed by a boolean mask, or by a non-negative int (IndexError out of range) *)
  Definition h_getitem : H := fun args kw =>
    match args, kw with
    | [VSig (A1 l); VSig (M1 m)], [] => Ok (VSig (A1 (mask_select m l)))
    | [VSig (A1 l); VNat i], [] => match nth_error l i with Some z => Ok (VSig (Sc z)) | None => Exc "IndexError" end
    | _, _ => Bad
    end.

  (* freq_edges[-1] *)
  Definition h_last : H := fun args kw =>
    match args, kw with
    | [VSig (A1 l)], [] => match l with [] => Exc "IndexError" | _ => Ok (VSig (Sc (last l 0%Z))) end
    | _, _ => Bad
    end.

  Definition h_coo_matrix : H := fun args kw =>
    match args, kw with
    | [VList [VSig (A1 data); VList [VSig (A1 rows); VSig (A1 cols)]]], [(k, VList [VNat nr; VNat nc])] =>
        if String.eqb k "shape" then coo_build data rows cols nr nc else Bad
    | _, _ => Bad
    end.

  (* x.shape *)
  Definition h_shape : H := fun args kw =>
    match args, kw with
    | [VSig (A2 m)], [] => Ok (VList [VNat (length m); VNat (shape1 m)])
    | [VSig (N2 m)], [] => Ok (VList [VNat (length m); VNat (shape1 m)])
    | [VSig (A3 c)], [] => Ok (VList [VNat (length c); VNat (shape1 c); VNat (shape2 c)])
    | _, _ => Bad
    end.

  (* hht.toarray() *)
  Definition h_toarray : H := fun args kw =>
    match args, kw with
    | [VSig (Coo es nr nc)], [] => Ok (VSig (A2 (coo_dense es nr nc)))
    | _, _ => Bad
    end.

  (* ---- hilberthuang_1d only ---- *)
  Definition h_zeros : H := fun args kw =>
    match args, kw with
    | [VList [VNat n; VNat m]], [] => Ok (VSig (A2 (repeat (repeat 0%Z m) n)))
    | _, _ => Bad
    end.
  Definition h_copy : H := fun args kw =>
    match args, kw with [VSig (A2 m)], [] => Ok (VSig (A2 m)) | _, _ => Bad end.
  (* `np.array(infr, dtype=float)`: a fresh float copy (the model's arrays are exact numbers: the dtype is not modelled);
     the bare name `float` is translated as a nullary opaque *)
  Definition h_float : H := fun args kw =>
    match args, kw with [], [] => Ok (VOpaque "float" []) | _, _ => Bad end.
  Definition h_array_float : H := fun args kw =>
    match args, kw with
    | [VSig (A2 m)], [(k, VOpaque t [])] => if (String.eqb k "dtype" && String.eqb t "float")%bool then Ok (VSig (A2 m)) else Bad
    | _, _ => Bad
    end.
  (* bool array + bool array = logical or *)
  Definition h_add : H := fun args kw =>
    match args, kw with
    | [VSig (M2 a); VSig (M2 b)], [] => Ok (VSig (M2 (zip_with (zip_with bor) a b)))
    | [VSig (A3 a); VSig (A3 b)], [] => Ok (VSig (A3 (zip_with (zip_with (zip_with Z.add)) a b)))
    | _, _ => Bad
    end.
  Definition h_nan : H := fun args kw =>
    match args, kw with [], [] => Ok (VOpaque "nan" []) | _, _ => Bad end.
  (* infr[outside_inds] = np.nan (returns the new infr) *)
  Definition nan_out (f : Z) (b : bool) : option Z := if b then None else Some f.
  Definition h_store_nan : H := fun args kw =>
    match args, kw with
    | [VSig (A2 m); VSig (M2 b); v], [] =>
        if is_opaque0 v "nan" then Ok (VSig (N2 (zip_with (zip_with nan_out) m b))) else Bad
    | _, _ => Bad
    end.
  (* inam[finds[:, jj] == ii, jj]: the entries of column jj of inam in the rows where column jj of finds is ii *)
  Definition col_select (inam finds : list (list Z)) (jj ii : nat) : list Z :=
    map snd (filter (fun da => (fst da =? Z.of_nat ii)%Z) (combine (column 0%Z finds jj) (column 0%Z inam jj))).
  Definition h_col_select : H := fun args kw =>
    match args, kw with
    | [VSig (A2 inam); VSig (A2 finds); VNat jj; VNat ii], [] => Ok (VSig (A1 (col_select inam finds jj ii)))
    | _, _ => Bad
    end.
  Definition h_nansum : H := fun args kw =>
    match args, kw with [VSig (A1 l)], [] => Ok (VSig (Sc (zsum l))) | _, _ => Bad end.
  Definition h_power : H := fun args kw =>
    match args, kw with [VSig (A1 l); VNat 2], [] => Ok (VSig (A1 (map sq l))) | _, _ => Bad end.
  (* specs[ii - 1, jj] = v (returns the new specs); ii = 0 would address the last row: not modelled (Stuck) *)
  Definition h_store_cell : H := fun args kw =>
    match args, kw with
    | [VSig (A2 m); VNat (S i); VNat j; VSig (Sc v)], [] =>
        match row_at m i with
        | Some row => if (j <? length row)%nat then Ok (VSig (A2 (set_nth i (set_nth j v row) m))) else Exc "IndexError"
        | None => Exc "IndexError"
        end
    | _, _ => Bad
    end.

  (* ---- holospectrum only ---- *)
  (* infr_inds[:, :, None] ; np.arange(infr.shape[0])[:, None, None] *)
  Definition h_newaxis_last : H := fun args kw =>
    match args, kw with [VSig (A2 m)], [] => Ok (VSig (A3last m)) | _, _ => Bad end.
  Definition h_arange_first : H := fun args kw =>
    match args, kw with
    | [VSig (A2 m)], [] => Ok (VSig (A3first (map Z.of_nat (seq 0 (length m)))))
    | _, _ => Bad
    end.
  (* np.broadcast_to(x, (n0, n1, n2)): only singleton dimensions are stretched, the others must agree *)
  Definition h_broadcast_to : H := fun args kw =>
    match args, kw with
    | [VSig (A3last m); VList [VNat n0; VNat n1; VNat n2]], [] =>
        if (Nat.eqb (length m) n0 && Nat.eqb (shape1 m) n1)%bool
        then Ok (VSig (A3 (map2d (fun x => repeat x n2) m))) else Exc "ValueError"
    | [VSig (A3first l); VList [VNat n0; VNat n1; VNat n2]], [] =>
        if Nat.eqb (length l) n0
        then Ok (VSig (A3 (map (fun x => repeat (repeat x n2) n1) l))) else Exc "ValueError"
    | _, _ => Bad
    end.
  (* int array * int *)
  Definition h_mul : H := fun args kw =>
    match args, kw with
    | [VSig (A3 c); VNat n], [] => Ok (VSig (A3 (map3d (fun y => (y * Z.of_nat n)%Z) c)))
    | _, _ => Bad
    end.
  (* squash_time is False *)
  Definition h_is_false : H := fun args kw =>
    match args, kw with
    | [v], [] => Ok (VBool (match v with VBool false => true | _ => false end))
    | _, _ => Bad
    end.
  (* True == 'mean' *)
  Definition h_eq : H := fun args kw =>
    match args, kw with [VBool _; VStr _], [] => Ok (VBool false) | _, _ => Bad end.
  (* holo.toarray().reshape(new_shape[0], fold_dim2, fold_dim1) *)
  Definition h_toarray_reshape : H := fun args kw =>
    match args, kw with
    | [VSig (Coo es nr nc); VList [VNat n0; _; _]; VNat d2; VNat d1], [] =>
        if (Nat.eqb nr n0 && Nat.eqb nc (d2 * d1))%bool
        then Ok (VSig (A3 (map (chunks d2 d1) (coo_dense es nr nc)))) else Exc "ValueError"
    | _, _ => Bad
    end.
  Definition h_coo_sum : H := fun args kw =>
    match args, kw with
    | [VSig (Coo es nr nc)], [] => Ok (VSig (Mat (coo_colsums es nr nc)))
    | _, _ => Bad
    end.
  Definition h_coo_mean : H := fun args kw =>
    match args, kw with
    | [VSig (Coo es nr nc)], [] => Ok (VSig (Mat (map (fun s => mean_of s nr) (coo_colsums es nr nc))))
    | _, _ => Bad
    end.
  (* holo.reshape(fold_dim2, fold_dim1) of the 1 x n matrix *)
  Definition h_mat_reshape : H := fun args kw =>
    match args, kw with
    | [VSig (Mat row); VNat d2; VNat d1], [] =>
        if Nat.eqb (length row) (d2 * d1) then Ok (VSig (A2 (chunks d2 d1 row))) else Exc "ValueError"
    | _, _ => Bad
    end.
  (* holo[:, 1:-1, 1:-1] ; holo[1:-1, 1:-1] (a coo_matrix is not subscriptable) *)
  Definition h_trim3 : H := fun args kw =>
    match args, kw with
    | [VSig (A3 c)], [] => Ok (VSig (A3 (map (fun plane => map trim (trim plane)) c)))
    | _, _ => Bad
    end.
  Definition h_trim2 : H := fun args kw =>
    match args, kw with
    | [VSig (A2 m)], [] => Ok (VSig (A2 (map trim (trim m))))
    | [VSig (Coo _ _ _)], [] => Exc "TypeError"
    | _, _ => Bad
    end.
  Definition h_np_array : H := fun args kw =>
    match args, kw with
    | [VSig (A2 m)], [] => Ok (VSig (A2 m))
    | [VSig (A3 c)], [] => Ok (VSig (A3 c))
    | _, _ => Bad
    end.

  (* ---- THE MAPPING TABLES: primitive name as emitted in gen/Gen_Skel_Spectra.v -> its meaning ---------- *)
  Definition hht_table : list (string * H) :=
    [ ("ensure_2d", h_ensure_2d);
      ("ensure_equal_dims", h_ensure_equal_dims);
      ("inam ** 2", h_square);
      ("np.digitize", h_digitize);
      ("-", h_sub);
      ("np.tile(np.arange(yinds.shape[0]), (yinds.shape[1], 1)).T", h_tile_T);
      ("inam.reshape(-1)", h_flatten);
      ("yinds.reshape(-1)", h_flatten);
      ("xinds.reshape(-1)", h_flatten);
      (">=", h_ge);
      ("<", h_lt);
      ("len", h_len);
      ("np.logical_and", h_logical_and);
      ("getitem", h_getitem);
      ("sparse.coo_matrix", h_coo_matrix);
      ("xinds.shape", h_shape);
      ("hht.toarray()", h_toarray) ].
  Definition hht_prims : prims arr := prims_of hht_table.

  Definition hht1d_table : list (string * H) :=
    [ ("np.zeros", h_zeros);
      ("len", h_len);
      ("infr.shape", h_shape);
      ("np.array", h_array_float);
      ("float", h_float);
      ("<", h_lt);
      (">", h_gt);
      ("getitem", h_getitem);
      ("freq_edges[-1]", h_last);
      ("+", h_add);
      ("np.nan", h_nan);
      ("infr[outside_inds] =", h_store_nan);
      ("np.digitize", h_digitize);
      ("range", range_handler);
      ("inam[finds[:, jj] == ii, jj]", h_col_select);
      ("np.nansum", h_nansum);
      ("np.power", h_power);
      ("specs[ii - 1, jj] =", h_store_cell) ].
  Definition hht1d_prims : prims arr := prims_of hht1d_table.

  Definition holo_table : list (string * H) :=
    [ ("ensure_2d", h_ensure_2d);
      ("ensure_equal_dims", h_ensure_equal_dims);
      ("inam2 ** 2", h_square);
      ("np.digitize", h_digitize);
      ("infr_inds.shape", h_shape);
      ("infr2.shape", h_shape);
      ("infr.shape", h_shape);
      ("infr_inds[:, :, None]", h_newaxis_last);
      ("np.broadcast_to", h_broadcast_to);
      ("len", h_len);
      ("*", h_mul);
      ("+", h_add);
      ("np.arange(infr.shape[0])[:, None, None]", h_arange_first);
      ("T_inds.reshape(-1)", h_flatten);
      ("infr_inds.reshape(-1)", h_flatten);
      ("inam2.reshape(-1)", h_flatten);
      ("sparse.coo_matrix", h_coo_matrix);
      ("squash_time is False", h_is_false);
      ("==", h_eq);
      ("holo.toarray().reshape(new_shape[0], fold_dim2, fold_dim1)", h_toarray_reshape);
      ("holo.mean(axis=0)", h_coo_mean);
      ("holo.sum(axis=0)", h_coo_sum);
      ("holo.reshape(fold_dim2, fold_dim1)", h_mat_reshape);
      ("holo[:, 1:-1, 1:-1]", h_trim3);
      ("holo[1:-1, 1:-1]", h_trim2);
      ("np.array", h_np_array) ].
  Definition holo_prims : prims arr := prims_of holo_table.
End Handlers.

(* ---- initial environments: the parameters in the order of the def line ------------------------------ *)
Definition hht_names : list string := Eval cbv in assigned prog_hilberthuang params_hilberthuang.
Definition hht_env0 (infr inam : list (list Z)) (edges : list Z) (m : smode) (rs : bool) : env arr :=
  frame params_hilberthuang hht_names
    [VSig (A2 infr); VSig (A2 inam); VSig (A1 edges); VStr (mode_str m); VBool rs].

Definition hht1d_names : list string := Eval cbv in assigned prog_hilberthuang_1d params_hilberthuang_1d.
Definition hht1d_env0 (infr inam : list (list Z)) (edges : list Z) (m : smode) : env arr :=
  frame params_hilberthuang_1d hht1d_names
    [VSig (A2 infr); VSig (A2 inam); VSig (A1 edges); VStr (mode_str m)].

Definition holo_names : list string := Eval cbv in assigned prog_holospectrum params_holospectrum.
Definition holo_env0 (infr : list (list Z)) (infr2 inam2 : list (list (list Z))) (edges edges2 : list Z)
           (m : smode) (s : squash) : env arr :=
  frame params_holospectrum holo_names
    [VSig (A2 infr); VSig (A3 infr2); VSig (A3 inam2); VSig (A1 edges); VSig (A1 edges2);
     VStr (mode_str m); squash_val s].

(* ---- how the model's results show at the Python level ------------------------------------------------ *)
(* hilberthuang: ValueError when ensure_equal_dims fails; otherwise the sparse matrix of the model's entries
   (return_sparse) or the model's dense array. Any mode other than 'energy' sums amplitudes. *)
Definition hht_render (infr inam : list (list Z)) (edges : list Z) (m : smode) (rs : bool) : outcome arr :=
  if same_shape2 infr inam then
    Return (VSig (if rs then Coo (hht_entries (is_energy m) edges infr inam) (length edges - 1) (length infr)
                  else A2 (hilberthuang (is_energy m) edges infr inam)))
  else Raise "ValueError".

(* hilberthuang_1d: the model's [bins][imfs] array; a mode that is neither 'amplitude' nor 'energy' leaves the zeros *)
Definition hht1d_render (infr inam : list (list Z)) (edges : list Z) (m : smode) : outcome arr :=
  Return (VSig (A2 (match m with
                    | MOther => repeat (repeat 0%Z (shape1 infr)) (length edges - 1)
                    | _ => hilberthuang_1d (is_energy m) edges infr inam
                    end))).

(* holospectrum: squash_time False -> the model's 3-D array; 'sum' -> holospectrum_sum; 'mean' -> holospectrum_sum
   with every entry divided by the number of time points (the oracle); anything else (True included) ->
   TypeError (the coo_matrix is subscripted) *)
Definition holo_render (mean_of : Z -> nat -> Z) (infr : list (list Z)) (infr2 inam2 : list (list (list Z)))
           (edges edges2 : list Z) (m : smode) (s : squash) : outcome arr :=
  if same_dim 0 infr infr2 inam2 then
    if same_dim 1 infr infr2 inam2 then
      match s with
      | SqFalse => Return (VSig (A3 (holospectrum (is_energy m) edges edges2 infr infr2 inam2)))
      | SqSum => Return (VSig (A2 (holospectrum_sum (is_energy m) edges edges2 infr infr2 inam2)))
      | SqMean => Return (VSig (A2 (map2d (fun x => mean_of x (length infr))
                                          (holospectrum_sum (is_energy m) edges edges2 infr infr2 inam2))))
      | _ => Raise "TypeError"
      end
    else Raise "ValueError"
  else Raise "ValueError".
