(* The PRIMITIVE MAPPING TABLES of the control-skeleton tie (DESIGN 3.2) - the reviewable part of the tie.
   gen/Gen_Skeleton.v (regenerated from emd/sift.py by harness/gen_skeleton.py on every run) calls opaque
   primitives by their SOURCE-LEVEL names; the tables below say which abstract oracle of model/SiftCore.v
   stands for which name, and with which argument shapes. Any other name or shape is [Bad]: the program gets
   Stuck and the refinement theorems of proofs/SkeletonFacts.v fail.
   Also here: the initial environments (the parameters of each function in the order of its def line) and how
   a model result shows at the Python level. Definitions only. *)
From Coq Require Import String List Bool Arith.
From EmdV Require Import lib.PyLoop model.SiftCore gen.Gen_Skeleton.
Import ListNotations.
Open Scope string_scope.

(* ---- generic helpers ------------------------------------------------------------------------ *)
Definition handler (V : Type) := list (val V) -> list (string * val V) -> res (val V).

Fixpoint table_lookup {V : Type} (t : list (string * handler V)) (f : string) : option (handler V) :=
  match t with
  | [] => None
  | (k, h) :: r => if String.eqb k f then Some h else table_lookup r f
  end.

Definition prims_of {V : Type} (t : list (string * handler V)) : prims V :=
  fun f args kw => match table_lookup t f with Some h => h args kw | None => Bad end.

Fixpoint keys_are {V : Type} (kw : list (string * val V)) (ks : list string) : bool :=
  match kw, ks with
  | [], [] => true
  | (k, _) :: r, k' :: r' => String.eqb k k' && keys_are r r'
  | _, _ => false
  end.

Definition is_opaque0 {V : Type} (v : val V) (tag : string) : bool :=
  match v with VOpaque t [] => String.eqb t tag | _ => false end.

(* a frame: the parameters bound to the call's arguments, every other assigned name listed but unbound *)
Definition frame {V : Type} (params names : list string) (args : list (val V)) : env V :=
  match assign_all params args (env_of names (fun _ => None)) with Some e => e | None => [] end.

Definition sig_identity {V : Type} : handler V :=
  fun args kw => match args, kw with [VSig x], [] => Ok (VSig x) | _, _ => Bad end.

Definition ensure_1d {V : Type} : handler V :=
  fun args kw => match args, kw with
                 | [VList [VSig x]; VList [VStr _]; VStr _], [] => Ok (VSig x)
                 | _, _ => Bad
                 end.

(* ============================================================================================== *)
(* get_next_imf                                                                                   *)
(* ============================================================================================== *)
Section GniPrims.
  Variable V : Type.
  Variable vsub : V -> V -> V.
  Variable vstep : V -> V.
  Variable vavg : V -> V -> V.
  Variable env_u env_l : V -> option V.          (* interp_envelope(x, mode='upper' / 'lower'); None = None *)
  Variable stop_sd : V -> V -> bool.
  Variable stop_ril : V -> V -> bool.
  Variable energy_fires : V -> V -> bool.

  Definition envs_of (x : V) : option (V * V) :=
    match env_u x, env_l x with Some u, Some l => Some (u, l) | _, _ => None end.

  Definition optsig (o : option V) : val V := match o with Some v => VSig v | None => VNone end.

  Definition method_str (m : stop_method) : string :=
    match m with SD => "sd" | Rilling => "rilling" | Fixed => "fixed" end.

  (* ---- the primitive mapping table of get_next_imf ---- *)
  Definition gni_table : list (string * handler V) :=
    [ ("ensure_1d_with_singleton", ensure_1d);
      ("{}", fun args kw => match args, kw with [], [] => Ok (VOpaque "{}" []) | _, _ => Bad end);
      ("X.copy()", sig_identity);
      ("x1.copy()", sig_identity);
      ("str.format", fun args kw => match args, kw with [VStr _; VNat _], [] => Ok (VStr "") | _, _ => Bad end);
      ("interp_envelope",
        fun args kw =>
          match args, kw with
          | [VSig p], [(_, VStr m); _; _] =>
              if keys_are kw ["mode"; "**"; "extrema_opts"] then
                if String.eqb m "upper" then Ok (optsig (env_u p))
                else if String.eqb m "lower" then Ok (optsig (env_l p)) else Bad
              else Bad
          | _, _ => Bad
          end);
      ("np.mean([upper, lower], axis=0)[:, None]",
        fun args kw => match args, kw with [VSig u; VSig l], [] => Ok (VSig (vavg u l)) | _, _ => Bad end);
      ("-", fun args kw => match args, kw with [VSig a; VSig b], [] => Ok (VSig (vsub a b)) | _, _ => Bad end);
      ("*", fun args kw =>
              match args, kw with
              | [s; VSig a], [] => if is_opaque0 s "env_step_size" then Ok (VSig (vstep a)) else Bad
              | _, _ => Bad
              end);
      ("sd_stop",
        fun args kw =>
          match args, kw with
          | [VSig p; VSig x1], [(_, t); (_, VNat _)] =>
              if keys_are kw ["sd"; "niters"] && is_opaque0 t "sd_thresh"
              then Ok (VList [VBool (stop_sd p x1); VOpaque "metric" []]) else Bad
          | _, _ => Bad
          end);
      ("rilling_stop",
        fun args kw =>
          match args, kw with
          | [VSig u; VSig l], [(_, VNat _); (_, a); (_, b); (_, c)] =>
              if keys_are kw ["niters"; "sd1"; "sd2"; "tol"]
                 && is_opaque0 a "sd1" && is_opaque0 b "sd2" && is_opaque0 c "tol"
              then Ok (VList [VBool (stop_ril u l); VOpaque "metric" []]) else Bad
          | _, _ => Bad
          end);
      ("fixed_stop",
        fun args kw => match args, kw with [VNat n; VNat m], [] => Ok (VBool (Nat.eqb n m)) | _, _ => Bad end);
      ("proto_imf.ndim",                      (* signals are [nsamples x 1] columns throughout *)
        fun args kw => match args, kw with [VSig _], [] => Ok (VNat 2) | _, _ => Bad end);
      ("_energy_difference",
        fun args kw => match args, kw with
                       | [VSig a; VSig b], [] => Ok (VOpaque "energy_db" [VSig a; VSig b])
                       | _, _ => Bad
                       end);
      (">", fun args kw =>
              match args, kw with
              | [VOpaque t [VSig a; VSig b]; th], [] =>
                  if String.eqb t "energy_db" && is_opaque0 th "energy_thresh"
                  then Ok (VBool (energy_fires a b)) else Bad
              | _, _ => Bad
              end) ].

  Definition gni_prims : prims V := prims_of gni_table.

  (* ---- the initial environment: the parameters of get_next_imf, in the order of the def line ---- *)
  Definition gni_args (method : stop_method) (max_iters : nat) (use_energy : bool)
             (X : V) (eo xo : val V) : list (val V) :=
    [ VSig X;                                                            (* X *)
      VOpaque "env_step_size" [];                                        (* env_step_size *)
      VNat max_iters;                                                    (* max_iters *)
      if use_energy then VOpaque "energy_thresh" [] else VNone;          (* energy_thresh *)
      VStr (method_str method);                                          (* stop_method *)
      VOpaque "sd_thresh" [];                                            (* sd_thresh *)
      VList [VOpaque "sd1" []; VOpaque "sd2" []; VOpaque "tol" []];      (* rilling_thresh *)
      eo;                                                                (* envelope_opts: any value *)
      xo ].                                                              (* extrema_opts: any value *)

  (* every name of the frame: the parameters, then the locals in order of first assignment *)
  Definition gni_names : list string := Eval cbv in assigned prog_get_next_imf params_get_next_imf.

  Definition gni_env0 method max_iters use_energy X eo xo : env V :=
    frame params_get_next_imf gni_names (gni_args method max_iters use_energy X eo xo).

  (* ---- how a model result shows at the Python level ---- *)
  Definition gni_render (r : gni_result V) : outcome V :=
    match r with
    | Imf p fl _ => Return (VList [VSig p; VBool fl])
    | ConvergeError _ => Raise "EMDSiftCovergeError"
    | GniOutOfFuel => OutOfFuel
    end.

End GniPrims.

(* ============================================================================================== *)
(* sift: the outer loop                                                                           *)
(* ============================================================================================== *)
Section SiftPrims.
  Variable V : Type.
  Variable vzero : V.
  Variable vadd vsub : V -> V -> V.
  Variable small : V -> bool.                  (* np.abs(next_imf).sum() < sift_thresh *)
  (* get_next_imf(residual, envelope_opts=.., extrema_opts=.., **imf_opts) as ONE opaque primitive:
     Some (imf, continue_flag), or None when it raises EMDSiftCovergeError *)
  Variable ext : V -> option (V * bool).

  Definition extract_of : nat -> list V -> V -> gni_result V :=
    fun _ _ r => match ext r with Some (p, fl) => Imf p fl 0 | None => ConvergeError 0 end.

  (* [nsamples x k] arrays: one column is the signal itself, more are an opaque "matrix" of columns *)
  Fixpoint sigs (l : list (val V)) : option (list V) :=
    match l with
    | [] => Some []
    | VSig x :: t => match sigs t with Some r => Some (x :: r) | None => None end
    | _ => None
    end.
  Definition cols_of (v : val V) : option (list V) :=
    match v with
    | VSig x => Some [x]
    | VOpaque t l => if String.eqb t "matrix" then sigs l else None
    | _ => None
    end.
  Definition mat_val (l : list V) : val V :=
    match l with [x] => VSig x | _ => VOpaque "matrix" (map VSig l) end.

  Definition sift_table : list (string * handler V) :=
    [ ("{'env_step_size': 1, 'sd_thresh': 0.1}",
        fun args kw => match args, kw with [], [] => Ok (VOpaque "default_imf_opts" []) | _, _ => Bad end);
      ("bool",                                  (* a user-supplied, non-empty option dictionary *)
        fun args kw => match args, kw with
                       | [v], [] => if is_opaque0 v "imf_opts" then Ok (VBool true) else Bad
                       | _, _ => Bad
                       end);
      ("ensure_1d_with_singleton", ensure_1d);
      ("X.shape",
        fun args kw => match args, kw with
                       | [VSig x], [] => Ok (VList [VOpaque "nsamples" [VSig x]; VNat 1])
                       | _, _ => Bad
                       end);
      ("_nsamples_warn",                        (* only warns *)
        fun args kw => match args, kw with [_; _], [] => Ok VNone | _, _ => Bad end);
      ("X.copy()", sig_identity);
      ("get_next_imf",
        fun args kw =>
          match args, kw with
          | [VSig r], [_; _; _] =>
              if keys_are kw ["envelope_opts"; "extrema_opts"; "**"] then
                match ext r with
                | Some (p, fl) => Ok (VList [VSig p; VBool fl])
                | None => Exc "EMDSiftCovergeError"
                end
              else Bad
          | _, _ => Bad
          end);
      ("np.concatenate",
        fun args kw =>
          match args, kw with
          | [VList [a; b]], [(k, VNat 1)] =>
              if String.eqb k "axis" then
                match cols_of a, cols_of b with
                | Some la, Some lb => Ok (VOpaque "matrix" (map VSig (la ++ lb)))
                | _, _ => Bad
                end
              else Bad
          | _, _ => Bad
          end);
      ("imf.sum(axis=1)[:, None]",
        fun args kw => match args, kw with
                       | [m], [] => match cols_of m with
                                    | Some l => Ok (VSig (vsum V vzero vadd l))
                                    | None => Bad
                                    end
                       | _, _ => Bad
                       end);
      ("-", fun args kw => match args, kw with [VSig a; VSig b], [] => Ok (VSig (vsub a b)) | _, _ => Bad end);
      ("np.abs(next_imf).sum()",
        fun args kw => match args, kw with [VSig x], [] => Ok (VOpaque "abs_sum" [VSig x]) | _, _ => Bad end);
      ("<", fun args kw =>
              match args, kw with
              | [VOpaque t [VSig x]; th], [] =>
                  if String.eqb t "abs_sum" && is_opaque0 th "sift_thresh" then Ok (VBool (small x)) else Bad
              | _, _ => Bad
              end) ].

  Definition sift_prims : prims V := prims_of sift_table.

  Definition cap_val (cap : option nat) : val V := match cap with Some k => VNat k | None => VNone end.

  (* the parameters of sift, in the order of the def line *)
  Definition sift_args (cap : option nat) (X : V) (vb io eo xo : val V) : list (val V) :=
    [ VSig X;                          (* X *)
      VOpaque "sift_thresh" [];        (* sift_thresh *)
      cap_val cap;                     (* max_imfs *)
      vb;                              (* verbose: any value (consumed by the decorator) *)
      io;                              (* imf_opts: None or a non-empty dictionary *)
      eo;                              (* envelope_opts: any value *)
      xo ].                            (* extrema_opts: any value *)

  Definition io_ok (io : val V) : Prop := io = VNone \/ io = VOpaque "imf_opts" [].

  Definition sift_names : list string := Eval cbv in assigned prog_sift params_sift.

  Definition sift_env0 cap X vb io eo xo : env V :=
    frame params_sift sift_names (sift_args cap X vb io eo xo).

  Definition sift_render (r : list V * exit_flags) : outcome V :=
    let (acc, fl) := r in
    if out_of_fuel fl then OutOfFuel
    else if raised fl then Raise "EMDSiftCovergeError"
    else Return (mat_val acc).
End SiftPrims.

Arguments optsig {V}. Arguments gni_args {V}. Arguments gni_env0 {V}. Arguments gni_render {V}.
Arguments sigs {V}. Arguments cols_of {V}. Arguments mat_val {V}. Arguments cap_val {V}.
Arguments sift_args {V}. Arguments io_ok {V}. Arguments sift_env0 {V}. Arguments sift_render {V}.

(* ============================================================================================== *)
(* mask_sift: the outer loop (the option pre-processing above it is not translated; its results -    *)
(* X made a column, mask_freqs an array, max_imfs possibly reduced, sd - are inputs here)            *)
(* ============================================================================================== *)
(* the three documented values of mask_amp_mode (any other leaves sd unbound above the loop) *)
Inductive amp_mode3 := MRatioImf | MRatioSig | MAbs.
Definition mode_str (m : amp_mode3) : string :=
  match m with MRatioImf => "ratio_imf" | MRatioSig => "ratio_sig" | MAbs => "abs" end.
Definition is_ratio_imf (m : amp_mode3) : bool := match m with MRatioImf => true | _ => false end.

Section MaskPrims.
  Variable V : Type.
  Variable vzero : V.
  Variable vadd vsub : V -> V -> V.
  Variable small : V -> bool.                  (* np.abs(next_imf).sum() < sift_thresh *)
  (* get_next_imf_mask(residual, z, amp, nphases=.., nprocesses=.., imf_opts=.., envelope_opts=..,
     extrema_opts=..) as ONE opaque primitive: Some (imf, continue_flag), or None when it raises *)
  Variable gm : V -> val V -> val V -> option (V * bool).
  Variable fs : list (val V).                  (* the entries of mask_freqs *)
  Variable mode : amp_mode3.                   (* mask_amp_mode *)
  Variable ma : option (list (val V)).         (* mask_amp: None = a single number, Some l = array_like
                                                  (of numbers: each entry is wrapped as an opaque value) *)
  Variable sd0 : val V.                        (* sd as initialised above the loop: X.std() or 1 *)

  Definition amp_entry (x : val V) : val V := VOpaque "mask_amp" [x].
  Definition ma_val : val V :=
    match ma with None => VOpaque "mask_amp" [] | Some l => VList (map amp_entry l) end.

  (* sd as used in layer [layer], after the columns acc *)
  Definition sd_at (layer : nat) (acc : list V) : val V :=
    if is_ratio_imf mode && (0 <? layer)%nat then VOpaque "std" [VSig (last acc vzero)] else sd0.

  (* amp = mask_amp * sd, or mask_amp[imf_layer] * sd (None: IndexError) *)
  Definition amp_at (layer : nat) (acc : list V) : option (val V) :=
    match ma with
    | None => Some (VOpaque "amp" [VOpaque "mask_amp" []; sd_at layer acc])
    | Some l => match nth_error l layer with
                | Some a => Some (VOpaque "amp" [amp_entry a; sd_at layer acc])
                | None => None
                end
    end.

  (* the per-layer extraction peel_loop is run with (compare MaskSift.layer_extract) *)
  Definition mask_extract : nat -> list V -> V -> gni_result V :=
    fun layer acc r =>
      match amp_at layer acc, nth_error fs layer with
      | Some amp, Some z => match gm r z amp with Some (p, fl) => Imf p fl 0 | None => ConvergeError 0 end
      | _, _ => ConvergeError 0                       (* IndexError *)
      end.

  Definition mask_table : list (string * handler V) :=
    [ ("X.copy()", sig_identity);
      ("imf[:, -1].std()",
        fun args kw => match args, kw with
                       | [m], [] => match cols_of m with
                                    | Some l => Ok (VOpaque "std" [VSig (last l vzero)])
                                    | None => Bad
                                    end
                       | _, _ => Bad
                       end);
      ("np.ndim",                                (* a single number, or array_like *)
        fun args kw => match args, kw with
                       | [v], [] => if is_opaque0 v "mask_amp" then Ok (VNat 0)
                                    else match v with VList _ => Ok (VNat 1) | _ => Bad end
                       | _, _ => Bad
                       end);
      ("*", fun args kw => match args, kw with [a; sd], [] => Ok (VOpaque "amp" [a; sd]) | _, _ => Bad end);
      ("get_next_imf_mask",
        fun args kw =>
          match args, kw with
          | [VSig r; z; amp], [_; _; _; _; _] =>
              if keys_are kw ["nphases"; "nprocesses"; "imf_opts"; "envelope_opts"; "extrema_opts"] then
                match gm r z amp with
                | Some (p, fl) => Ok (VList [VSig p; VBool fl])
                | None => Exc "EMDSiftCovergeError"
                end
              else Bad
          | _, _ => Bad
          end);
      ("np.concatenate",
        fun args kw =>
          match args, kw with
          | [VList [a; b]], [(k, VNat 1)] =>
              if String.eqb k "axis" then
                match cols_of a, cols_of b with
                | Some la, Some lb => Ok (VOpaque "matrix" (map VSig (la ++ lb)))
                | _, _ => Bad
                end
              else Bad
          | _, _ => Bad
          end);
      ("imf.sum(axis=1)[:, None]",
        fun args kw => match args, kw with
                       | [m], [] => match cols_of m with
                                    | Some l => Ok (VSig (vsum V vzero vadd l))
                                    | None => Bad
                                    end
                       | _, _ => Bad
                       end);
      ("-", fun args kw => match args, kw with [VSig a; VSig b], [] => Ok (VSig (vsub a b)) | _, _ => Bad end);
      ("np.abs(next_imf).sum()",
        fun args kw => match args, kw with [VSig x], [] => Ok (VOpaque "abs_sum" [VSig x]) | _, _ => Bad end);
      ("<", fun args kw =>
              match args, kw with
              | [VOpaque t [VSig x]; th], [] =>
                  if String.eqb t "abs_sum" && is_opaque0 th "sift_thresh" then Ok (VBool (small x)) else Bad
              | _, _ => Bad
              end) ].

  Definition mask_prims : prims V := prims_of mask_table.

  (* the other parameters, which the loop only passes on: any values *)
  Record mask_rest := { r_step_factor : val V; r_nphases : val V; r_nprocesses : val V; r_verbose : val V;
                        r_imf_opts : val V; r_envelope_opts : val V; r_extrema_opts : val V }.

  (* the parameters of mask_sift in the order of the def line, as they stand when the loop is reached;
     max_imfs is at least 1 there (it is None or S k) *)
  Definition mask_args (k : option nat) (rmf : bool) (X : V) (o : mask_rest) : list (val V) :=
    [ VSig X;                          (* X *)
      ma_val;                          (* mask_amp *)
      VStr (mode_str mode);            (* mask_amp_mode *)
      VList fs;                        (* mask_freqs *)
      r_step_factor o;                 (* mask_step_factor *)
      VBool rmf;                       (* ret_mask_freq *)
      cap_val (option_map S k);        (* max_imfs *)
      VOpaque "sift_thresh" [];        (* sift_thresh *)
      r_nphases o; r_nprocesses o; r_verbose o; r_imf_opts o; r_envelope_opts o; r_extrema_opts o ].

  (* the frame when the translated region is entered: the parameters and sd *)
  Definition mask_entry : list string := params_mask_sift ++ ["sd"].
  Definition mask_names : list string := Eval cbv in assigned prog_mask_sift (params_mask_sift ++ ["sd"]).

  Definition mask_env0 k rmf X o : env V :=
    frame mask_entry mask_names (mask_args k rmf X o ++ [sd0]).

  (* how the model's run shows at the Python level; the model has one "raised" for both exceptions *)
  Definition mask_agrees (rmf : bool) (o : outcome V) (r : list V * exit_flags) : Prop :=
    let (acc, fl) := r in
    if out_of_fuel fl then o = OutOfFuel
    else if raised fl then o = Raise "EMDSiftCovergeError" \/ o = Raise "IndexError"
    else o = Return (if rmf then VList [mat_val acc; VList fs] else mat_val acc).
End MaskPrims.


Arguments mask_agrees {V}.
