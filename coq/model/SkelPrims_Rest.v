(* Control-skeleton tie of three functions the earlier ties left untied (notes/TIE_REST.md): THE REVIEWABLE PART.
   Definitions only: values, primitive mapping tables, initial environments, renderings.
     1. emd/sift.py     _get_function_opts, get_config   <->  model/Config.v + gen/Gen_Defaults.v        (C18)
     2. emd/spectra.py  quadrature_transform             <->  model/Freq.v  quadrature / quad_mask       (C09)
     3. emd/cycles.py   phase_align                      <->  model/CycleStat.v  phase_align             (C14)
   Proofs: proofs/SkelFacts_Rest.v; statements: props/Prop_Tie_Rest.v.
   Unqualified constructors (Ok, VStr, VList, ...) are PyLoop's; the models' are qualified (Config.Ok, ...). *)
From Coq Require Import String List Bool Arith ZArith QArith Qcanon.
From EmdV Require Import lib.PyLoop lib.PyLoopTools gen.Gen_Skel_Rest gen.Gen_Skel_Restspectra gen.Gen_Skel_Restcycles.
From EmdV Require model.Config gen.Gen_Defaults model.Freq model.CycleStat.
Close Scope Q_scope.
Close Scope Z_scope.
Open Scope nat_scope.
Import ListNotations.
Open Scope string_scope.

(* ================================================================================================== *)
(* 1. _get_function_opts and get_config                                                                 *)
(* ================================================================================================== *)
(* VALUES.  Carrier [rval]:
     RTree t       a Python object that can sit in a configuration: an option value (Leaf) or a dict (Node)
     RCfg ty st    a SiftConfig instance: self.sift_type = ty, self.store = st (object state is a value: the store
                   primitives of the translator, N11, return the NEW value of the base variable)
   A function object of the module emd.sift is [VOpaque "function" [VStr name]], inspect.signature(func) is
   [VOpaque "signature" [VStr name]], its .parameters mapping [VOpaque "parameters" [VStr name]].
   `inspect.signature` IS THE TABLE [sigs : Config.sigtab] (for the theorems about get_config: Gen_Defaults.sig_defaults,
   regenerated from the def lines of the source on every run): parameter names in order, each with its default
   (None = a required parameter, whose .default is the class inspect.Parameter.empty - NOT representable as a
   Config.tree; every call in get_config ignores 'X', the only required parameter of the functions it inspects). *)
Inductive rval :=
| RTree (t : Config.tree)
| RCfg (ty : string) (st : Config.tree).

Definition rv := val rval.
Definition tree_val (t : Config.tree) : rv := VSig (RTree t).
Definition cfg_val (ty : string) (st : Config.tree) : rv := VSig (RCfg ty st).
Definition fn_val (name : string) : rv := VOpaque "function" [VStr name].
Definition strs_val (l : list string) : rv := VList (map (@VStr rval) l).

Definition tagged1 (tag : string) (v : rv) : option string :=
  match v with VOpaque t [VStr n] => if String.eqb t tag then Some n else None | _ => None end.

(* a Python list of string literals *)
Fixpoint strs (l : list rv) : option (list string) :=
  match l with
  | [] => Some []
  | VStr s :: r => match strs r with Some ss => Some (s :: ss) | None => None end
  | _ => None
  end.

Definition err_name (e : Config.err) : string :=
  match e with
  | Config.EKey => "KeyError"
  | Config.ENotMap => "TypeError"
  | Config.ETooDeep => "ValueError"
  | Config.EYaml => "YAMLError"
  end.
Definition res_of {A : Type} (f : A -> rv) (r : Config.result A) : res rv :=
  match r with Config.Ok a => Ok (f a) | Config.Err e => Exc (err_name e) end.

Definition builtin (name : string) : handler rval :=                  (* N15: a global read in value position *)
  fun args kw => match args, kw with [], [] => Ok (VOpaque name []) | _, _ => Bad end.
Definition const (v : rv) : handler rval :=
  fun args kw => match args, kw with [], [] => Ok v | _, _ => Bad end.

(* ---- THE MODEL of _get_function_opts (model/Config.v has none; fn_opts_stage_names relates it to Config.stage_names /
   Config.sig_default).  The loop of the source, literally: for p in the parameter names, in order,
   `if p not in out.keys() and p not in ignore: out[p] = sig.parameters[p].default`.
   None = a required parameter was not ignored (the dict would hold inspect.Parameter.empty: not a Config.tree). *)
Section FnOpts.
  Variable sigs : Config.sigtab.

  Definition opts_step (fn : string) (ign : list string) (out : option (list (string * Config.tree))) (p : string)
    : option (list (string * Config.tree)) :=
    match out with
    | None => None
    | Some o =>
        if negb (Config.amem p o) && negb (Config.mem_str p ign)
        then match Config.lookup p (Config.params sigs fn) with
             | Some (Some t) => Some (Config.aset p t o)
             | _ => None
             end
        else Some o
    end.
  Definition fn_opts (fn : string) (ign : list string) : option (list (string * Config.tree)) :=
    fold_left (opts_step fn ign) (map fst (Config.params sigs fn)) (Some []).

  (* ---- _get_function_opts: the primitive mapping table ---- *)
  Definition opts_table : list (string * handler rval) :=
    [ ("{}", const (tree_val (Config.Node [])));
      ("inspect.signature",
        fun args kw => match args, kw with
                       | [f], [] => match tagged1 "function" f with
                                    | Some fn => Ok (VOpaque "signature" [VStr fn])
                                    | None => Bad end
                       | _, _ => Bad end);
      ("sig.parameters",
        fun args kw => match args, kw with
                       | [s], [] => match tagged1 "signature" s with
                                    | Some fn => Ok (VOpaque "parameters" [VStr fn])
                                    | None => Bad end
                       | _, _ => Bad end);
      (* iterating the mapping sig.parameters: the parameter names, in the order of the def line *)
      ("iter",
        fun args kw => match args, kw with
                       | [m], [] => match tagged1 "parameters" m with
                                    | Some fn => Ok (strs_val (map fst (Config.params sigs fn)))
                                    | None => Bad end
                       | _, _ => Bad end);
      ("p not in out.keys()",
        fun args kw => match args, kw with
                       | [VStr p; VSig (RTree (Config.Node o))], [] => Ok (VBool (negb (Config.amem p o)))
                       | _, _ => Bad end);
      ("p not in ignore",
        fun args kw => match args, kw with
                       | [VStr p; VList l], [] => match strs l with
                                                  | Some ign => Ok (VBool (negb (Config.mem_str p ign)))
                                                  | None => Bad end
                       | _, _ => Bad end);
      ("sig.parameters[p].default",
        fun args kw => match args, kw with
                       | [s; VStr p], [] =>
                           match tagged1 "signature" s with
                           | Some fn => match Config.lookup p (Config.params sigs fn) with
                                        | Some (Some t) => Ok (tree_val t)
                                        | Some None => Ok (VOpaque "inspect.Parameter.empty" [])
                                        | None => Exc "KeyError"
                                        end
                           | None => Bad end
                       | _, _ => Bad end);
      (* out[p] = v on the dict being built: returns the new dict (v must be representable) *)
      ("out[p] =",
        fun args kw => match args, kw with
                       | [VSig (RTree (Config.Node o)); VStr p; VSig (RTree v)], [] =>
                           Ok (tree_val (Config.Node (Config.aset p v o)))
                       | _, _ => Bad end) ].
  Definition opts_prims : prims rval := prims_of opts_table.

  Definition opts_names : list string := Eval cbv in assigned prog_get_function_opts params_get_function_opts.
  (* func = the module's function fn; ignore = None (the default) or a list of strings *)
  Definition ignore_val (ign : option (list string)) : rv :=
    match ign with Some l => strs_val l | None => VNone end.
  Definition ignore_list (ign : option (list string)) : list string :=
    match ign with Some l => l | None => [] end.
  Definition opts_env0 (fn : string) (ign : option (list string)) : env rval :=
    frame params_get_function_opts opts_names [fn_val fn; ignore_val ign].

  (* ---- get_config: the primitive mapping table ---- *)
  Variable undefined : list string.        (* names that the module emd.sift does NOT define (Gen_Defaults.undefined_variants) *)

  (* SiftConfig.__setitem__ (tied by tie-config, skeleton_setitem: = Config.setitem, slash paths included):
     returns the new object, or raises *)
  Definition cfg_set (key : string) (out v : rv) : res rv :=
    match out, v with
    | VSig (RCfg ty st), VSig (RTree t) => res_of (cfg_val ty) (Config.setitem key t st)
    | _, _ => Bad
    end.
  Definition cfg_set_lit (key : string) : handler rval :=
    fun args kw => match args, kw with [out; v], [] => cfg_set key out v | _, _ => Bad end.

  Definition config_table : list (string * handler rval) :=
    [ (* the hard-coded pad option dicts *)
      ("{'mode': 'median', 'stat_length': 1}",
        const (tree_val (Config.Node [("mode", Config.Leaf (Config.VStr "median"));
                                      ("stat_length", Config.Leaf (Config.VInt 1))])));
      ("{'mode': 'reflect', 'reflect_type': 'odd'}",
        const (tree_val (Config.Node [("mode", Config.Leaf (Config.VStr "reflect"));
                                      ("reflect_type", Config.Leaf (Config.VStr "odd"))])));
      (* N15: sibling functions read in value position *)
      ("get_padded_extrema", const (fn_val "get_padded_extrema"));
      ("interp_envelope", const (fn_val "interp_envelope"));
      ("get_next_imf", const (fn_val "get_next_imf"));
      (* the call of _get_function_opts: justified by skeleton_get_function_opts *)
      ("_get_function_opts",
        fun args kw => match args, kw with
                       | [f], [(k, VList l)] =>
                           if String.eqb k "ignore"
                           then match tagged1 "function" f, strs l with
                                | Some fn, Some ign => match fn_opts fn ign with
                                                       | Some o => Ok (tree_val (Config.Node o))
                                                       | None => Bad end
                                | _, _ => Bad end
                           else Bad
                       | _, _ => Bad end);
      ("siftname in sift_types",
        fun args kw => match args, kw with
                       | [VStr s; VList l], [] => match strs l with
                                                  | Some ts => Ok (VBool (Config.mem_str s ts))
                                                  | None => Bad end
                       | _, _ => Bad end);
      ("sys.modules", builtin "sys.modules");
      ("__name__", builtin "__name__");
      (* EIndex on a non-list: sys.modules[__name__] = this module; sift_opts[key] = Config.idx *)
      ("getitem",
        fun args kw => match args, kw with
                       | [VSig (RTree d); VStr k], [] => res_of tree_val (Config.idx k d)
                       | [m; n], [] => if is_opaque0 m "sys.modules" && is_opaque0 n "__name__"
                                       then Ok (VOpaque "emd.sift" []) else Bad
                       | _, _ => Bad end);
      (* getattr(mod, siftname): a function whose def line is in the table; AttributeError for the names known to be
         undefined; anything else is outside the table (Stuck) *)
      ("getattr",
        fun args kw => match args, kw with
                       | [m; VStr s], [] =>
                           if is_opaque0 m "emd.sift"
                           then match Config.lookup s sigs with
                                | Some _ => Ok (fn_val s)
                                | None => if Config.mem_str s undefined then Exc "AttributeError" else Bad
                                end
                           else Bad
                       | _, _ => Bad end);
      ("str.format", fun args kw => match args, kw with [VStr _; VList _], [] => Ok (VOpaque "message" []) | _, _ => Bad end);
      (* SiftConfig(siftname): that type, an empty store *)
      ("SiftConfig", fun args kw => match args, kw with [VStr s], [] => Ok (cfg_val s (Config.Node [])) | _, _ => Bad end);
      (* iterating a dict: its keys in insertion order *)
      ("iter",
        fun args kw => match args, kw with
                       | [VSig (RTree (Config.Node kids))], [] => Ok (strs_val (map fst kids))
                       | _, _ => Bad end);
      ("out[key] =", fun args kw => match args, kw with [out; VStr k; v], [] => cfg_set k out v | _, _ => Bad end);
      ("out['imf_opts'] =", cfg_set_lit "imf_opts");
      ("out['envelope_opts'] =", cfg_set_lit "envelope_opts");
      ("out['extrema_opts'] =", cfg_set_lit "extrema_opts");
      ("out['extrema_opts/mag_pad_opts'] =", cfg_set_lit "extrema_opts/mag_pad_opts");
      ("out['extrema_opts/loc_pad_opts'] =", cfg_set_lit "extrema_opts/loc_pad_opts") ].
  Definition config_prims : prims rval := prims_of config_table.

  Definition config_names : list string := Eval cbv in assigned prog_get_config params_get_config.
  Definition config_env0 (siftname : string) : env rval := frame params_get_config config_names [VStr siftname].
End FnOpts.

(* the list literal `sift_types` of get_config *)
Definition SIFT_TYPES : list string :=
  ["sift"; "ensemble_sift"; "complete_ensemble_sift"; "mask_sift"; "mask_sift_adaptive"; "mask_sift_specified"].

(* THE IGNORE LIST OF THE VARIANT'S OWN OPTIONS, AS EXECUTED.  The source reads
     ignore=['X', 'imf_opts' 'envelope_opts', 'extrema_opts']
   - a missing comma: Python concatenates the adjacent literals, the list has THREE elements and neither 'imf_opts' nor
   'envelope_opts' is ignored (see missing_comma_visible / missing_comma_harmless in props/Prop_Tie_Rest.v). *)
Definition VARIANT_IGNORE_AS_WRITTEN : list string := ["X"; "imf_optsenvelope_opts"; "extrema_opts"].
Definition VARIANT_IGNORE_INTENDED : list string := ["X"; "imf_opts"; "envelope_opts"; "extrema_opts"].

(* The assembly of get_config as a function of the tables (model/Config.v has none: it only has the generated
   config_trees).  ign = the ignore list of the variant's own options.  Used to STATE the consequence of the missing
   comma; the tie itself (skeleton_get_config) is against Gen_Defaults.config_trees directly.
   None = a dict is not representable (fn_opts); Some (Err e) = a __setitem__ raises. *)
Definition MAG_PAD : Config.tree :=
  Config.Node [("mode", Config.Leaf (Config.VStr "median")); ("stat_length", Config.Leaf (Config.VInt 1))].
Definition LOC_PAD : Config.tree :=
  Config.Node [("mode", Config.Leaf (Config.VStr "reflect")); ("reflect_type", Config.Leaf (Config.VStr "odd"))].
Definition config_model (sigs : Config.sigtab) (ign : list string) (v : string) : option (Config.result Config.tree) :=
  match fn_opts sigs "get_padded_extrema" ["X"; "mag_pad_opts"; "loc_pad_opts"; "mode"],
        fn_opts sigs "interp_envelope" ["X"; "extrema_opts"; "mode"; "ret_extrema"],
        fn_opts sigs "get_next_imf" ["X"; "envelope_opts"; "extrema_opts"],
        fn_opts sigs v ign with
  | Some xo, Some eo, Some io, Some so =>
      Some (Config.bind
              (fold_left (fun st k => Config.bind st (fun s =>
                                      Config.bind (Config.idx k (Config.Node so)) (fun x => Config.setitem k x s)))
                         (map fst so) (Config.Ok (Config.Node [])))
              (fun s => Config.bind (Config.setitem "imf_opts" (Config.Node io) s)
              (fun s => Config.bind (Config.setitem "envelope_opts" (Config.Node eo) s)
              (fun s => Config.bind (Config.setitem "extrema_opts" (Config.Node xo) s)
              (fun s => Config.bind (Config.setitem "extrema_opts/mag_pad_opts" MAG_PAD s)
              (fun s => Config.setitem "extrema_opts/loc_pad_opts" LOC_PAD s))))))
  | _, _, _, _ => None
  end.

(* ================================================================================================== *)
(* 2. spectra.quadrature_transform  <->  Freq.quadrature / Freq.quad_mask                               *)
(* ================================================================================================== *)
(* VALUES.  A 2-D array is the list of its COLUMNS (every operation of the function works along axis 0, column by
   column), numbers are the model's canonical rationals Qc:
     QArr a     a real (or integer) array          QBool b    a boolean array
     QScal q    a scalar                           QImag a    the purely imaginary array 1j * a
     QCplx c    a complex array, (re, im) per entry
   The literal `1j` is [VOpaque "1j" []]. *)
Inductive qv :=
| QArr (a : list (list Qc))
| QBool (b : list (list bool))
| QScal (q : Qc)
| QImag (a : list (list Qc))
| QCplx (c : list (list (Qc * Qc))).

Definition map2 {A B} (f : A -> B) (a : list (list A)) : list (list B) := map (map f) a.
Definition zip2 {A B C} (f : A -> B -> C) (a : list (list A)) (b : list (list B)) : list (list C) :=
  Freq.zipw (Freq.zipw f) a b.
Definition is_nil {A} (l : list A) : bool := match l with [] => true | _ => false end.
(* a column with fewer than 2 samples (the same test as SkelPrims_Freq.short_col) *)
Definition short_col (a : list (list Qc)) : bool := existsb (fun c => Nat.ltb (length c) 2) a.

Section QuadPrims.
  Variable qsqrt : Qc -> Qc.                              (* np.lib.scimath.sqrt(.).real *)
  Variable env_comb : list Qc -> option (list Qc).        (* interp_envelope(mode='combined') *)
  Variable thresh : Qc.                                   (* amplitude_normalise's 1e-10 *)

  (* utils.amplitude_normalise(X, clip=True), all other arguments at their defaults (max_iters = 3): tied by tie-freq
     (Prop_Tie_Freq.skeleton_amplitude_normalise: an_spec 3 true) *)
  Definition norm_arr (a : list (list Qc)) : list (list Qc) :=
    map (fun c => map Freq.clip1 (Freq.amplitude_normalise env_comb thresh c)) a.

  Definition quad_table : list (string * handler qv) :=
    [ ("X.copy()", fun args kw => match args, kw with [VSig (QArr a)], [] => Ok (VSig (QArr a)) | _, _ => Bad end);
      ("utils.amplitude_normalise",
        fun args kw => match args, kw with
                       | [VSig (QArr a)], [(k, VBool true)] =>
                           if String.eqb k "clip" then Ok (VSig (QArr (norm_arr a))) else Bad
                       | _, _ => Bad end);
      (* entrywise sqrt(1 - v^2) (real part; the model's oracle qsqrt) *)
      ("np.lib.scimath.sqrt(1 - np.power(nX, 2)).real",
        fun args kw => match args, kw with
                       | [VSig (QArr a)], [] => Ok (VSig (QArr (map2 (fun v => qsqrt (1 - v * v)%Qc) a)))
                       | _, _ => Bad end);
      ("np.diff",
        fun args kw => match args, kw with
                       | [VSig (QArr a)], [(k, VNat 0)] =>
                           if String.eqb k "axis" then Ok (VSig (QArr (map Freq.diffs a))) else Bad
                       | _, _ => Bad end);
      (* array > 0 *)
      (">",
        fun args kw => match args, kw with
                       | [VSig (QArr a); VNat 0], [] => Ok (VSig (QBool (map2 (fun d => Freq.qltb 0%Qc d) a)))
                       | _, _ => Bad end);
      ("-2", fun args kw => match args, kw with [], [] => Ok (VSig (QScal (- Freq.q2)%Qc)) | _, _ => Bad end);
      ("-1", fun args kw => match args, kw with [], [] => Ok (VSig (QScal (- (1))%Qc)) | _, _ => Bad end);
      ("1j", fun args kw => match args, kw with [], [] => Ok (VOpaque "1j" []) | _, _ => Bad end);
      ("*",
        fun args kw => match args, kw with
                       | [VSig (QBool b); VSig (QScal s)], [] =>                 (* True -> s, False -> 0 *)
                           Ok (VSig (QArr (map2 (fun t : bool => if t then s else 0%Qc) b)))
                       | [VSig (QArr a); VSig (QArr b)], [] => Ok (VSig (QArr (zip2 Qcmult a b)))
                       | [j; VSig (QArr a)], [] => if is_opaque0 j "1j" then Ok (VSig (QImag a)) else Bad
                       | _, _ => Bad end);
      ("+",
        fun args kw => match args, kw with
                       | [VSig (QArr a); VNat 1], [] => Ok (VSig (QArr (map2 (fun v => (v + 1)%Qc) a)))
                       | [VSig (QArr a); VSig (QImag b)], [] => Ok (VSig (QCplx (zip2 pair a b)))
                       | _, _ => Bad end);
      (* the boolean-mask store: entries equal to 0 are replaced; returns the new mask *)
      ("mask[mask == 0] =",
        fun args kw => match args, kw with
                       | [VSig (QArr m); VSig (QScal s)], [] =>
                           Ok (VSig (QArr (map2 (fun v => if Qc_eq_bool v 0%Qc then s else v) m)))
                       | _, _ => Bad end);
      (* append the last row: mask[-1] of an array without rows is an IndexError *)
      ("np.r_[mask, mask[-1, None, :]]",
        fun args kw => match args, kw with
                       | [VSig (QArr m)], [] =>
                           if existsb is_nil m then Exc "IndexError"
                           else Ok (VSig (QArr (map (fun c => (c ++ [last c 0%Qc])%list) m)))
                       | _, _ => Bad end) ].
  Definition quad_prims : prims qv := prims_of quad_table.

  Definition quad_names : list string := Eval cbv in assigned prog_quadrature_transform params_quadrature_transform.
  Definition quad_env0 (a : list (list Qc)) : env qv :=
    frame params_quadrature_transform quad_names [VSig (QArr a)].

  (* the model, column by column; the code's IndexError when np.diff has no row (the model's quad_mask is total) *)
  Definition quad_render (short : bool) (a : list (list Qc)) : outcome qv :=
    if short then Raise "IndexError" else Return (VSig (QCplx (map (Freq.quadrature qsqrt env_comb thresh) a))).
End QuadPrims.

(* ================================================================================================== *)
(* 3. cycles.phase_align  <->  CycleStat.phase_align_cycle (exact rational linear interpolation per cycle)  *)
(* ================================================================================================== *)
(* VALUES (numbers are the model's rationals Q):
     PVec l     a 1-D float array (ip, x, the phase / values of one cycle, the phase grid)
     PIdx l     an index array (the sample indices of one cycle)
     PMat cols  the output matrix `avg`, as the list of its columns
     PCyc m     THE ITERABLE CYCLES OBJECT (an IterateCycles instance), CARRYING ITS ATTRIBUTE .mode = m.  The statement
                `cycles.mode = mode` is an attribute store (N11): it returns the object with the new mode.  Iterating the
                object (primitive "iter") yields the (index, sample indices) pairs FOR THE MODE IT CARRIES - so dropping
                or moving that assignment changes what the loop sees.
   The interpolant `f = interp.interp1d(phase_data, x_data, kind='linear', ..)` is [VOpaque "interp1d" [PVec xs; PVec ys]]
   and `f(phase_bins)` (N16: the call carries f) evaluates it. *)
Inductive pval :=
| PVec (l : list Q)
| PIdx (l : list nat)
| PMat (cols : list (list Q))
| PCyc (mode : string).

Inductive pmode := MCycle | MAug.
Definition pmode_str (m : pmode) : string := match m with MCycle => "cycle" | MAug => "augmented" end.

Definition gather (l : list Q) (inds : list nat) : list Q := map (fun i => nth i l 0%Q) inds.     (* l[inds] *)
Definition set_col (i : nat) (c : list Q) (cols : list (list Q)) : list (list Q) :=
  (firstn i cols ++ c :: skipn (S i) cols)%list.

Section AlignPrims.
  (* ---- oracles ---- *)
  Variable pairs : pmode -> list (nat * option (list nat)).   (* what iterating the cycles object yields, per mode *)
  Variable nsamples : nat.                                    (* cycles.nsamples *)
  Variable niters : nat.                                      (* cycles.niters *)
  Variable grid : pmode -> nat -> list Q.                     (* the bin centres of spectra.define_hist_bins(lo, 2pi, n) *)
  Variable edges : pmode -> nat -> list Q.                    (* its bin edges (not used by the function) *)
  Variable unwrap : list Q -> list Q.                         (* np.unwrap *)
  Variable tau : Q.                                           (* 2 * np.pi *)

  (* ---- THE MODEL of the whole function (model/CycleStat.v has the per-cycle column phase_align_cycle) ---- *)
  Definition cycle_phase (m : pmode) (p : list Q) : list Q :=
    match m with MCycle => p | MAug => map (fun v => (v - tau)%Q) (unwrap p) end.
  Definition align_col (m : pmode) (ip x : list Q) (n : nat) (inds : list nat) : list Q :=
    CycleStat.phase_align_cycle (cycle_phase m (gather ip inds)) (gather x inds) (grid m n).
  (* one pair: skipped when ii is given and differs, or when the cycle has no samples (None); None = IndexError *)
  Definition align_step (m : pmode) (ii : option nat) (ip x : list Q) (n : nat)
             (cols : list (list Q)) (pr : nat * option (list nat)) : option (list (list Q)) :=
    let keep := match ii with Some i => Nat.eqb (fst pr) i | None => true end in
    if keep then
      match snd pr with
      | None => Some cols
      | Some inds => if Nat.ltb (fst pr) (length cols) then Some (set_col (fst pr) (align_col m ip x n inds) cols)
                     else None
      end
    else Some cols.
  Fixpoint align_fold (m : pmode) (ii : option nat) (ip x : list Q) (n : nat)
           (cols : list (list Q)) (l : list (nat * option (list nat))) : option (list (list Q)) :=
    match l with
    | [] => Some cols
    | pr :: t => match align_step m ii ip x n cols pr with
                 | Some cols' => align_fold m ii ip x n cols' t
                 | None => None
                 end
    end.
  Definition zeros (n k : nat) : list (list Q) := repeat (repeat 0%Q n) k.
  Definition phase_align_model (m : pmode) (ii : option nat) (ip x : list Q) (n : nat) : option (list (list Q)) :=
    align_fold m ii ip x n (zeros n niters) (pairs m).

  (* ---- the primitive mapping table ---- *)
  Definition pair_val (pr : nat * option (list nat)) : val pval :=
    VList [VNat (fst pr); match snd pr with Some inds => VSig (PIdx inds) | None => VNone end].
  Definition is_kw (kw : list (string * val pval)) (k : string) (v : val pval -> bool) : bool :=
    match kw with [(k', x)] => String.eqb k' k && v x | _ => false end.

  Definition align_table : list (string * handler pval) :=
    [ (* ensure_vector([ip, x], ..) on two vectors: they are returned as they are (tie-support) *)
      ("ensure_vector",
        fun args kw => match args, kw with
                       | [VList [VSig (PVec a); VSig (PVec b)]; VList [VStr _; VStr _]; VStr _], [] =>
                           Ok (VList [VSig (PVec a); VSig (PVec b)])
                       | _, _ => Bad end);
      (* ensure_equal_dims: ValueError unless the shapes agree *)
      ("ensure_equal_dims",
        fun args kw => match args, kw with
                       | [VList [VSig (PVec a); VSig (PVec b)]; VList [VStr _; VStr _]; VStr _], [] =>
                           if Nat.eqb (length a) (length b) then Ok VNone else Exc "ValueError"
                       | _, _ => Bad end);
      (* cycles=None: the cycle vector of ip, wrapped by _ensure_cycle_inputs into IterateCycles(cycle_vect=..),
         whose constructor default is mode='cycle'; an IterateCycles is returned as it is *)
      ("get_cycle_vector",
        fun args kw => match args, kw with
                       | [VSig (PVec _)], [(k, VBool false)] =>
                           if String.eqb k "return_good" then Ok (VOpaque "cycle_vect" []) else Bad
                       | _, _ => Bad end);
      ("_ensure_cycle_inputs",
        fun args kw => match args, kw with
                       | [VSig (PCyc m)], [] => Ok (VSig (PCyc m))
                       | [v], [] => if is_opaque0 v "cycle_vect" then Ok (VSig (PCyc "cycle")) else Bad
                       | _, _ => Bad end);
      (* THE ATTRIBUTE STORE: the object with its mode replaced *)
      ("cycles.mode =",
        fun args kw => match args, kw with
                       | [VSig (PCyc _); VStr s], [] => Ok (VSig (PCyc s))
                       | _, _ => Bad end);
      ("cycles.nsamples", fun args kw => match args, kw with [VSig (PCyc _)], [] => Ok (VNat nsamples) | _, _ => Bad end);
      ("cycles.niters", fun args kw => match args, kw with [VSig (PCyc _)], [] => Ok (VNat niters) | _, _ => Bad end);
      ("ip.shape", fun args kw => match args, kw with [VSig (PVec l)], [] => Ok (VList [VNat (length l)]) | _, _ => Bad end);
      ("np.pi", fun args kw => match args, kw with [], [] => Ok (VOpaque "np.pi" []) | _, _ => Bad end);
      ("-np.pi / 2", fun args kw => match args, kw with [], [] => Ok (VOpaque "-np.pi / 2" []) | _, _ => Bad end);
      ("*",
        fun args kw => match args, kw with
                       | [VNat 2; p], [] => if is_opaque0 p "np.pi" then Ok (VOpaque "2pi" []) else Bad
                       | _, _ => Bad end);
      (* (edges, centres) of the phase grid: from 0 in mode 'cycle', from -pi/2 in mode 'augmented' *)
      ("spectra.define_hist_bins",
        fun args kw => match args, kw with
                       | [VNat 0; w; VNat n], [] =>
                           if is_opaque0 w "2pi"
                           then Ok (VList [VSig (PVec (edges MCycle n)); VSig (PVec (grid MCycle n))]) else Bad
                       | [lo; w; VNat n], [] =>
                           if is_opaque0 lo "-np.pi / 2" && is_opaque0 w "2pi"
                           then Ok (VList [VSig (PVec (edges MAug n)); VSig (PVec (grid MAug n))]) else Bad
                       | _, _ => Bad end);
      ("np.zeros",
        fun args kw => match args, kw with
                       | [VList [VNat n; VNat k]], [] => Ok (VSig (PMat (zeros n k)))
                       | _, _ => Bad end);
      (* ITERATING THE CYCLES OBJECT: the pairs for the mode that was set on it *)
      ("iter",
        fun args kw => match args, kw with
                       | [VSig (PCyc m)], [] =>
                           if String.eqb m "cycle" then Ok (VList (map pair_val (pairs MCycle)))
                           else if String.eqb m "augmented" then Ok (VList (map pair_val (pairs MAug)))
                           else Bad
                       | _, _ => Bad end);
      (* `cind is not ii` on two ints (identity of small ints = equality, see the limits in notes/TIE_REST.md) *)
      ("cind is not ii",
        fun args kw => match args, kw with
                       | [VNat c; VNat i], [] => Ok (VBool (negb (Nat.eqb c i)))
                       | _, _ => Bad end);
      ("ip[cycle_inds].copy()",
        fun args kw => match args, kw with
                       | [VSig (PVec l); VSig (PIdx inds)], [] => Ok (VSig (PVec (gather l inds)))
                       | _, _ => Bad end);
      (* x[cycle_inds]: EIndex on a non-list *)
      ("getitem",
        fun args kw => match args, kw with
                       | [VSig (PVec l); VSig (PIdx inds)], [] => Ok (VSig (PVec (gather l inds)))
                       | _, _ => Bad end);
      ("np.unwrap", fun args kw => match args, kw with [VSig (PVec p)], [] => Ok (VSig (PVec (unwrap p))) | _, _ => Bad end);
      ("-",
        fun args kw => match args, kw with
                       | [VSig (PVec p); w], [] =>
                           if is_opaque0 w "2pi" then Ok (VSig (PVec (map (fun v => (v - tau)%Q) p))) else Bad
                       | _, _ => Bad end);
      (* the interpolant: only kind='linear' is modelled *)
      ("interp.interp1d",
        fun args kw => match args, kw with
                       | [VSig (PVec xs); VSig (PVec ys)], [(k1, VStr kind); (k2, VBool false); (k3, VStr fv)] =>
                           if String.eqb k1 "kind" && String.eqb kind "linear" && String.eqb k2 "bounds_error"
                              && String.eqb k3 "fill_value" && String.eqb fv "extrapolate"
                           then Ok (VOpaque "interp1d" [VSig (PVec xs); VSig (PVec ys)]) else Bad
                       | _, _ => Bad end);
      (* N16: the call of the local callable carries it *)
      ("f(phase_bins)",
        fun args kw => match args, kw with
                       | [VOpaque t [VSig (PVec xs); VSig (PVec ys)]; VSig (PVec g)], [] =>
                           if String.eqb t "interp1d" then Ok (VSig (PVec (CycleStat.phase_align_cycle xs ys g))) else Bad
                       | _, _ => Bad end);
      (* the column store: returns the new matrix *)
      ("avg[:, cind] =",
        fun args kw => match args, kw with
                       | [VSig (PMat cols); VNat c; VSig (PVec col)], [] =>
                           if Nat.ltb c (length cols) then Ok (VSig (PMat (set_col c col cols))) else Exc "IndexError"
                       | _, _ => Bad end) ].
  Definition align_prims : prims pval := prims_of align_table.

  Definition align_names : list string := Eval cbv in assigned prog_phase_align params_phase_align.
  (* cycles: None (not given) or an IterateCycles whose mode attribute currently is m0; ii: None or a cycle index *)
  Definition cycles_val (c : option string) : val pval := match c with Some m0 => VSig (PCyc m0) | None => VNone end.
  Definition ii_val (ii : option nat) : val pval := match ii with Some i => VNat i | None => VNone end.
  Definition align_env0 (ip x : list Q) (c : option string) (n : nat) (ii : option nat) (m : pmode) : env pval :=
    frame params_phase_align align_names
      [VSig (PVec ip); VSig (PVec x); cycles_val c; VNat n; VStr "linear"; ii_val ii; VStr (pmode_str m)].

  Definition align_render (m : pmode) (ii : option nat) (ip x : list Q) (n : nat) : outcome pval :=
    if negb (Nat.eqb (length ip) (length x)) then Raise "ValueError"          (* ensure_equal_dims *)
    else if negb (Nat.eqb nsamples (length ip)) then Raise "ValueError"       (* Mismatched inputs *)
    else match phase_align_model m ii ip x n with
         | Some cols => Return (VList [VSig (PMat cols); VSig (PVec (grid m n))])
         | None => Raise "IndexError"
         end.
End AlignPrims.
