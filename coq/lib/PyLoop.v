(* A mini imperative language for the control skeletons that harness/gen_skeleton.py regenerates from
   emd/sift.py on every run (coq/gen/Gen_Skeleton.v), and its big-step interpreter.
   Used by proofs/SkeletonFacts.v: the hand-written loops of model/SiftCore.v are proved to compute exactly
   what the translated programs compute, for every behaviour of the opaque primitives.

   Python semantics kept: `while c:` re-tests c, `continue` jumps to the test, `or`/`and` short-circuit and
   return an operand, `x is None`, comparisons and `+ - * //` natively on non-negative ints and strings
   (everything else is delegated to the primitive table under the operator's name, like __sub__ dispatch),
   truthiness of bool / None / int / str / list natively and of anything else through the primitive "bool",
   tuple unpacking, indexing of lists by ints, unbound names are errors.
   An index out of range raises IndexError. Fail-closed choices: a type error, an unknown primitive, an
   unbound name, an int subtraction that would go negative and a division by zero are all [Stuck] (the
   refinement theorems prove the translated programs never get there).
   Fuel bounds the number of BODY EXECUTIONS of each while loop (the test itself is free), nothing else.

   EXTENSIONS (for the ties of further functions; the constructors above them are unchanged):
   [SFor x it body]   `for x in it:` - [it] is evaluated ONCE; it must be a list value (e.g. what the primitive
                      "range" returned), anything else is handed to the primitive "iter", which must return a
                      list. The body runs once per element with x bound to it; Normal / Continue go on to the
                      next element, Return / Raise / Stuck / OutOfFuel end the loop. No fuel is consumed. With
                      an empty list x stays as it was (unbound if it was). There is no `break` and no for-else.
   [STry body handlers fin]   `try: body except N1: h1 except N2: h2 ... finally: fin` ([fin] = SSkip when there
                      is no finally, [handlers] = [] when there is no except). An exception x raised by the
                      body is handled by the FIRST handler whose name matches: the same name, one of the
                      catch-alls "" (bare except) / "Exception" / "BaseException", otherwise the primitive
                      "issubclass" [VStr x; VStr name] decides (unknown: Stuck). The handler runs in the
                      environment AS IT WAS WHEN THE EXCEPTION WAS RAISED ([final_env], below); an exception
                      raised by a handler is not handled by its siblings. [fin] runs after a Normal, Continue,
                      Return or Raise outcome of body/handler (not after Stuck / OutOfFuel, which are not Python
                      outcomes) in the environment where that outcome arose; if [fin] ends normally the
                      outcome stands (with fin's environment), otherwise fin's own outcome (Return, Raise,
                      Continue, Stuck, OutOfFuel) REPLACES it, as in Python.
   Outcomes do not carry the environment of a Raise / Return, so the interpreter has a companion
   [final_env s fuel e] = the environment in which the execution of s from e stopped (for a Normal / Continue
   outcome it is the environment the outcome carries: [final_env_normal]). It is defined by mutual recursion
   with [exec] and is only ever evaluated for the body and handlers of an STry. *)
From Coq Require Import String List Bool Arith Lia.
Import ListNotations.
Open Scope string_scope.

(* ---- syntax (independent of the signal type) --------------------------------------------- *)
Inductive cmpop := CEq | CNe | CLt | CGt | CLe | CGe.
Inductive arop := AAdd | ASub | AMul | AFloorDiv.

Inductive expr :=
| EVar (x : string)
| ENone
| EBool (b : bool)
| ENat (n : nat)
| EStr (s : string)
| ECall (f : string) (args : list expr) (kwargs : list (string * expr))   (* opaque primitive; key "**" = **splat *)
| EIsNone (e : expr)
| ENot (e : expr)
| EOr (a b : expr)
| EAnd (a b : expr)
| ECmp (op : cmpop) (a b : expr)
| EArith (op : arop) (a b : expr)
| EList (es : list expr)                                                   (* list or tuple display *)
| EIndex (e i : expr).

Inductive stmt :=
| SSkip
| SAssign (x : string) (e : expr)
| SUnpack (xs : list string) (e : expr)
| SSeq (a b : stmt)
| SIf (c : expr) (a b : stmt)
| SWhile (c : expr) (body : stmt)
| SContinue
| SRaise (exn : string) (args : list expr)
| SReturn (e : expr)
| SExpr (e : expr)
| SFor (x : string) (iter : expr) (body : stmt)                            (* for x in iter: body *)
| STry (body : stmt) (handlers : list (string * stmt)) (fin : stmt).      (* try/except.../finally *)

Definition cmp_name (op : cmpop) : string :=
  match op with CEq => "==" | CNe => "!=" | CLt => "<" | CGt => ">" | CLe => "<=" | CGe => ">=" end.
Definition ar_name (op : arop) : string :=
  match op with AAdd => "+" | ASub => "-" | AMul => "*" | AFloorDiv => "//" end.

Definition nat_cmp (op : cmpop) (a b : nat) : bool :=
  match op with
  | CEq => Nat.eqb a b | CNe => negb (Nat.eqb a b)
  | CLt => Nat.ltb a b | CGt => Nat.ltb b a
  | CLe => Nat.leb a b | CGe => Nat.leb b a
  end.

Definition nat_arith (op : arop) (a b : nat) : option nat :=
  match op with
  | AAdd => Some (a + b)
  | ASub => if Nat.leb b a then Some (a - b) else None
  | AMul => Some (a * b)
  | AFloorDiv => match b with O => None | S _ => Some (a / b) end
  end.

Inductive res (A : Type) := Ok (a : A) | Exc (exn : string) | Bad.
Arguments Ok {A}. Arguments Exc {A}. Arguments Bad {A}.

Definition bind {A B} (r : res A) (k : A -> res B) : res B :=
  match r with Ok a => k a | Exc x => Exc x | Bad => Bad end.

Definition map_res {A B} (f : A -> res B) : list A -> res (list B) :=
  fix go l := match l with
              | [] => Ok []
              | a :: t => bind (f a) (fun b => bind (go t) (fun bt => Ok (b :: bt)))
              end.

(* the SSeq spine of a block, and the first while loop on it *)
Fixpoint spine (s : stmt) : list stmt :=
  match s with SSeq a b => a :: spine b | _ => [s] end.

Fixpoint split_at_while (l : list stmt) : option (list stmt * (expr * stmt) * list stmt) :=
  match l with
  | [] => None
  | SWhile c b :: t => Some ([], (c, b), t)
  | s :: t => match split_at_while t with
              | Some (pre, cb, post) => Some (s :: pre, cb, post)
              | None => None
              end
  end.

(* the names a block assigns, in order of first assignment *)
Fixpoint add_name (x : string) (l : list string) : list string :=
  match l with
  | [] => [x]
  | y :: t => if String.eqb x y then l else y :: add_name x t
  end.

Fixpoint assigned (s : stmt) (acc : list string) : list string :=
  match s with
  | SAssign x _ => add_name x acc
  | SUnpack xs _ => fold_left (fun a x => add_name x a) xs acc
  | SSeq a b => assigned b (assigned a acc)
  | SIf _ a b => assigned b (assigned a acc)
  | SWhile _ b => assigned b acc
  | SFor x _ b => assigned b (add_name x acc)
  | STry b hs f =>
      assigned f
        ((fix go (hs : list (string * stmt)) (acc : list string) : list string :=
            match hs with
            | [] => acc
            | (_, h) :: t => go t (assigned h acc)
            end) hs (assigned b acc))
  | _ => acc
  end.

(* ---- semantics --------------------------------------------------------------------------- *)
Section Sem.
  Variable V : Type.

  Inductive val :=
  | VSig (v : V)
  | VBool (b : bool)
  | VNat (n : nat)
  | VStr (s : string)
  | VNone
  | VList (l : list val)
  | VOpaque (tag : string) (args : list val).     (* an uninterpreted value, with its provenance *)

  (* an environment lists the names of a frame in a fixed order; None = not (yet) bound.
     Assigning keeps the position of a listed name and appends an unlisted one, so the environment of a
     frame whose locals are all listed from the start keeps ONE shape: symbolic execution is computation. *)
  Definition env := list (string * option val).
  Definition empty_env : env := [].
  Fixpoint lookup (x : string) (e : env) : option val :=
    match e with
    | [] => None
    | (y, v) :: t => if String.eqb x y then v else lookup x t
    end.
  Fixpoint upd (x : string) (v : val) (e : env) : env :=
    match e with
    | [] => [(x, Some v)]
    | (y, w) :: t => if String.eqb x y then (y, Some v) :: t else (y, w) :: upd x v t
    end.
  Fixpoint env_of (names : list string) (f : string -> option val) : env :=
    match names with
    | [] => []
    | x :: t => (x, f x) :: env_of t f
    end.

  Definition prims := string -> list val -> list (string * val) -> res val.

  Inductive outcome :=
  | Normal (e : env)
  | Continue (e : env)
  | Return (v : val)
  | Raise (exn : string)
  | Stuck
  | OutOfFuel.

  Variable P : prims.

  Definition truthy (v : val) : res bool :=
    match v with
    | VBool b => Ok b
    | VNone => Ok false
    | VNat n => Ok (negb (Nat.eqb n 0))
    | VStr s => Ok (negb (String.eqb s ""))
    | VList l => Ok (match l with [] => false | _ => true end)
    | _ => match P "bool" [v] [] with Ok (VBool b) => Ok b | Ok _ => Bad | Exc x => Exc x | Bad => Bad end
    end.

  Definition do_cmp (op : cmpop) (a b : val) : res val :=
    match a, b with
    | VNat x, VNat y => Ok (VBool (nat_cmp op x y))
    | VStr x, VStr y => match op with
                        | CEq => Ok (VBool (String.eqb x y))
                        | CNe => Ok (VBool (negb (String.eqb x y)))
                        | _ => Bad
                        end
    | _, _ => P (cmp_name op) [a; b] []
    end.

  Definition do_arith (op : arop) (a b : val) : res val :=
    match a, b with
    | VNat x, VNat y => match nat_arith op x y with Some n => Ok (VNat n) | None => Bad end
    | _, _ => P (ar_name op) [a; b] []
    end.

  Definition do_index (a i : val) : res val :=
    match a, i with
    | VList l, VNat k => match nth_error l k with Some v => Ok v | None => Exc "IndexError" end
    | _, _ => P "getitem" [a; i] []
    end.

  Fixpoint eval (e : env) (x : expr) : res val :=
    match x with
    | EVar v => match lookup v e with Some a => Ok a | None => Bad end
    | ENone => Ok VNone
    | EBool b => Ok (VBool b)
    | ENat n => Ok (VNat n)
    | EStr s => Ok (VStr s)
    | ECall f args kw =>
        bind (map_res (eval e) args) (fun vargs =>
        bind (map_res (fun ka => bind (eval e (snd ka)) (fun v => Ok (fst ka, v))) kw) (fun vkw =>
        P f vargs vkw))
    | EIsNone a => bind (eval e a) (fun v => Ok (VBool (match v with VNone => true | _ => false end)))
    | ENot a => bind (eval e a) (fun v => bind (truthy v) (fun t => Ok (VBool (negb t))))
    | EOr a b => bind (eval e a) (fun v => bind (truthy v) (fun t => if t then Ok v else eval e b))
    | EAnd a b => bind (eval e a) (fun v => bind (truthy v) (fun t => if t then eval e b else Ok v))
    | ECmp op a b => bind (eval e a) (fun va => bind (eval e b) (fun vb => do_cmp op va vb))
    | EArith op a b => bind (eval e a) (fun va => bind (eval e b) (fun vb => do_arith op va vb))
    | EList es => bind (map_res (eval e) es) (fun vs => Ok (VList vs))
    | EIndex a i => bind (eval e a) (fun va => bind (eval e i) (fun vi => do_index va vi))
    end.

  Definition eval_truth (e : env) (c : expr) : res bool := bind (eval e c) truthy.

  Fixpoint assign_all (xs : list string) (vs : list val) (e : env) : option env :=
    match xs, vs with
    | [], [] => Some e
    | x :: xt, v :: vt => assign_all xt vt (upd x v e)
    | _, _ => None
    end.

  (* fuel is consumed by body executions only: with the test false the loop ends whatever the fuel *)
  Fixpoint while_loop (test : env -> res bool) (body : env -> outcome) (n : nat) (e : env) : outcome :=
    match test e with
    | Ok false => Normal e
    | Ok true =>
        match n with
        | O => OutOfFuel
        | S n' =>
            match body e with
            | Normal e' | Continue e' => while_loop test body n' e'
            | o => o
            end
        end
    | Exc x => Raise x
    | Bad => Stuck
    end.

  (* ---- for loops: one body execution per element, no fuel ---- *)
  Definition iter_list (v : val) : res (list val) :=
    match v with
    | VList l => Ok l
    | _ => match P "iter" [v] [] with Ok (VList l) => Ok l | Ok _ => Bad | Exc x => Exc x | Bad => Bad end
    end.

  Fixpoint for_loop (x : string) (body : env -> outcome) (l : list val) (e : env) : outcome :=
    match l with
    | [] => Normal e
    | v :: t =>
        match body (upd x v e) with
        | Normal e' | Continue e' => for_loop x body t e'
        | o => o
        end
    end.

  (* ---- where an execution stopped: companions of while_loop / for_loop (see final_env) ---- *)
  Fixpoint while_env (test : env -> res bool) (body : env -> outcome) (benv : env -> env) (n : nat) (e : env) : env :=
    match test e with
    | Ok true =>
        match n with
        | O => e
        | S n' =>
            match body e with
            | Normal e' | Continue e' => while_env test body benv n' e'
            | _ => benv e
            end
        end
    | _ => e
    end.

  Fixpoint for_env (x : string) (body : env -> outcome) (benv : env -> env) (l : list val) (e : env) : env :=
    match l with
    | [] => e
    | v :: t =>
        match body (upd x v e) with
        | Normal e' | Continue e' => for_env x body benv t e'
        | _ => benv (upd x v e)
        end
    end.

  (* ---- try ---- *)
  (* does `except name:` handle the exception exn? *)
  Definition exn_matches (name exn : string) : res bool :=
    if String.eqb name exn then Ok true
    else if String.eqb name "" then Ok true
    else if String.eqb name "Exception" then Ok true
    else if String.eqb name "BaseException" then Ok true
    else match P "issubclass" [VStr exn; VStr name] [] with Ok (VBool b) => Ok b | _ => Bad end.

  (* the finally clause [fin], after body/handlers ended with outcome o in environment e2 *)
  Definition try_finish (o : outcome) (e2 : env) (fin : env -> outcome) : outcome :=
    match o with
    | Normal e' => fin e'
    | Continue e' => match fin e' with Normal e3 => Continue e3 | o' => o' end
    | Return v => match fin e2 with Normal _ => Return v | o' => o' end
    | Raise x => match fin e2 with Normal _ => Raise x | o' => o' end
    | Stuck => Stuck
    | OutOfFuel => OutOfFuel
    end.

  Definition try_finish_env (o : outcome) (e2 : env) (fenv : env -> env) : env :=
    match o with
    | Normal e' | Continue e' => fenv e'
    | Return _ | Raise _ => fenv e2
    | Stuck | OutOfFuel => e2
    end.

  (* [exec]: the outcome; [final_env]: the environment in which the execution stopped *)
  Fixpoint exec (s : stmt) (fuel : nat) (e : env) {struct s} : outcome :=
    match s with
    | SSkip => Normal e
    | SAssign x a =>
        match eval e a with Ok v => Normal (upd x v e) | Exc n => Raise n | Bad => Stuck end
    | SUnpack xs a =>
        match eval e a with
        | Ok (VList vs) => match assign_all xs vs e with Some e' => Normal e' | None => Stuck end
        | Ok _ => Stuck
        | Exc n => Raise n
        | Bad => Stuck
        end
    | SSeq a b =>
        match exec a fuel e with Normal e' => exec b fuel e' | o => o end
    | SIf c a b =>
        match eval_truth e c with
        | Ok true => exec a fuel e
        | Ok false => exec b fuel e
        | Exc n => Raise n
        | Bad => Stuck
        end
    | SWhile c b => while_loop (fun e' => eval_truth e' c) (fun e' => exec b fuel e') fuel e
    | SContinue => Continue e
    | SRaise exn args =>
        match map_res (eval e) args with Ok _ => Raise exn | Exc n => Raise n | Bad => Stuck end
    | SReturn a =>
        match eval e a with Ok v => Return v | Exc n => Raise n | Bad => Stuck end
    | SExpr a =>
        match eval e a with Ok _ => Normal e | Exc n => Raise n | Bad => Stuck end
    | SFor x it b =>
        match bind (eval e it) iter_list with
        | Ok l => for_loop x (fun e' => exec b fuel e') l e
        | Exc n => Raise n
        | Bad => Stuck
        end
    | STry b hs f =>
        let r1 := (exec b fuel e, final_env b fuel e) in
        let r2 :=
          match fst r1 with
          | Raise x =>
              (fix find (hs : list (string * stmt)) : outcome * env :=
                 match hs with
                 | [] => r1
                 | (n, h) :: t =>
                     match exn_matches n x with
                     | Ok true => (exec h fuel (snd r1), final_env h fuel (snd r1))
                     | Ok false => find t
                     | _ => (Stuck, snd r1)
                     end
                 end) hs
          | _ => r1
          end in
        try_finish (fst r2) (snd r2) (fun e' => exec f fuel e')
    end
  with final_env (s : stmt) (fuel : nat) (e : env) {struct s} : env :=
    match s with
    | SSeq a b =>
        match exec a fuel e with Normal e' => final_env b fuel e' | _ => final_env a fuel e end
    | SIf c a b =>
        match eval_truth e c with
        | Ok true => final_env a fuel e
        | Ok false => final_env b fuel e
        | _ => e
        end
    | SWhile c b =>
        while_env (fun e' => eval_truth e' c) (fun e' => exec b fuel e') (fun e' => final_env b fuel e') fuel e
    | SFor x it b =>
        match bind (eval e it) iter_list with
        | Ok l => for_env x (fun e' => exec b fuel e') (fun e' => final_env b fuel e') l e
        | _ => e
        end
    | STry b hs f =>
        let r1 := (exec b fuel e, final_env b fuel e) in
        let r2 :=
          match fst r1 with
          | Raise x =>
              (fix find (hs : list (string * stmt)) : outcome * env :=
                 match hs with
                 | [] => r1
                 | (n, h) :: t =>
                     match exn_matches n x with
                     | Ok true => (exec h fuel (snd r1), final_env h fuel (snd r1))
                     | Ok false => find t
                     | _ => (Stuck, snd r1)
                     end
                 end) hs
          | _ => r1
          end in
        try_finish_env (fst r2) (snd r2) (fun e' => final_env f fuel e')
    | SAssign x a => match eval e a with Ok v => upd x v e | _ => e end
    | SUnpack xs a =>
        match eval e a with
        | Ok (VList vs) => match assign_all xs vs e with Some e' => e' | None => e end
        | _ => e
        end
    | SSkip | SContinue | SRaise _ _ | SReturn _ | SExpr _ => e
    end.

  Fixpoint exec_list (l : list stmt) (fuel : nat) (e : env) : outcome :=
    match l with
    | [] => Normal e
    | s :: t => match exec s fuel e with Normal e' => exec_list t fuel e' | o => o end
    end.

  Lemma exec_list_cons : forall s t fuel e,
    exec_list (s :: t) fuel e = match exec s fuel e with Normal e' => exec_list t fuel e' | o => o end.
  Proof. reflexivity. Qed.

  Lemma exec_list_nil : forall fuel e, exec_list [] fuel e = Normal e.
  Proof. reflexivity. Qed.

  Lemma exec_spine : forall s fuel e, exec s fuel e = exec_list (spine s) fuel e.
  Proof.
    induction s; intros fuel e0;
      try (cbn [spine exec_list];
           match goal with |- ?x = _ => destruct x; reflexivity end).
    cbn [spine exec_list exec]. destruct (exec s1 fuel e0); try reflexivity. apply IHs2.
  Qed.

  (* a block = prefix ; while ; suffix *)
  Lemma exec_list_app : forall pre post fuel e,
    exec_list (pre ++ post)%list fuel e =
    match exec_list pre fuel e with Normal e' => exec_list post fuel e' | o => o end.
  Proof.
    induction pre as [|s t IH]; intros post fuel e.
    - reflexivity.
    - cbn [app exec_list]. destruct (exec s fuel e); try reflexivity. apply IH.
  Qed.

  Lemma split_at_while_app : forall l pre c b post,
    split_at_while l = Some (pre, (c, b), post) -> l = (pre ++ SWhile c b :: post)%list.
  Proof.
    induction l as [|s t IH]; intros pre c b post H; [discriminate|].
    cbn [split_at_while] in H.
    destruct s;
      try (destruct (split_at_while t) as [[[p cb] q]|]; [|discriminate];
           inversion H; subst; cbn [app]; f_equal; apply IH; reflexivity).
    inversion H; subst. reflexivity.
  Qed.

  Lemma exec_split : forall s pre c b post fuel e,
    split_at_while (spine s) = Some (pre, (c, b), post) ->
    exec s fuel e =
    match exec_list pre fuel e with
    | Normal e1 => match exec (SWhile c b) fuel e1 with Normal e2 => exec_list post fuel e2 | o => o end
    | o => o
    end.
  Proof.
    intros s pre c b post fuel e H. rewrite exec_spine.
    rewrite (split_at_while_app _ _ _ _ _ H).
    rewrite exec_list_app. reflexivity.
  Qed.

  Lemma while_loop_unfold : forall test body n e,
    while_loop test body n e =
    match test e with
    | Ok false => Normal e
    | Ok true =>
        match n with
        | O => OutOfFuel
        | S n' =>
            match body e with
            | Normal e' | Continue e' => while_loop test body n' e'
            | o => o
            end
        end
    | Exc x => Raise x
    | Bad => Stuck
    end.
  Proof. intros test body n e. destruct n; reflexivity. Qed.

  (* ---- a block = prefix ; k-th statement ; suffix (for any loop, not only the first while) ---- *)
  Lemma exec_nth_split : forall s k st fuel e,
    nth_error (spine s) k = Some st ->
    exec s fuel e =
    match exec_list (firstn k (spine s)) fuel e with
    | Normal e1 => match exec st fuel e1 with Normal e2 => exec_list (skipn (S k) (spine s)) fuel e2 | o => o end
    | o => o
    end.
  Proof.
    intros s k st fuel e H. rewrite exec_spine.
    assert (Hl : spine s = (firstn k (spine s) ++ st :: skipn (S k) (spine s))%list).
    { revert k H. generalize (spine s) as l. induction l as [|a t IH]; intros k H.
      - destruct k; discriminate.
      - destruct k as [|k]; cbn [nth_error] in H.
        + inversion H; subst. reflexivity.
        + cbn [firstn skipn app]. f_equal. apply IH. exact H. }
    rewrite Hl at 1. rewrite exec_list_app. reflexivity.
  Qed.

  (* ---- for loops ---------------------------------------------------------------------------- *)
  (* the environment an iteration hands to the next one *)
  Definition normal_env (o : outcome) : option env :=
    match o with Normal e | Continue e => Some e | _ => None end.

  Lemma exec_for : forall x it b fuel e,
    exec (SFor x it b) fuel e =
    match bind (eval e it) iter_list with
    | Ok l => for_loop x (fun e' => exec b fuel e') l e
    | Exc n => Raise n
    | Bad => Stuck
    end.
  Proof. reflexivity. Qed.

  Lemma exec_for_list : forall x it b fuel e l,
    eval e it = Ok (VList l) ->
    exec (SFor x it b) fuel e = for_loop x (fun e' => exec b fuel e') l e.
  Proof. intros x it b fuel e l H. rewrite exec_for, H. reflexivity. Qed.

  Lemma for_loop_nil : forall x body e, for_loop x body [] e = Normal e.
  Proof. reflexivity. Qed.

  Lemma for_loop_cons : forall x body v t e,
    for_loop x body (v :: t) e =
    match body (upd x v e) with
    | Normal e' | Continue e' => for_loop x body t e'
    | o => o
    end.
  Proof. reflexivity. Qed.

  Lemma for_loop_app : forall x body l1 l2 e,
    for_loop x body (l1 ++ l2)%list e =
    match for_loop x body l1 e with Normal e' => for_loop x body l2 e' | o => o end.
  Proof.
    intros x body l1 l2. induction l1 as [|v t IH]; intros e.
    - reflexivity.
    - cbn [app for_loop]. destruct (body (upd x v e)); try reflexivity; apply IH.
  Qed.

  (* a for loop never ends with Continue *)
  Lemma for_loop_not_continue : forall x body l e e', for_loop x body l e <> Continue e'.
  Proof.
    intros x body l. induction l as [|v t IH]; intros e e'.
    - discriminate.
    - cbn [for_loop]. destruct (body (upd x v e)) eqn:E; try discriminate; apply IH.
  Qed.

  (* THE INDUCTION PRINCIPLE for a for loop over an arbitrary list: an invariant [I done e] (the elements
     already processed, the environment between iterations) and a predicate Q on the outcome of the loop;
     an iteration either keeps the invariant or ends the loop with an outcome satisfying Q *)
  Lemma for_loop_inv_gen : forall (I : list val -> env -> Prop) (Q : outcome -> Prop) x body l e,
    I [] e ->
    (forall done v rest e1, l = (done ++ v :: rest)%list -> I done e1 ->
       match body (upd x v e1) with
       | Normal e2 | Continue e2 => I (done ++ [v])%list e2
       | o => Q o
       end) ->
    (forall e', I l e' -> Q (Normal e')) ->
    Q (for_loop x body l e).
  Proof.
    intros I Q x body l e H0 Hstep Hend.
    assert (G : forall rest done e1, l = (done ++ rest)%list -> I done e1 -> Q (for_loop x body rest e1)).
    { induction rest as [|v t IH]; intros done e1 Hl Hi.
      - rewrite app_nil_r in Hl. subst done. apply Hend. exact Hi.
      - cbn [for_loop]. specialize (Hstep done v t e1 Hl Hi).
        destruct (body (upd x v e1)); try exact Hstep;
          (apply (IH (done ++ [v])%list); [rewrite <- app_assoc; exact Hl | exact Hstep]). }
    apply (G l [] e); [reflexivity | exact H0].
  Qed.

  (* the common case: every iteration goes on (Normal or Continue) *)
  Lemma for_loop_inv : forall (I : list val -> env -> Prop) x body l e,
    I [] e ->
    (forall done v rest e1, l = (done ++ v :: rest)%list -> I done e1 ->
       exists e2, normal_env (body (upd x v e1)) = Some e2 /\ I (done ++ [v])%list e2) ->
    exists e', for_loop x body l e = Normal e' /\ I l e'.
  Proof.
    intros I x body l e H0 Hstep.
    apply (for_loop_inv_gen I (fun o => exists e', o = Normal e' /\ I l e')); [exact H0 | | ].
    - intros done v rest e1 Hl Hi. destruct (Hstep done v rest e1 Hl Hi) as (e2 & He2 & Hi2).
      destruct (body (upd x v e1)); cbn [normal_env] in He2; try discriminate; inversion He2; subst; exact Hi2.
    - intros e' Hi. exists e'. split; [reflexivity | exact Hi].
  Qed.

  (* a for loop whose iterations all go on is a fold *)
  Lemma for_loop_fold : forall x body (step : val -> env -> env) l e,
    (forall v e1, In v l -> normal_env (body (upd x v e1)) = Some (step v e1)) ->
    for_loop x body l e = Normal (fold_left (fun e1 v => step v e1) l e).
  Proof.
    intros x body step l. induction l as [|v t IH]; intros e H.
    - reflexivity.
    - cbn [for_loop fold_left]. pose proof (H v e (or_introl eq_refl)) as Hv.
      destruct (body (upd x v e)); cbn [normal_env] in Hv; try discriminate; inversion Hv; subst;
        apply IH; intros w e1 Hw; apply H; right; exact Hw.
  Qed.

  (* ---- where an execution stopped ----------------------------------------------------------- *)
  Lemma while_env_unfold : forall test body benv n e,
    while_env test body benv n e =
    match test e with
    | Ok true =>
        match n with
        | O => e
        | S n' =>
            match body e with
            | Normal e' | Continue e' => while_env test body benv n' e'
            | _ => benv e
            end
        end
    | _ => e
    end.
  Proof. intros test body benv n e. destruct n; reflexivity. Qed.

  Lemma while_env_normal : forall test body benv n e e',
    normal_env (while_loop test body n e) = Some e' -> while_env test body benv n e = e'.
  Proof.
    intros test body benv. induction n as [|n IH]; intros e e' H;
      rewrite while_loop_unfold in H; rewrite while_env_unfold;
      destruct (test e) as [[|]| |]; cbn [normal_env] in H; try discriminate;
      try (inversion H; reflexivity).
    destruct (body e); cbn [normal_env] in H; try discriminate; apply IH; exact H.
  Qed.

  Lemma for_env_normal : forall x body benv l e e',
    normal_env (for_loop x body l e) = Some e' -> for_env x body benv l e = e'.
  Proof.
    intros x body benv. induction l as [|v t IH]; intros e e' H; cbn [for_loop for_env] in *.
    - cbn [normal_env] in H. inversion H. reflexivity.
    - destruct (body (upd x v e)); cbn [normal_env] in H; try discriminate; apply IH; exact H.
  Qed.

  Lemma try_finish_normal : forall o e2 (fin : env -> outcome) (fenv : env -> env) e',
    (forall e1 e3, normal_env (fin e1) = Some e3 -> fenv e1 = e3) ->
    normal_env (try_finish o e2 fin) = Some e' -> try_finish_env o e2 fenv = e'.
  Proof.
    intros o e2 fin fenv e' Hf H. destruct o as [e1|e1|v|x| |]; cbn [try_finish try_finish_env] in *.
    - apply Hf. exact H.
    - apply Hf. destruct (fin e1); cbn [normal_env] in *; try discriminate; exact H.
    - apply Hf. destruct (fin e2); cbn [normal_env] in *; try discriminate; exact H.
    - apply Hf. destruct (fin e2); cbn [normal_env] in *; try discriminate; exact H.
    - discriminate.
    - discriminate.
  Qed.

  (* when the outcome carries an environment, that is where the execution stopped *)
  Lemma final_env_normal : forall s fuel e e',
    normal_env (exec s fuel e) = Some e' -> final_env s fuel e = e'.
  Proof.
    induction s; intros fuel e0 e' H; cbn [exec final_env] in *.
    - inversion H. reflexivity.
    - destruct (eval e0 e); cbn [normal_env] in H; try discriminate. inversion H. reflexivity.
    - destruct (eval e0 e) as [[]| |]; cbn [normal_env] in H; try discriminate.
      destruct (assign_all xs l e0); cbn [normal_env] in H; try discriminate. inversion H. reflexivity.
    - destruct (exec s1 fuel e0) eqn:E1; cbn [normal_env] in H; try discriminate.
      + apply IHs2. exact H.
      + apply IHs1. rewrite E1. exact H.
    - destruct (eval_truth e0 c) as [[|]| |]; cbn [normal_env] in H; try discriminate.
      + apply IHs1. exact H.
      + apply IHs2. exact H.
    - apply while_env_normal. exact H.
    - inversion H. reflexivity.
    - destruct (map_res (eval e0) args); discriminate.
    - destruct (eval e0 e); discriminate.
    - destruct (eval e0 e); cbn [normal_env] in H; try discriminate. inversion H. reflexivity.
    - destruct (bind (eval e0 iter) iter_list); cbn [normal_env] in H; try discriminate.
      apply for_env_normal. exact H.
    - revert H. apply try_finish_normal. intros e1 e3. apply IHs2.
  Qed.

  (* ---- try ---------------------------------------------------------------------------------- *)
  (* the handlers for exception x, after the body ended in r1 = (Raise x, environment at the raise) *)
  Fixpoint run_handlers (hs : list (string * stmt)) (x : string) (fuel : nat) (r1 : outcome * env) : outcome * env :=
    match hs with
    | [] => r1
    | (n, h) :: t =>
        match exn_matches n x with
        | Ok true => (exec h fuel (snd r1), final_env h fuel (snd r1))
        | Ok false => run_handlers t x fuel r1
        | _ => (Stuck, snd r1)
        end
    end.

  (* body and handlers: the outcome, and the environment in which it arose *)
  Definition try_body (b : stmt) (hs : list (string * stmt)) (fuel : nat) (e : env) : outcome * env :=
    match exec b fuel e with
    | Raise x => run_handlers hs x fuel (Raise x, final_env b fuel e)
    | o => (o, final_env b fuel e)
    end.

  Lemma try_body_unfold : forall b hs fuel e,
    (let r1 := (exec b fuel e, final_env b fuel e) in
     match fst r1 with
     | Raise x =>
         (fix find (hs : list (string * stmt)) : outcome * env :=
            match hs with
            | [] => r1
            | (n, h) :: t =>
                match exn_matches n x with
                | Ok true => (exec h fuel (snd r1), final_env h fuel (snd r1))
                | Ok false => find t
                | _ => (Stuck, snd r1)
                end
            end) hs
     | _ => r1
     end) = try_body b hs fuel e.
  Proof.
    intros b hs fuel e. unfold try_body. cbv zeta. cbn [fst snd].
    destruct (exec b fuel e) as [e1|e1|v|x| |]; try reflexivity.
    induction hs as [|[n h] t IH]; [reflexivity|].
    cbn [run_handlers snd]. destruct (exn_matches n x) as [[|]| |]; try reflexivity. exact IH.
  Qed.

  Lemma exec_try : forall b hs f fuel e,
    exec (STry b hs f) fuel e =
    try_finish (fst (try_body b hs fuel e)) (snd (try_body b hs fuel e)) (fun e' => exec f fuel e').
  Proof. intros b hs f fuel e. rewrite <- try_body_unfold. reflexivity. Qed.

  Lemma final_env_try : forall b hs f fuel e,
    final_env (STry b hs f) fuel e =
    try_finish_env (fst (try_body b hs fuel e)) (snd (try_body b hs fuel e)) (fun e' => final_env f fuel e').
  Proof. intros b hs f fuel e. rewrite <- try_body_unfold. reflexivity. Qed.

  (* the body ended without an exception: only the finally clause is left *)
  Lemma exec_try_normal : forall b hs f fuel e e1,
    exec b fuel e = Normal e1 -> exec (STry b hs f) fuel e = exec f fuel e1.
  Proof. intros b hs f fuel e e1 H. rewrite exec_try. unfold try_body. rewrite H. reflexivity. Qed.

  Lemma exec_try_continue : forall b hs f fuel e e1,
    exec b fuel e = Continue e1 ->
    exec (STry b hs f) fuel e = match exec f fuel e1 with Normal e3 => Continue e3 | o => o end.
  Proof. intros b hs f fuel e e1 H. rewrite exec_try. unfold try_body. rewrite H. reflexivity. Qed.

  Lemma exec_try_return : forall b hs f fuel e v,
    exec b fuel e = Return v ->
    exec (STry b hs f) fuel e = match exec f fuel (final_env b fuel e) with Normal _ => Return v | o => o end.
  Proof. intros b hs f fuel e v H. rewrite exec_try. unfold try_body. rewrite H. reflexivity. Qed.

  Lemma exec_try_raise : forall b hs f fuel e x,
    exec b fuel e = Raise x ->
    exec (STry b hs f) fuel e =
    let r := run_handlers hs x fuel (Raise x, final_env b fuel e) in
    try_finish (fst r) (snd r) (fun e' => exec f fuel e').
  Proof. intros b hs f fuel e x H. rewrite exec_try. unfold try_body. rewrite H. reflexivity. Qed.

  (* try/finally without handlers: the exception goes on after the finally clause *)
  Lemma exec_try_finally_raise : forall b f fuel e x,
    exec b fuel e = Raise x ->
    exec (STry b [] f) fuel e = match exec f fuel (final_env b fuel e) with Normal _ => Raise x | o => o end.
  Proof. intros b f fuel e x H. rewrite (exec_try_raise _ _ _ _ _ _ H). reflexivity. Qed.

  (* try/except without finally: the outcome of body/handlers stands *)
  Lemma exec_try_no_finally : forall b hs fuel e,
    exec (STry b hs SSkip) fuel e = fst (try_body b hs fuel e).
  Proof.
    intros b hs fuel e. rewrite exec_try. destruct (fst (try_body b hs fuel e)); reflexivity.
  Qed.

  Lemma stuck_or_fuel_try : forall b hs f fuel e,
    exec b fuel e = Stuck \/ exec b fuel e = OutOfFuel -> exec (STry b hs f) fuel e = exec b fuel e.
  Proof.
    intros b hs f fuel e [H|H]; rewrite exec_try; unfold try_body; rewrite H; reflexivity.
  Qed.

End Sem.

Arguments VSig {V}. Arguments VBool {V}. Arguments VNat {V}. Arguments VStr {V}. Arguments VNone {V}.
Arguments VList {V}. Arguments VOpaque {V}.
Arguments Normal {V}. Arguments Continue {V}. Arguments Return {V}. Arguments Raise {V}.
Arguments Stuck {V}. Arguments OutOfFuel {V}.
Arguments upd {V}. Arguments empty_env {V}. Arguments lookup {V}. Arguments env_of {V}.
Arguments truthy {V}. Arguments eval {V}. Arguments eval_truth {V}. Arguments exec {V}. Arguments exec_list {V}.
Arguments while_loop {V}. Arguments assign_all {V}.
Arguments do_cmp {V}. Arguments do_arith {V}. Arguments do_index {V}.
Arguments final_env {V}. Arguments for_loop {V}. Arguments for_env {V}. Arguments while_env {V}.
Arguments iter_list {V}. Arguments exn_matches {V}. Arguments try_finish {V}. Arguments try_finish_env {V}.
Arguments normal_env {V}. Arguments run_handlers {V}. Arguments try_body {V}.
