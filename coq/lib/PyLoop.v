(* A mini imperative language for the control skeletons that harness/gen_skeleton.py regenerates from
   emd/sift.py on every run (coq/gen/Gen_Skeleton.v), and its big-step interpreter.
   Used by proofs/SkeletonFacts.v: the hand-written loops of model/SiftCore.v are proved to compute exactly
   what the translated programs compute, for every behaviour of the opaque primitives.

   Python semantics kept: `while c:` re-tests c, `continue` jumps to the test, `or`/`and` short-circuit and
   return an operand, `x is None`, comparisons and `+ - * //` natively on non-negative ints and strings
   (everything else is delegated to the primitive table under the operator's name, like __sub__ dispatch),
   truthiness of bool / None / int / str / list natively and of anything else through the primitive "bool",
   tuple unpacking, indexing of lists by ints, unbound names are errors.
   An index out of range raises IndexError. Fail-closed choices: a type error, an unknown primitive, an
   unbound name, an int subtraction that would go negative and a division by zero are all [Stuck] (the
   refinement theorems prove the translated programs never get there).
   Fuel bounds the number of BODY EXECUTIONS of each while loop (the test itself is free), nothing else. *)
From Coq Require Import String List Bool Arith Lia.
Import ListNotations.
Open Scope string_scope.

(* ---- syntax (independent of the signal type) --------------------------------------------- *)
Inductive cmpop := CEq | CNe | CLt | CGt | CLe | CGe.
Inductive arop := AAdd | ASub | AMul | AFloorDiv.

Inductive expr :=
| EVar (x : string)
| ENone
| EBool (b : bool)
| ENat (n : nat)
| EStr (s : string)
| ECall (f : string) (args : list expr) (kwargs : list (string * expr))   (* opaque primitive; key "**" = **splat *)
| EIsNone (e : expr)
| ENot (e : expr)
| EOr (a b : expr)
| EAnd (a b : expr)
| ECmp (op : cmpop) (a b : expr)
| EArith (op : arop) (a b : expr)
| EList (es : list expr)                                                   (* list or tuple display *)
| EIndex (e i : expr).

Inductive stmt :=
| SSkip
| SAssign (x : string) (e : expr)
| SUnpack (xs : list string) (e : expr)
| SSeq (a b : stmt)
| SIf (c : expr) (a b : stmt)
| SWhile (c : expr) (body : stmt)
| SContinue
| SRaise (exn : string) (args : list expr)
| SReturn (e : expr)
| SExpr (e : expr).

Definition cmp_name (op : cmpop) : string :=
  match op with CEq => "==" | CNe => "!=" | CLt => "<" | CGt => ">" | CLe => "<=" | CGe => ">=" end.
Definition ar_name (op : arop) : string :=
  match op with AAdd => "+" | ASub => "-" | AMul => "*" | AFloorDiv => "//" end.

Definition nat_cmp (op : cmpop) (a b : nat) : bool :=
  match op with
  | CEq => Nat.eqb a b | CNe => negb (Nat.eqb a b)
  | CLt => Nat.ltb a b | CGt => Nat.ltb b a
  | CLe => Nat.leb a b | CGe => Nat.leb b a
  end.

Definition nat_arith (op : arop) (a b : nat) : option nat :=
  match op with
  | AAdd => Some (a + b)
  | ASub => if Nat.leb b a then Some (a - b) else None
  | AMul => Some (a * b)
  | AFloorDiv => match b with O => None | S _ => Some (a / b) end
  end.

Inductive res (A : Type) := Ok (a : A) | Exc (exn : string) | Bad.
Arguments Ok {A}. Arguments Exc {A}. Arguments Bad {A}.

Definition bind {A B} (r : res A) (k : A -> res B) : res B :=
  match r with Ok a => k a | Exc x => Exc x | Bad => Bad end.

Definition map_res {A B} (f : A -> res B) : list A -> res (list B) :=
  fix go l := match l with
              | [] => Ok []
              | a :: t => bind (f a) (fun b => bind (go t) (fun bt => Ok (b :: bt)))
              end.

(* the SSeq spine of a block, and the first while loop on it *)
Fixpoint spine (s : stmt) : list stmt :=
  match s with SSeq a b => a :: spine b | _ => [s] end.

Fixpoint split_at_while (l : list stmt) : option (list stmt * (expr * stmt) * list stmt) :=
  match l with
  | [] => None
  | SWhile c b :: t => Some ([], (c, b), t)
  | s :: t => match split_at_while t with
              | Some (pre, cb, post) => Some (s :: pre, cb, post)
              | None => None
              end
  end.

(* the names a block assigns, in order of first assignment *)
Fixpoint add_name (x : string) (l : list string) : list string :=
  match l with
  | [] => [x]
  | y :: t => if String.eqb x y then l else y :: add_name x t
  end.

Fixpoint assigned (s : stmt) (acc : list string) : list string :=
  match s with
  | SAssign x _ => add_name x acc
  | SUnpack xs _ => fold_left (fun a x => add_name x a) xs acc
  | SSeq a b => assigned b (assigned a acc)
  | SIf _ a b => assigned b (assigned a acc)
  | SWhile _ b => assigned b acc
  | _ => acc
  end.

(* ---- semantics --------------------------------------------------------------------------- *)
Section Sem.
  Variable V : Type.

  Inductive val :=
  | VSig (v : V)
  | VBool (b : bool)
  | VNat (n : nat)
  | VStr (s : string)
  | VNone
  | VList (l : list val)
  | VOpaque (tag : string) (args : list val).     (* an uninterpreted value, with its provenance *)

  (* an environment lists the names of a frame in a fixed order; None = not (yet) bound.
     Assigning keeps the position of a listed name and appends an unlisted one, so the environment of a
     frame whose locals are all listed from the start keeps ONE shape: symbolic execution is computation. *)
  Definition env := list (string * option val).
  Definition empty_env : env := [].
  Fixpoint lookup (x : string) (e : env) : option val :=
    match e with
    | [] => None
    | (y, v) :: t => if String.eqb x y then v else lookup x t
    end.
  Fixpoint upd (x : string) (v : val) (e : env) : env :=
    match e with
    | [] => [(x, Some v)]
    | (y, w) :: t => if String.eqb x y then (y, Some v) :: t else (y, w) :: upd x v t
    end.
  Fixpoint env_of (names : list string) (f : string -> option val) : env :=
    match names with
    | [] => []
    | x :: t => (x, f x) :: env_of t f
    end.

  Definition prims := string -> list val -> list (string * val) -> res val.

  Inductive outcome :=
  | Normal (e : env)
  | Continue (e : env)
  | Return (v : val)
  | Raise (exn : string)
  | Stuck
  | OutOfFuel.

  Variable P : prims.

  Definition truthy (v : val) : res bool :=
    match v with
    | VBool b => Ok b
    | VNone => Ok false
    | VNat n => Ok (negb (Nat.eqb n 0))
    | VStr s => Ok (negb (String.eqb s ""))
    | VList l => Ok (match l with [] => false | _ => true end)
    | _ => match P "bool" [v] [] with Ok (VBool b) => Ok b | Ok _ => Bad | Exc x => Exc x | Bad => Bad end
    end.

  Definition do_cmp (op : cmpop) (a b : val) : res val :=
    match a, b with
    | VNat x, VNat y => Ok (VBool (nat_cmp op x y))
    | VStr x, VStr y => match op with
                        | CEq => Ok (VBool (String.eqb x y))
                        | CNe => Ok (VBool (negb (String.eqb x y)))
                        | _ => Bad
                        end
    | _, _ => P (cmp_name op) [a; b] []
    end.

  Definition do_arith (op : arop) (a b : val) : res val :=
    match a, b with
    | VNat x, VNat y => match nat_arith op x y with Some n => Ok (VNat n) | None => Bad end
    | _, _ => P (ar_name op) [a; b] []
    end.

  Definition do_index (a i : val) : res val :=
    match a, i with
    | VList l, VNat k => match nth_error l k with Some v => Ok v | None => Exc "IndexError" end
    | _, _ => P "getitem" [a; i] []
    end.

  Fixpoint eval (e : env) (x : expr) : res val :=
    match x with
    | EVar v => match lookup v e with Some a => Ok a | None => Bad end
    | ENone => Ok VNone
    | EBool b => Ok (VBool b)
    | ENat n => Ok (VNat n)
    | EStr s => Ok (VStr s)
    | ECall f args kw =>
        bind (map_res (eval e) args) (fun vargs =>
        bind (map_res (fun ka => bind (eval e (snd ka)) (fun v => Ok (fst ka, v))) kw) (fun vkw =>
        P f vargs vkw))
    | EIsNone a => bind (eval e a) (fun v => Ok (VBool (match v with VNone => true | _ => false end)))
    | ENot a => bind (eval e a) (fun v => bind (truthy v) (fun t => Ok (VBool (negb t))))
    | EOr a b => bind (eval e a) (fun v => bind (truthy v) (fun t => if t then Ok v else eval e b))
    | EAnd a b => bind (eval e a) (fun v => bind (truthy v) (fun t => if t then eval e b else Ok v))
    | ECmp op a b => bind (eval e a) (fun va => bind (eval e b) (fun vb => do_cmp op va vb))
    | EArith op a b => bind (eval e a) (fun va => bind (eval e b) (fun vb => do_arith op va vb))
    | EList es => bind (map_res (eval e) es) (fun vs => Ok (VList vs))
    | EIndex a i => bind (eval e a) (fun va => bind (eval e i) (fun vi => do_index va vi))
    end.

  Definition eval_truth (e : env) (c : expr) : res bool := bind (eval e c) truthy.

  Fixpoint assign_all (xs : list string) (vs : list val) (e : env) : option env :=
    match xs, vs with
    | [], [] => Some e
    | x :: xt, v :: vt => assign_all xt vt (upd x v e)
    | _, _ => None
    end.

  (* fuel is consumed by body executions only: with the test false the loop ends whatever the fuel *)
  Fixpoint while_loop (test : env -> res bool) (body : env -> outcome) (n : nat) (e : env) : outcome :=
    match test e with
    | Ok false => Normal e
    | Ok true =>
        match n with
        | O => OutOfFuel
        | S n' =>
            match body e with
            | Normal e' | Continue e' => while_loop test body n' e'
            | o => o
            end
        end
    | Exc x => Raise x
    | Bad => Stuck
    end.

  Fixpoint exec (s : stmt) (fuel : nat) (e : env) : outcome :=
    match s with
    | SSkip => Normal e
    | SAssign x a =>
        match eval e a with Ok v => Normal (upd x v e) | Exc n => Raise n | Bad => Stuck end
    | SUnpack xs a =>
        match eval e a with
        | Ok (VList vs) => match assign_all xs vs e with Some e' => Normal e' | None => Stuck end
        | Ok _ => Stuck
        | Exc n => Raise n
        | Bad => Stuck
        end
    | SSeq a b =>
        match exec a fuel e with Normal e' => exec b fuel e' | o => o end
    | SIf c a b =>
        match eval_truth e c with
        | Ok true => exec a fuel e
        | Ok false => exec b fuel e
        | Exc n => Raise n
        | Bad => Stuck
        end
    | SWhile c b => while_loop (fun e' => eval_truth e' c) (fun e' => exec b fuel e') fuel e
    | SContinue => Continue e
    | SRaise exn args =>
        match map_res (eval e) args with Ok _ => Raise exn | Exc n => Raise n | Bad => Stuck end
    | SReturn a =>
        match eval e a with Ok v => Return v | Exc n => Raise n | Bad => Stuck end
    | SExpr a =>
        match eval e a with Ok _ => Normal e | Exc n => Raise n | Bad => Stuck end
    end.

  Fixpoint exec_list (l : list stmt) (fuel : nat) (e : env) : outcome :=
    match l with
    | [] => Normal e
    | s :: t => match exec s fuel e with Normal e' => exec_list t fuel e' | o => o end
    end.

  Lemma exec_list_cons : forall s t fuel e,
    exec_list (s :: t) fuel e = match exec s fuel e with Normal e' => exec_list t fuel e' | o => o end.
  Proof. reflexivity. Qed.

  Lemma exec_list_nil : forall fuel e, exec_list [] fuel e = Normal e.
  Proof. reflexivity. Qed.

  Lemma exec_spine : forall s fuel e, exec s fuel e = exec_list (spine s) fuel e.
  Proof.
    induction s; intros fuel e0;
      try (cbn [spine exec_list];
           match goal with |- ?x = _ => destruct x; reflexivity end).
    cbn [spine exec_list exec]. destruct (exec s1 fuel e0); try reflexivity. apply IHs2.
  Qed.

  (* a block = prefix ; while ; suffix *)
  Lemma exec_list_app : forall pre post fuel e,
    exec_list (pre ++ post)%list fuel e =
    match exec_list pre fuel e with Normal e' => exec_list post fuel e' | o => o end.
  Proof.
    induction pre as [|s t IH]; intros post fuel e.
    - reflexivity.
    - cbn [app exec_list]. destruct (exec s fuel e); try reflexivity. apply IH.
  Qed.

  Lemma split_at_while_app : forall l pre c b post,
    split_at_while l = Some (pre, (c, b), post) -> l = (pre ++ SWhile c b :: post)%list.
  Proof.
    induction l as [|s t IH]; intros pre c b post H; [discriminate|].
    cbn [split_at_while] in H.
    destruct s;
      try (destruct (split_at_while t) as [[[p cb] q]|]; [|discriminate];
           inversion H; subst; cbn [app]; f_equal; apply IH; reflexivity).
    inversion H; subst. reflexivity.
  Qed.

  Lemma exec_split : forall s pre c b post fuel e,
    split_at_while (spine s) = Some (pre, (c, b), post) ->
    exec s fuel e =
    match exec_list pre fuel e with
    | Normal e1 => match exec (SWhile c b) fuel e1 with Normal e2 => exec_list post fuel e2 | o => o end
    | o => o
    end.
  Proof.
    intros s pre c b post fuel e H. rewrite exec_spine.
    rewrite (split_at_while_app _ _ _ _ _ H).
    rewrite exec_list_app. reflexivity.
  Qed.

  Lemma while_loop_unfold : forall test body n e,
    while_loop test body n e =
    match test e with
    | Ok false => Normal e
    | Ok true =>
        match n with
        | O => OutOfFuel
        | S n' =>
            match body e with
            | Normal e' | Continue e' => while_loop test body n' e'
            | o => o
            end
        end
    | Exc x => Raise x
    | Bad => Stuck
    end.
  Proof. intros test body n e. destruct n; reflexivity. Qed.
End Sem.

Arguments VSig {V}. Arguments VBool {V}. Arguments VNat {V}. Arguments VStr {V}. Arguments VNone {V}.
Arguments VList {V}. Arguments VOpaque {V}.
Arguments Normal {V}. Arguments Continue {V}. Arguments Return {V}. Arguments Raise {V}.
Arguments Stuck {V}. Arguments OutOfFuel {V}.
Arguments upd {V}. Arguments empty_env {V}. Arguments lookup {V}. Arguments env_of {V}.
Arguments truthy {V}. Arguments eval {V}. Arguments eval_truth {V}. Arguments exec {V}. Arguments exec_list {V}.
Arguments while_loop {V}. Arguments assign_all {V}.
Arguments do_cmp {V}. Arguments do_arith {V}. Arguments do_index {V}.
