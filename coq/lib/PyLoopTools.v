(* Shared, program-independent helpers for the control-skeleton ties (notes/TIE_AGENT_BRIEF.md): primitive
   tables, frames, environment specifications, and a few standard primitives. Depends on lib/PyLoop.v only,
   so that a tie of one source file does not depend on the generated program of another.
   (model/SkeletonPrims.v and proofs/SkeletonFacts.v, the first tie, carry their own older copies of
   handler / table_lookup / prims_of / keys_are / is_opaque0 / frame / overlay / oracle_rw: import either
   those files or this one, not both.) *)
From Coq Require Import String List Bool Arith Lia.
From EmdV Require Import lib.PyLoop.
Import ListNotations.
Open Scope string_scope.

(* ---- primitive mapping tables ------------------------------------------------------------------ *)
Definition handler (V : Type) := list (val V) -> list (string * val V) -> res (val V).

Fixpoint table_lookup {V : Type} (t : list (string * handler V)) (f : string) : option (handler V) :=
  match t with
  | [] => None
  | (k, h) :: r => if String.eqb k f then Some h else table_lookup r f
  end.

(* any name that is not in the table is Bad: the program is Stuck there *)
Definition prims_of {V : Type} (t : list (string * handler V)) : prims V :=
  fun f args kw => match table_lookup t f with Some h => h args kw | None => Bad end.

(* the keywords of a call are exactly ks, in this order *)
Fixpoint keys_are {V : Type} (kw : list (string * val V)) (ks : list string) : bool :=
  match kw, ks with
  | [], [] => true
  | (k, _) :: r, k' :: r' => String.eqb k k' && keys_are r r'
  | _, _ => false
  end.

Definition is_opaque0 {V : Type} (v : val V) (tag : string) : bool :=
  match v with VOpaque t [] => String.eqb t tag | _ => false end.

Definition sig_identity {V : Type} : handler V :=
  fun args kw => match args, kw with [VSig x], [] => Ok (VSig x) | _, _ => Bad end.

(* range(n), range(a, b) *)
Definition range_val {V : Type} (a n : nat) : val V := VList (map VNat (seq a n)).
Definition range_handler {V : Type} : handler V :=
  fun args kw =>
    match args, kw with
    | [VNat n], [] => Ok (range_val 0 n)
    | [VNat a; VNat b], [] => Ok (range_val a (b - a))
    | _, _ => Bad
    end.

(* len of a list value *)
Definition len_handler {V : Type} : handler V :=
  fun args kw => match args, kw with [VList l], [] => Ok (VNat (length l)) | _, _ => Bad end.

(* ---- frames and environment specifications ------------------------------------------------------ *)
(* a frame: the parameters bound to the call's arguments, every other name listed but unbound.
   names = params ++ the assigned names, e.g. [Eval cbv in assigned prog params] *)
Definition frame {V : Type} (params names : list string) (args : list (val V)) : env V :=
  match assign_all params args (env_of names (fun _ => None)) with Some e => e | None => [] end.

(* a specification of an environment over a fixed list of names: the listed bindings, anything elsewhere.
   Loop-head environments are written [env_of names (overlay [(x, v); ...] junk)] and the state after a step
   as [e' = env_of names (overlay [...] (fun x => lookup x e'))]: symbolic execution is then computation. *)
Fixpoint overlay {V : Type} (l : list (string * val V)) (junk : string -> option (val V)) (x : string)
  : option (val V) :=
  match l with
  | [] => junk x
  | (k, v) :: r => if String.eqb x k then Some v else overlay r junk x
  end.

(* rewrite with every oracle result that was destructed (`destruct (oracle x) eqn:E` BEFORE executing) *)
Ltac oracle_rw :=
  repeat match goal with
         | H : _ = Some _ |- _ => rewrite H
         | H : _ = None |- _ => rewrite H
         | H : _ = true |- _ => rewrite H
         | H : _ = false |- _ => rewrite H
         end.

(* ---- list facts that for-loop invariants over range(n) need ------------------------------------- *)
Lemma seq_snoc : forall a n, seq a (S n) = (seq a n ++ [a + n])%list.
Proof. intros a n. rewrite seq_S. reflexivity. Qed.

(* the elements of range(n) already consumed: done = seq 0 (length done) *)
Lemma range_prefix : forall (a n : nat) (done : list nat) (v : nat) (rest : list nat),
  seq a n = (done ++ v :: rest)%list -> done = seq a (length done) /\ v = a + length done /\ length done < n.
Proof.
  intros a n done. revert a n. induction done as [|d t IH]; intros a n v rest H.
  - destruct n as [|n]; [discriminate|]. cbn [seq app] in H. inversion H. cbn [length seq]. repeat split; lia.
  - destruct n as [|n]; [discriminate|]. cbn [seq app] in H. inversion H; subst d.
    destruct (IH (S a) n v rest H2) as (Hd & Hv & Hl). cbn [length seq]. repeat split.
    + f_equal. exact Hd.
    + lia.
    + lia.
Qed.

Lemma map_app_cons_inv : forall {A B : Type} (f : A -> B) (l : list A) (done : list B) (v : B) (rest : list B),
  map f l = (done ++ v :: rest)%list ->
  exists done' v' rest', l = (done' ++ v' :: rest')%list /\ done = map f done' /\ v = f v' /\ rest = map f rest'.
Proof.
  intros A B f l. induction l as [|a t IH]; intros done v rest H.
  - destruct done; discriminate.
  - destruct done as [|d done].
    + cbn [app map] in H. inversion H. exists [], a, t. repeat split.
    + cbn [app map] in H. inversion H. destruct (IH done v rest H2) as (d' & v' & r' & Hl & Hd & Hv & Hr).
      exists (a :: d'), v', r'. subst. repeat split.
Qed.

(* the shape for-loop step lemmas over range(n) start from *)
Lemma range_val_split : forall {V : Type} (n : nat) (done : list (val V)) (v : val V) (rest : list (val V)),
  map (@VNat V) (seq 0 n) = (done ++ v :: rest)%list ->
  done = map VNat (seq 0 (length done)) /\ v = VNat (length done) /\ length done < n.
Proof.
  intros V n done v rest H.
  destruct (map_app_cons_inv _ _ _ _ _ H) as (d' & v' & r' & Hl & Hd & Hv & Hr).
  destruct (range_prefix 0 n d' v' r' Hl) as (Hd' & Hv' & Hn).
  subst done v. rewrite map_length. repeat split.
  - rewrite <- Hd'. reflexivity.
  - rewrite Hv'. reflexivity.
  - exact Hn.
Qed.
