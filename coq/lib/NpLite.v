(* NpLite: list counterparts of the numpy / Python primitives the models use,
   each with its characterising lemma.  Stdlib only; closed under the global
   context.  Arrays are lists, positions are [nat], stored values are [Z]. *)
From Coq Require Import ZArith List Bool Lia Arith Sorted.
Import ListNotations.
Open Scope Z_scope.

(* ---- rendering / hashing for the correspondence harness ------------------ *)

(* harness/common.py:hashL is the Python twin. *)
Definition hashL (l : list Z) : Z :=
  fold_left (fun h x => Z.land (h * 1000003 + x + 7) 2305843009213693951) l 17.

Definition zofn (n : nat) : Z := Z.of_nat n.
Definition opt_render (o : option Z) : list Z :=
  match o with None => [] | Some x => [x] end.

(* ---- np.where(p(l))[0] ---------------------------------------------------- *)

Fixpoint positions_from {A} (p : A -> bool) (l : list A) (i : nat) : list nat :=
  match l with
  | [] => []
  | x :: t => if p x then i :: positions_from p t (S i) else positions_from p t (S i)
  end.
Definition positions {A} (p : A -> bool) (l : list A) : list nat := positions_from p l 0.

Lemma In_positions_from : forall A (p : A -> bool) l i k,
  In k (positions_from p l i) <->
  (i <= k)%nat /\ exists x, nth_error l (k - i) = Some x /\ p x = true.
Proof.
  intros A p l; induction l as [|a t IH]; intros i k; cbn [positions_from].
  - split; [intros []|]. intros [_ [x [H _]]]. destruct (k - i)%nat; discriminate.
  - destruct (p a) eqn:Hp.
    + cbn [In]. rewrite IH. split.
      * intros [->|[Hle [x [Hn Hx]]]].
        -- split; [lia|]. exists a. rewrite Nat.sub_diag. auto.
        -- split; [lia|]. exists x. replace (k - i)%nat with (S (k - S i)) by lia. auto.
      * intros [Hle [x [Hn Hx]]].
        destruct (Nat.eq_dec i k) as [->|Hne]; [left; reflexivity|right].
        split; [lia|]. exists x. replace (k - i)%nat with (S (k - S i)) in Hn by lia. auto.
    + rewrite IH. split.
      * intros [Hle [x [Hn Hx]]]. split; [lia|]. exists x.
        replace (k - i)%nat with (S (k - S i)) by lia. auto.
      * intros [Hle [x [Hn Hx]]].
        destruct (Nat.eq_dec i k) as [->|Hne].
        -- rewrite Nat.sub_diag in Hn. cbn in Hn. congruence.
        -- split; [lia|]. exists x. replace (k - i)%nat with (S (k - S i)) in Hn by lia. auto.
Qed.

Lemma In_positions : forall A (p : A -> bool) l k,
  In k (positions p l) <-> exists x, nth_error l k = Some x /\ p x = true.
Proof.
  intros. unfold positions. rewrite In_positions_from. rewrite Nat.sub_0_r.
  split; [intros [_ H]; exact H | intros H; split; [lia | exact H]].
Qed.

Lemma positions_from_sorted : forall A (p : A -> bool) l i,
  StronglySorted lt (positions_from p l i) /\ Forall (fun k => (i <= k)%nat) (positions_from p l i).
Proof.
  intros A p l; induction l as [|a t IH]; intros i; cbn [positions_from].
  - split; constructor.
  - destruct (IH (S i)) as [Hs Hf]. destruct (p a).
    + split.
      * constructor; [exact Hs|]. eapply Forall_impl; [|exact Hf]. cbn; intros; lia.
      * constructor; [lia|]. eapply Forall_impl; [|exact Hf]. cbn; intros; lia.
    + split; [exact Hs|]. eapply Forall_impl; [|exact Hf]. cbn; intros; lia.
Qed.

Lemma positions_sorted : forall A (p : A -> bool) l, StronglySorted lt (positions p l).
Proof. intros. apply positions_from_sorted. Qed.

Lemma positions_NoDup : forall A (p : A -> bool) l, NoDup (positions p l).
Proof.
  intros. pose proof (positions_sorted A p l) as H.
  induction H as [|a l0 Hs IH Hf]; constructor; auto.
  intro Hin. rewrite Forall_forall in Hf. specialize (Hf _ Hin). lia.
Qed.

(* ---- Python indexing: negative indices wrap, out of range is IndexError --- *)

Definition py_index {A} (l : list A) (i : Z) : option A :=
  let n := Z.of_nat (length l) in
  if (0 <=? i) && (i <? n) then nth_error l (Z.to_nat i)
  else if (- n <=? i) && (i <? 0) then nth_error l (Z.to_nat (i + n))
  else None.

Lemma py_index_nonneg : forall A (l : list A) i,
  0 <= i -> py_index l i = nth_error l (Z.to_nat i).
Proof.
  intros A l i Hi. unfold py_index.
  destruct (0 <=? i) eqn:H0; [|lia].
  destruct (i <? Z.of_nat (length l)) eqn:H1; cbn [andb]; [reflexivity|].
  destruct ((- Z.of_nat (length l) <=? i) && (i <? 0)) eqn:H2; [lia|].
  symmetry. apply nth_error_None. lia.
Qed.

(* ---- small list helpers ---------------------------------------------------- *)

Definition zeqb_list (a b : list Z) : bool :=
  (length a =? length b)%nat && forallb (fun '(x, y) => x =? y) (combine a b).

Fixpoint count_true (l : list bool) : nat :=
  match l with [] => 0%nat | b :: t => ((if b then 1 else 0) + count_true t)%nat end.

Fixpoint zsum (l : list Z) : Z := match l with [] => 0 | x :: t => x + zsum t end.

Lemma zsum_app : forall a b, zsum (a ++ b) = zsum a + zsum b.
Proof. induction a as [|x a IH]; intros; cbn [zsum app]; [lia|rewrite IH; lia]. Qed.

Fixpoint zmax_list (d : Z) (l : list Z) : Z :=
  match l with [] => d | x :: t => Z.max x (zmax_list d t) end.

Lemma zmax_list_ge : forall d l x, In x l -> x <= zmax_list d l.
Proof. induction l as [|a t IH]; cbn; intros x []; subst; [lia|]. specialize (IH _ H). lia. Qed.

Lemma zmax_list_ge_d : forall d l, d <= zmax_list d l.
Proof. induction l as [|a t IH]; cbn; lia. Qed.

Lemma zmax_list_in : forall d l, zmax_list d l = d \/ In (zmax_list d l) l.
Proof.
  induction l as [|a t IH]; cbn; [auto|].
  destruct (Z.max_spec a (zmax_list d t)) as [[_ ->]|[_ ->]]; [|auto].
  destruct IH; auto.
Qed.

(* ---- exhaustive enumeration support for the correspondence harness -------- *)
(* the idx-th sequence of a given length over an alphabet (little-endian digits) *)
Fixpoint digits (base : Z) (len : nat) (idx : Z) : list Z :=
  match len with
  | O => []
  | S n => (idx mod base) :: digits base n (idx / base)
  end.

Definition seq_of_index (alphabet : list Z) (len : nat) (idx : Z) : list Z :=
  map (fun d => nth (Z.to_nat d) alphabet 0) (digits (Z.of_nat (length alphabet)) len idx).

(* hash of the outputs of f on start, start+1, .., start+n-1 (harness twin: common.block_hash) *)
Fixpoint block_hash (f : Z -> list Z) (n : nat) (start : Z) (h : Z) : Z :=
  match n with
  | O => h
  | S m => block_hash f m (start + 1) (Z.land (h * 1000003 + hashL (f start) + 7) 2305843009213693951)
  end.

Fixpoint block_hashes (f : Z -> list Z) (n : nat) (start : Z) : list Z :=
  match n with
  | O => []
  | S m => hashL (f start) :: block_hashes f m (start + 1)
  end.
