(* C11 - the holospectrum bins energy jointly by carrier and AM frequency.
   Statements only; every proof is [exact <lemma of proofs/SpectraFacts.v>]. *)
From Coq Require Import ZArith List Bool Lia Sorted.
From EmdV Require Import lib.NpLite model.Spectra proofs.SpectraFacts.
Import ListNotations.
Open Scope Z_scope.

(* packing two bin indices into one sparse column index is invertible *)
Theorem fold_unfold : forall c a D1 : nat,
  (c < D1)%nat -> ((c + a * D1) / D1 = a /\ (c + a * D1) mod D1 = c)%nat.
Proof. exact SpectraFacts.fold_unfold. Qed.

(* shape [time x AM bins x carrier bins] *)
Theorem holo_shape : forall energy edges edges2 infr infr2 inam2,
  let h := holospectrum energy edges edges2 infr infr2 inam2 in
  length h = length infr /\
  Forall (fun plane => length plane = (length edges2 - 1)%nat /\
                       rectangular plane (length edges - 1)) h.
Proof. exact SpectraFacts.holo_shape. Qed.

(* each (time, first-level IMF, second-level IMF) sample contributes its weight to exactly the
   cell indexed by the AM bin and the carrier bin containing its two frequencies; nothing if
   either is out of range (in_bin is then false for every bin: out_of_range_in_no_bin) *)
Theorem holo_cell : forall energy edges edges2 infr infr2 inam2 t a c,
  StronglySorted Z.lt edges -> StronglySorted Z.lt edges2 ->
  (t < length infr)%nat -> (a < length edges2 - 1)%nat -> (c < length edges - 1)%nat ->
  nth c (nth a (nth t (holospectrum energy edges edges2 infr infr2 inam2) []) []) 0 =
  zsum (map (fun s => let '(t', f1, f2, amp) := s in
                if (Nat.eqb t' t && in_bin edges c f1 && in_bin edges2 a f2)%bool
                then weight energy amp else 0)
            (samples3 infr infr2 inam2)).
Proof. exact SpectraFacts.holo_cell. Qed.

(* the time-summed output is the sum over time of the full output (the time-averaged one is
   this divided by the number of time points) *)
Theorem holo_sum_spec : forall energy edges edges2 infr infr2 inam2 a c,
  (a < length edges2 - 1)%nat -> (c < length edges - 1)%nat ->
  nth c (nth a (holospectrum_sum energy edges edges2 infr infr2 inam2) []) 0 =
  zsum (map (fun t => nth c (nth a (nth t (holospectrum energy edges edges2 infr infr2 inam2) []) []) 0)
            (seq 0 (length infr))).
Proof. exact SpectraFacts.holo_sum_spec. Qed.

Theorem holo_sum_shape : forall energy edges edges2 infr infr2 inam2,
  let h := holospectrum_sum energy edges edges2 infr infr2 inam2 in
  length h = (length edges2 - 1)%nat /\ rectangular h (length edges - 1).
Proof. exact SpectraFacts.holo_sum_shape. Qed.

Example c11_premises_hold :
  StronglySorted Z.lt [4; 8; 12] /\ StronglySorted Z.lt [2; 4] /\
  holospectrum true [4; 8; 12] [2; 4] [[5]; [9]] [[[3; 1]]; [[2; 3]]] [[[2; 5]]; [[1; 3]]]
  = [[[4; 0]]; [[0; 10]]].
Proof. exact SpectraFacts.c11_premises_hold. Qed.

Print Assumptions fold_unfold.
Print Assumptions holo_shape.
Print Assumptions holo_cell.
Print Assumptions holo_sum_spec.
Print Assumptions holo_sum_shape.
Print Assumptions c11_premises_hold.
