(* TIE - the control-point functions of emd/cycles.py (nearest properties: C14, C15).
   Statements only; every proof is [exact <lemma of proofs/SkelFacts_Ctrl.v>].

   gen/Gen_Skel_Ctrl.v is regenerated on every run from emd/cycles.py by harness/gen_skel_ctrl.py (fail-closed
   structural translation into the mini language of lib/PyLoop.v): the whole bodies of cf_start_value,
   cf_end_value, cf_peak_sample, cf_peak_value, cf_trough_sample, cf_trough_value, cf_descending_zero_sample,
   cf_ascending_zero_sample, get_control_point_metrics, get_control_point_metrics_aug, normalised_waveform
   (get_control_points is NOT tied yet). model/SkelPrims_Ctrl.v gives every numpy call / operator
   of these bodies its literal meaning on integer cycles and exact rationals (sift._find_extrema is an ORACLE; the
   floats of normalised_waveform are abstract) and holds the list-level models. The theorems say: under the
   interpreter of PyLoop.v the translated bodies return exactly what the models return, for EVERY input, oracle
   and fuel; then the laws a user relies on are proved about the models. *)
From Coq Require Import String List Bool Arith ZArith QArith Qabs.
From EmdV Require Import lib.NpLite model.Extrema lib.PyLoop lib.PyLoopTools gen.Gen_Skel_Ctrl model.SkelPrims_Ctrl
  proofs.SkelFacts_Ctrl.
Import ListNotations.
Open Scope string_scope.

(* ==== 1. the eight cf_ helpers: translated body = list-level model ================================ *)
(* x[0]; IndexError on an empty cycle *)
Theorem skeleton_cf_start_value : forall (ext : extrema_oracle) (x : list Z) (f : nat),
  exec (cf_prims ext) prog_cf_start_value f (start_env0 x) = int_render (cf_start_value_model x).
Proof. exact SkelFacts_Ctrl.skeleton_cf_start_value. Qed.

(* x[-1]; IndexError on an empty cycle *)
Theorem skeleton_cf_end_value : forall (ext : extrema_oracle) (x : list Z) (f : nat),
  exec (cf_prims ext) prog_cf_end_value f (end_env0 x) = int_render (cf_end_value_model x).
Proof. exact SkelFacts_Ctrl.skeleton_cf_end_value. Qed.

(* (locs, pks) = _find_extrema(x, parabolic_extrema=interp): None if pks is empty, else locs[first argmax of pks] *)
Theorem skeleton_cf_peak_sample : forall (ext : extrema_oracle) (x : list Z) (b : bool) (f : nat),
  exec (cf_prims ext) prog_cf_peak_sample f (pks_env0 x b) = pick_render (cf_peak_sample_model ext b x).
Proof. exact SkelFacts_Ctrl.skeleton_cf_peak_sample. Qed.

Theorem skeleton_cf_peak_value : forall (ext : extrema_oracle) (x : list Z) (b : bool) (f : nat),
  exec (cf_prims ext) prog_cf_peak_value f (pkv_env0 x b) = pick_render (cf_peak_value_model ext b x).
Proof. exact SkelFacts_Ctrl.skeleton_cf_peak_value. Qed.

(* the extrema of -x, magnitudes negated back, first argmin *)
Theorem skeleton_cf_trough_sample : forall (ext : extrema_oracle) (x : list Z) (b : bool) (f : nat),
  exec (cf_prims ext) prog_cf_trough_sample f (trs_env0 x b) = pick_render (cf_trough_sample_model ext b x).
Proof. exact SkelFacts_Ctrl.skeleton_cf_trough_sample. Qed.

Theorem skeleton_cf_trough_value : forall (ext : extrema_oracle) (x : list Z) (b : bool) (f : nat),
  exec (cf_prims ext) prog_cf_trough_value f (trv_env0 x b) = pick_render (cf_trough_value_model ext b x).
Proof. exact SkelFacts_Ctrl.skeleton_cf_trough_value. Qed.

(* np.where(np.diff(np.sign(x)) == -2)[0][0] (+ the grid offset when interp) = the model's first crossing *)
Theorem skeleton_cf_descending_zero_sample : forall (ext : extrema_oracle) (x : list Z) (b : bool) (f : nat),
  exec (cf_prims ext) prog_cf_descending_zero_sample f (dz_env0 x b) = zero_render (zero_sample_model (-2) b x).
Proof. exact SkelFacts_Ctrl.skeleton_cf_descending_zero_sample. Qed.

Theorem skeleton_cf_ascending_zero_sample : forall (ext : extrema_oracle) (x : list Z) (b : bool) (f : nat),
  exec (cf_prims ext) prog_cf_ascending_zero_sample f (az_env0 x b) = zero_render (zero_sample_model 2 b x).
Proof. exact SkelFacts_Ctrl.skeleton_cf_ascending_zero_sample. Qed.

(* ==== 2. laws: peaks and troughs ================================================================== *)
(* np.argmax / np.argmin: a maximum / minimum, and the FIRST one *)
Theorem argmax_q_max : forall l j, (j < length l)%nat -> (nth j l 0 <= nth (argmax_q l) l 0)%Q.
Proof. exact SkelFacts_Ctrl.argmax_q_max. Qed.
Theorem argmax_q_first : forall l j, (j < argmax_q l)%nat -> (nth j l 0 < nth (argmax_q l) l 0)%Q.
Proof. exact SkelFacts_Ctrl.argmax_q_first. Qed.
Theorem argmin_q_min : forall l j, (j < length l)%nat -> (nth (argmin_q l) l 0 <= nth j l 0)%Q.
Proof. exact SkelFacts_Ctrl.argmin_q_min. Qed.
Theorem argmin_q_first : forall l j, (j < argmin_q l)%nat -> (nth (argmin_q l) l 0 < nth j l 0)%Q.
Proof. exact SkelFacts_Ctrl.argmin_q_first. Qed.

(* ANY oracle (interp or not): cf_peak_value is the largest magnitude the oracle reports, cf_trough_value the smallest *)
Theorem peak_value_is_max : forall ext b x q, cf_peak_value_model ext b x = Ok (Some q) ->
  In q (snd (ext b x)) /\ forall p, In p (snd (ext b x)) -> (p <= q)%Q.
Proof. exact SkelFacts_Ctrl.peak_value_is_max. Qed.

Theorem trough_value_is_min : forall ext b x q, cf_trough_value_model ext b x = Ok (Some q) ->
  In q (map Qopp (snd (ext b (map Z.opp x)))) /\
  forall p, In p (map Qopp (snd (ext b (map Z.opp x)))) -> (q <= p)%Q.
Proof. exact SkelFacts_Ctrl.trough_value_is_min. Qed.

(* ANY oracle with as many locations as magnitudes: sample and value come from the same position; both None
   exactly when the oracle reports no extremum *)
Theorem peak_sample_value_same_position : forall (ext : extrema_oracle) b x,
  length (fst (ext b x)) = length (snd (ext b x)) ->
  match snd (ext b x) with
  | [] => cf_peak_sample_model ext b x = Ok None /\ cf_peak_value_model ext b x = Ok None
  | _ :: _ => exists k l v, (k < length (snd (ext b x)))%nat /\
               nth_error (fst (ext b x)) k = Some l /\ nth_error (snd (ext b x)) k = Some v /\
               cf_peak_sample_model ext b x = Ok (Some l) /\ cf_peak_value_model ext b x = Ok (Some v)
  end.
Proof. exact SkelFacts_Ctrl.peak_sample_value_same_position. Qed.

(* interp=False with what _find_extrema returns then (Prop_Tie_Extrema.skeleton_find_extrema): the peak sample is a
   strict interior local maximum, no strict interior local maximum is higher, cf_peak_value is the sample there;
   None / None exactly when there is no strict interior local maximum *)
Theorem cf_peak_std : forall x,
  (cf_peak_sample_model std_ext false x = Ok None /\ cf_peak_value_model std_ext false x = Ok None /\
   forall i, ~ strict_max_at x i)
  \/ exists i, strict_max_at x i /\
       cf_peak_sample_model std_ext false x = Ok (Some (nq i)) /\
       cf_peak_value_model std_ext false x = Ok (Some (zq (nth i x 0%Z))) /\
       forall j, strict_max_at x j -> (nth j x 0 <= nth i x 0)%Z.
Proof. exact SkelFacts_Ctrl.cf_peak_std. Qed.

Theorem cf_trough_std : forall x,
  (cf_trough_sample_model std_ext false x = Ok None /\ cf_trough_value_model std_ext false x = Ok None /\
   forall i, ~ strict_min_at x i)
  \/ exists i, strict_min_at x i /\
       cf_trough_sample_model std_ext false x = Ok (Some (nq i)) /\
       cf_trough_value_model std_ext false x = Ok (Some (zq (nth i x 0%Z))) /\
       forall j, strict_min_at x j -> (nth i x 0 <= nth j x 0)%Z.
Proof. exact SkelFacts_Ctrl.cf_trough_std. Qed.

(* NOT the maximum of the cycle: end samples are never extrema *)
Theorem peak_not_global_max :
  cf_peak_sample_model std_ext false [5; 1; 2; 1; 0]%Z = Ok (Some (nq 2)) /\
  cf_peak_value_model std_ext false [5; 1; 2; 1; 0]%Z = Ok (Some (zq 2)).
Proof. exact SkelFacts_Ctrl.peak_not_global_max. Qed.

(* ==== 3. laws: zero crossings ===================================================================== *)
Theorem sgn_diff_desc : forall a c, (Z.sgn c - Z.sgn a = -2)%Z <-> (0 < a /\ c < 0)%Z.
Proof. exact SkelFacts_Ctrl.sgn_diff_desc. Qed.
Theorem sgn_diff_asc : forall a c, (Z.sgn c - Z.sgn a = 2)%Z <-> (a < 0 /\ 0 < c)%Z.
Proof. exact SkelFacts_Ctrl.sgn_diff_asc. Qed.

(* what is returned: None / the integer d / the float d + offset, d the FIRST index whose neighbour has the
   opposite strict sign *)
Theorem zero_sample_spec : forall s interp x,
  match zero_sample_model s interp x with
  | ZNone => forall j a c, nth_error x j = Some a -> nth_error x (S j) = Some c -> (Z.sgn c - Z.sgn a <> s)%Z
  | ZIdx d => interp = false /\ exists a c, first_crossing_at s x d a c
  | ZFrac d off => interp = true /\ exists a c, first_crossing_at s x d a c /\ off = grid_offset a c
  end.
Proof. exact SkelFacts_Ctrl.zero_sample_spec. Qed.

Theorem desc_zero_none_iff : forall interp x,
  zero_sample_model (-2) interp x = ZNone <->
  forall j a c, nth_error x j = Some a -> nth_error x (S j) = Some c -> ~ (0 < a /\ c < 0)%Z.
Proof. exact SkelFacts_Ctrl.desc_zero_none_iff. Qed.

Theorem asc_zero_none_iff : forall interp x,
  zero_sample_model 2 interp x = ZNone <->
  forall j a c, nth_error x j = Some a -> nth_error x (S j) = Some c -> ~ (a < 0 /\ 0 < c)%Z.
Proof. exact SkelFacts_Ctrl.asc_zero_none_iff. Qed.

(* a crossing through a sample that is exactly 0 is not found *)
Theorem exact_zero_is_no_crossing :
  zero_sample_model (-2) false [1; 0; -1]%Z = ZNone /\ zero_sample_model 2 true [-1; 0; 1]%Z = ZNone.
Proof. exact SkelFacts_Ctrl.exact_zero_is_no_crossing. Qed.

(* interp=True: the offset is k/999, k the first minimiser of |x[d] + j (x[d+1] - x[d]) / 999| over j = 0..999;
   it lies in [0, 1] and is within 1/1998 of the linear-interpolation zero a/(a - c) *)
Theorem grid_offset_range : forall a c, (0 <= grid_offset a c)%Q /\ (grid_offset a c <= 1)%Q.
Proof. exact SkelFacts_Ctrl.grid_offset_range. Qed.

Theorem grid_offset_is_k_over_999 : forall a c, (grid_offset a c == Qmake (Z.of_nat (grid_index a c)) 999)%Q.
Proof. exact SkelFacts_Ctrl.grid_offset_is_k_over_999. Qed.

Theorem grid_index_minimises : forall a c j, (j < 1000)%nat ->
  (Z.abs (a * 999 + Z.of_nat (grid_index a c) * (c - a)) <= Z.abs (a * 999 + Z.of_nat j * (c - a)))%Z.
Proof. exact SkelFacts_Ctrl.grid_index_minimises. Qed.

Theorem grid_accuracy_desc : forall a c, (0 < a)%Z -> (c < 0)%Z ->
  (2 * Z.abs (a * 999 - Z.of_nat (grid_index a c) * (a - c)) <= a - c)%Z.
Proof. exact SkelFacts_Ctrl.grid_accuracy_desc. Qed.

Theorem grid_accuracy_asc : forall a c, (a < 0)%Z -> (0 < c)%Z ->
  (2 * Z.abs (a * 999 + Z.of_nat (grid_index a c) * (c - a)) <= c - a)%Z.
Proof. exact SkelFacts_Ctrl.grid_accuracy_asc. Qed.

(* ==== 4. get_control_point_metrics(_aug) ========================================================== *)
Theorem skeleton_get_control_point_metrics : forall rows normalise f,
  Forall (fun r => (5 <= length r)%nat) rows ->
  exec cpm_prims prog_get_control_point_metrics f (cpm_env0 rows normalise) = cpm_render normalise rows.
Proof. exact SkelFacts_Ctrl.skeleton_get_control_point_metrics. Qed.

Theorem skeleton_get_control_point_metrics_aug : forall rows f,
  Forall (fun r => (6 <= length r)%nat) rows ->
  exec cpm_prims prog_get_control_point_metrics_aug f (cpa_env0 rows) = cpa_render rows.
Proof. exact SkelFacts_Ctrl.skeleton_get_control_point_metrics_aug. Qed.

(* a row (start, peak, desc, trough, end) of finite values, end <> 0 *)
Theorem metrics_row_meaning : forall s pk d t e, Qeq_bool e 0 = false ->
  p2t_row true [XQ s; XQ pk; XQ d; XQ t; XQ e] = XQ ((d + - (e + - d)) / e) /\
  a2d_row true [XQ s; XQ pk; XQ d; XQ t; XQ e] = XQ ((pk + (e + - t) + - (t + - pk)) / e) /\
  p2t_row false [XQ s; XQ pk; XQ d; XQ t; XQ e] = XQ (d + - (e + - d)) /\
  a2d_row false [XQ s; XQ pk; XQ d; XQ t; XQ e] = XQ (pk + (e + - t) + - (t + - pk)).
Proof. exact SkelFacts_Ctrl.metrics_row_meaning. Qed.

Theorem p2t_bounds : forall d e : Q, (0 <= d)%Q -> (d <= e)%Q -> (0 < e)%Q ->
  (- (1) <= (d + - (e + - d)) / e)%Q /\ ((d + - (e + - d)) / e <= 1)%Q.
Proof. exact SkelFacts_Ctrl.p2t_bounds. Qed.

Theorem metrics_row_nan : forall s e normalise,
  p2t_row normalise [s; XNan; XNan; XNan; e] = XNan /\ a2d_row normalise [s; XNan; XNan; XNan; e] = XNan.
Proof. exact SkelFacts_Ctrl.metrics_row_nan. Qed.

(* a row (start, asc, peak, desc, trough, end): P/(P+T) and A/(A+D) as the docstring says - the second only when start = 0 *)
Theorem metrics_aug_row_meaning : forall s a pk d t e,
  Qeq_bool (e + - a) 0 = false -> Qeq_bool t 0 = false ->
  p2t_aug_row [XQ s; XQ a; XQ pk; XQ d; XQ t; XQ e] = XQ ((d + - a) / (e + - a)) /\
  a2d_aug_row [XQ s; XQ a; XQ pk; XQ d; XQ t; XQ e] = XQ (pk / t) /\
  ((d + - a) / (e + - a) == (d - a) / ((d - a) + (e - d)))%Q /\
  (s == 0 -> pk / t == (pk - s) / ((pk - s) + (t - pk)))%Q.
Proof. exact SkelFacts_Ctrl.metrics_aug_row_meaning. Qed.

(* ==== 5. normalised_waveform ====================================================================== *)
Theorem skeleton_normalised_waveform :
  forall (F : Type) (fmean : list F -> F) (fmul_n : F -> nat -> F) (fdiv : F -> F -> F) (f2pi : F -> F)
         (fadd : F -> F -> F) (fzero : F) (fsin : F -> F) (flin : nat -> nat -> F) (n : nat) (cols : list (list F)),
  Forall (fun c : list F => length c = n) cols -> forall f : nat, cols <> [] ->
  exec (nw_prims F fmean fmul_n fdiv f2pi fadd fzero fsin flin) prog_normalised_waveform f (nw_env0 F n cols)
  = nw_render F fmean fmul_n fdiv f2pi fadd fzero fsin flin n cols.
Proof. exact SkelFacts_Ctrl.skeleton_normalised_waveform. Qed.

(* every output column, and the reference sine, has nsamples + 1 entries *)
Theorem nw_col_length :
  forall (F : Type) (fmean : list F -> F) (fmul_n : F -> nat -> F) (fdiv : F -> F -> F) (f2pi : F -> F)
         (fadd : F -> F -> F) (fzero : F) (fsin : F -> F) (col : list F),
  length (nw_col F fmean fmul_n fdiv f2pi fadd fzero fsin col) = (length col + 1)%nat.
Proof. exact SkelFacts_Ctrl.nw_col_length. Qed.

(* zero columns: `len(phase)` reads a local that was never bound (Python: UnboundLocalError; interpreter: Stuck) *)
Theorem normalised_waveform_zero_columns :
  forall (F : Type) fmean fmul_n fdiv f2pi fadd fzero fsin flin (n f : nat),
  exec (nw_prims F fmean fmul_n fdiv f2pi fadd fzero fsin flin) prog_normalised_waveform f (nw_env0 F n []) = Stuck /\
  exists e, exec_list (nw_prims F fmean fmul_n fdiv f2pi fadd fzero fsin flin)
              (firstn 3 (spine prog_normalised_waveform)) f (nw_env0 F n []) = Normal e /\
            lookup "phase" e = None.
Proof. exact SkelFacts_Ctrl.normalised_waveform_zero_columns. Qed.

Print Assumptions skeleton_cf_start_value.
Print Assumptions skeleton_cf_end_value.
Print Assumptions skeleton_cf_peak_sample.
Print Assumptions skeleton_cf_peak_value.
Print Assumptions skeleton_cf_trough_sample.
Print Assumptions skeleton_cf_trough_value.
Print Assumptions skeleton_cf_descending_zero_sample.
Print Assumptions skeleton_cf_ascending_zero_sample.
Print Assumptions argmax_q_max.
Print Assumptions argmax_q_first.
Print Assumptions argmin_q_min.
Print Assumptions argmin_q_first.
Print Assumptions peak_value_is_max.
Print Assumptions trough_value_is_min.
Print Assumptions peak_sample_value_same_position.
Print Assumptions cf_peak_std.
Print Assumptions cf_trough_std.
Print Assumptions peak_not_global_max.
Print Assumptions sgn_diff_desc.
Print Assumptions sgn_diff_asc.
Print Assumptions zero_sample_spec.
Print Assumptions desc_zero_none_iff.
Print Assumptions asc_zero_none_iff.
Print Assumptions exact_zero_is_no_crossing.
Print Assumptions grid_offset_range.
Print Assumptions grid_offset_is_k_over_999.
Print Assumptions grid_index_minimises.
Print Assumptions grid_accuracy_desc.
Print Assumptions grid_accuracy_asc.
Print Assumptions skeleton_get_control_point_metrics.
Print Assumptions skeleton_get_control_point_metrics_aug.
Print Assumptions metrics_row_meaning.
Print Assumptions p2t_bounds.
Print Assumptions metrics_row_nan.
Print Assumptions metrics_aug_row_meaning.
Print Assumptions skeleton_normalised_waveform.
Print Assumptions nw_col_length.
Print Assumptions normalised_waveform_zero_columns.
