(* TIE (C14, C15) - the per-cycle statistics of model/CycleStat.v and the slice cache of model/CyclesObj.v against
   the source (notes/TIE_CYCLESTAT.md). Statements only; every proof is [exact <lemma of proofs/SkelFacts_Cyclestat.v>].

   gen/Gen_Skel_Cyclestat.v (emd/cycles.py: get_cycle_stat, bin_by_phase) and gen/Gen_Skel_Cyclestatsupport.v
   (emd/_cycles_support.py: get_cycle_stat_from_samples, get_augmented_cycle_stat_from_samples,
   get_slice_stat_from_samples, make_slice_cache, ...) are regenerated on every run by harness/gen_skel_cyclestat.py
   (fail-closed structural translation into the mini language of lib/PyLoop.v). model/SkelPrims_Cyclestat.v maps
   every opaque primitive name the translator emitted to a list operation of the models; `func` is the abstract
   oracle f. The theorems say that under the interpreter of PyLoop.v the translated programs return exactly what
   cycle_stat / cycle_stat_samples / bin_by_phase / make_slice_cache / slice_stat / aug_label_stat compute - for
   EVERY reducing function f, EVERY result type B, EVERY input in the stated domain and EVERY fuel. *)
From Coq Require Import String List Bool Arith ZArith.
From EmdV Require Import lib.NpLite model.CycleMaps model.CycleVec model.Spectra model.CycleStat model.CyclesObj.
From EmdV Require Import lib.PyLoop gen.Gen_Skel_Cyclestat gen.Gen_Skel_Cyclestatsupport model.SkelPrims_Cyclestat
                         proofs.SkelFacts_Cyclestat.
Import ListNotations.
Open Scope string_scope.

Section TieStat.
  Variable B : Type.
  Variable f : list Z -> B.
  Variable fn : list (list Z) -> B.
  Variable trough : Z.
  Let P := stat_prims B f fn trough.

  (* get_cycle_stat_from_samples, whole body: out[k] = f(vals[map_cycle_to_samples(cycle_vect, k)]) for exactly
     k in range(np.max(cycle_vect) + 1) - the model's cycle_stat, i.e. f applied to select_cycle cv vals k
     (= vals[cycle_vect == k], proofs/CycleStatFacts.v select_cycle_spec) and to nothing else *)
  Theorem skeleton_get_cycle_stat_from_samples : forall vals cv fuel,
    cv <> [] -> Forall (fun c => (-1 <= c)%Z) cv -> (length cv <= length vals)%nat ->
    exec P prog_get_cycle_stat_from_samples fuel (env0_gcsfs B (yvec vals) cv)
    = stat_outcome B (cycle_stat f cv vals).
  Proof. exact (SkelFacts_Cyclestat.skeleton_get_cycle_stat_from_samples B f fn trough). Qed.

  (* the same body on EVERY cycle vector no longer than vals: ValueError for an empty vector (np.max) or a maximum
     below -1 (np.zeros of a negative size), the model otherwise - the row get_cycle_stat uses for its callee *)
  Theorem skeleton_get_cycle_stat_from_samples_row : forall vals cv fuel,
    (length cv <= length vals)%nat ->
    exec P prog_get_cycle_stat_from_samples fuel (env0_gcsfs B (yvec vals) cv)
    = res_outcome (call_cycle_stat B f vals cv).
  Proof. exact (SkelFacts_Cyclestat.skeleton_get_cycle_stat_from_samples_row B f fn trough). Qed.

  (* get_augmented_cycle_stat_from_samples, whole body: nan where the cycle cannot be augmented, else f of the
     augmented samples (model/CyclesObj.v aug_label_stat for any result type, aug_stat_is_aug_label_stat) *)
  Theorem skeleton_get_augmented_cycle_stat_from_samples : forall vals cv ph fuel,
    cv <> [] -> Forall (fun c => (-1 <= c)%Z) cv -> (length cv <= length vals)%nat ->
    exec P prog_get_augmented_cycle_stat_from_samples fuel (env0_gacsfs B (yvec vals) cv ph)
    = ostat_outcome B (aug_stat B f trough cv ph vals).
  Proof. exact (SkelFacts_Cyclestat.skeleton_get_augmented_cycle_stat_from_samples B f fn trough). Qed.

  Theorem skeleton_get_augmented_cycle_stat_from_samples_row : forall vals cv ph fuel,
    (length cv <= length vals)%nat ->
    exec P prog_get_augmented_cycle_stat_from_samples fuel (env0_gacsfs B (yvec vals) cv ph)
    = res_outcome (call_aug_stat B f trough vals cv ph).
  Proof. exact (SkelFacts_Cyclestat.skeleton_get_augmented_cycle_stat_from_samples_row B f fn trough). Qed.

  (* get_cycle_stat, whole body, mode='cycle', cycles a cycle vector or an iterator object: the per-cycle values
     (out=None or any other string) or their projection back onto the samples (out='samples') *)
  Theorem skeleton_get_cycle_stat : forall cycles cv ph values o fuel,
    cycles_in B cycles = Some (cv, ph) ->
    cv <> [] -> Forall (fun c => (-1 <= c)%Z) cv -> length cv = length values ->
    exec P prog_get_cycle_stat fuel (env0_gcs B cycles values CMcycle o)
    = match o with
      | OSamples => ostat_outcome B (cycle_stat_samples f cv values)
      | _ => stat_outcome B (cycle_stat f cv values)
      end.
  Proof. exact (SkelFacts_Cyclestat.skeleton_get_cycle_stat B f fn trough). Qed.

  Theorem skeleton_get_cycle_stat_augmented : forall cv ph values o fuel,
    cv <> [] -> Forall (fun c => (-1 <= c)%Z) cv -> length cv = length values ->
    exec P prog_get_cycle_stat fuel (env0_gcs B (VSig (YObj cv (Some ph))) values CMaug o)
    = match o with
      | OSamples => Return (yarr (map (flat B) (project_by cv (map (ocell B) (aug_stat B f trough cv ph values)))))
      | _ => ostat_outcome B (aug_stat B f trough cv ph values)
      end.
  Proof. exact (SkelFacts_Cyclestat.skeleton_get_cycle_stat_augmented B f fn trough). Qed.

  (* the validation and the dispatch *)
  Theorem skeleton_get_cycle_stat_augmented_nophase : forall cycles cv values o fuel,
    cycles_in B cycles = Some (cv, None) -> cv <> [] -> length cv = length values ->
    exec P prog_get_cycle_stat fuel (env0_gcs B cycles values CMaug o) = Raise "TypeError".
  Proof. exact (SkelFacts_Cyclestat.skeleton_get_cycle_stat_augmented_nophase B f fn trough). Qed.

  Theorem skeleton_get_cycle_stat_mismatch : forall cycles cv ph values m o fuel,
    cycles_in B cycles = Some (cv, ph) -> cv <> [] -> length cv <> length values ->
    exec P prog_get_cycle_stat fuel (env0_gcs B cycles values m o) = Raise "ValueError".
  Proof. exact (SkelFacts_Cyclestat.skeleton_get_cycle_stat_mismatch B f fn trough). Qed.

  Theorem skeleton_get_cycle_stat_empty : forall values m o fuel,
    exec P prog_get_cycle_stat fuel (env0_gcs B (yvec []) values m o) = Raise "ValueError".
  Proof. exact (SkelFacts_Cyclestat.skeleton_get_cycle_stat_empty B f fn trough). Qed.

  Theorem skeleton_get_cycle_stat_badmode : forall cycles cv ph values o fuel,
    cycles_in B cycles = Some (cv, ph) -> cv <> [] -> length cv = length values ->
    exec P prog_get_cycle_stat fuel (env0_gcs B cycles values CMother o) = Raise "ValueError".
  Proof. exact (SkelFacts_Cyclestat.skeleton_get_cycle_stat_badmode B f fn trough). Qed.

  (* get_slice_stat_from_samples (vals an ndarray) over a possibly augmented slice cache *)
  Theorem skeleton_get_slice_stat_from_samples : forall vals asl fuel,
    exec P prog_get_slice_stat_from_samples fuel (env0_gssfs B vals asl)
    = ostat_outcome B (opt_slice_stat B f asl vals).
  Proof. exact (SkelFacts_Cyclestat.skeleton_get_slice_stat_from_samples B f fn trough). Qed.

  (* make_slice_cache, whole body, every cycle vector: the model's combine (run_starts) (run_stops) *)
  Theorem skeleton_make_slice_cache : forall cv fuel,
    exec P prog_make_slice_cache fuel (env0_msc B cv)
    = if (length (run_starts (-1) cv 0) <=? length (run_stops cv 0))%nat
      then slices_outcome B (make_slice_cache cv) else Raise "IndexError".
  Proof. exact (SkelFacts_Cyclestat.skeleton_make_slice_cache B f fn trough). Qed.
End TieStat.

(* the cached path equals the label path (result type Z, model/CyclesObj.v): get_slice_stat_from_samples over the
   cache that make_slice_cache builds returns what get_cycle_stat_from_samples returns over the labels, for every
   cycle vector produced by get_cycle_vector; likewise in augmented mode *)
Theorem skeleton_cached_equals_label : forall (f : list Z -> Z) fn trough Pc ph cv vals fuel fuel',
  container Pc ph cv -> cv <> [] -> length vals = length ph ->
  exec (stat_prims Z f fn trough) prog_get_slice_stat_from_samples fuel
       (env0_gssfs Z vals (map Some (make_slice_cache cv)))
  = exec (stat_prims Z f fn trough) prog_get_cycle_stat_from_samples fuel' (env0_gcsfs Z (yvec vals) cv).
Proof. exact SkelFacts_Cyclestat.skeleton_cached_equals_label. Qed.

Theorem skeleton_cached_equals_label_aug : forall (f : list Z -> Z) fn trough Pc ph cv vals fuel fuel',
  container Pc ph cv -> cv <> [] -> length vals = length ph ->
  exec (stat_prims Z f fn trough) prog_get_slice_stat_from_samples fuel
       (env0_gssfs Z vals (make_aug_slice_cache trough ph (make_slice_cache cv)))
  = exec (stat_prims Z f fn trough) prog_get_augmented_cycle_stat_from_samples fuel'
         (env0_gacsfs Z (yvec vals) cv ph).
Proof. exact SkelFacts_Cyclestat.skeleton_cached_equals_label_aug. Qed.

Section TieBin.
  Variable hist_edges : nat -> list Z.
  Let P := bin_prims hist_edges.

  (* bin_by_phase, whole body, weights=None, bin_edges given: EVERY bin 1..nbins is visited (the loop is
     range(1, nbins + 1); the pre-repair range(1, nbins) is the model's bin_by_phase_v0, refuted in
     proofs/CycleStatFacts.v) and row b of avg is the mean of the values whose phase digitizes to b+1 *)
  Theorem skeleton_bin_by_phase_edges : forall ip x nbins vm edges fuel,
    edges <> [] -> zincreasing edges = true ->
    exec P prog_bin_by_phase fuel (env0_bin ip x nbins vm (yvec edges))
    = if (length ip =? length x)%nat
      then bin_outcome (bin_by_phase edges ip x) vm (VOpaque "centres" [yvec edges])
      else Raise "ValueError".
  Proof. exact (SkelFacts_Cyclestat.skeleton_bin_by_phase_edges hist_edges). Qed.

  (* bin_edges=None: the nbins+1 edges of spectra.define_hist_bins(0, 2*pi, nbins) *)
  Theorem skeleton_bin_by_phase_default : forall ip x nbins vm fuel,
    length (hist_edges nbins) = S nbins -> zincreasing (hist_edges nbins) = true ->
    exec P prog_bin_by_phase fuel (env0_bin ip x nbins vm VNone)
    = if (length ip =? length x)%nat
      then bin_outcome (bin_by_phase (hist_edges nbins) ip x) vm (VOpaque "hist_centres" [VNat nbins])
      else Raise "ValueError".
  Proof. exact (SkelFacts_Cyclestat.skeleton_bin_by_phase_default hist_edges). Qed.
End TieBin.

Print Assumptions skeleton_get_cycle_stat_from_samples.
Print Assumptions skeleton_get_cycle_stat_from_samples_row.
Print Assumptions skeleton_get_augmented_cycle_stat_from_samples.
Print Assumptions skeleton_get_augmented_cycle_stat_from_samples_row.
Print Assumptions skeleton_get_cycle_stat.
Print Assumptions skeleton_get_cycle_stat_augmented.
Print Assumptions skeleton_get_cycle_stat_augmented_nophase.
Print Assumptions skeleton_get_cycle_stat_mismatch.
Print Assumptions skeleton_get_cycle_stat_empty.
Print Assumptions skeleton_get_cycle_stat_badmode.
Print Assumptions skeleton_get_slice_stat_from_samples.
Print Assumptions skeleton_make_slice_cache.
Print Assumptions skeleton_cached_equals_label.
Print Assumptions skeleton_cached_equals_label_aug.
Print Assumptions skeleton_bin_by_phase_edges.
Print Assumptions skeleton_bin_by_phase_default.
