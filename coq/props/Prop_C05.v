(* C05 - extrema are exact, padding is mirrored, envelopes are evaluated on the sample grid.
   Statements only; every proof is [exact <lemma of proofs/ExtremaFacts.v>]. *)
From Coq Require Import ZArith QArith Qround List Bool Lia Sorted.
From EmdV Require Import lib.NpLite model.Extrema model.SiftCore model.Envelope proofs.ExtremaFacts proofs.EnvelopeFacts.
Import ListNotations.
Open Scope Z_scope.

(* detected peaks are exactly the strict local maxima, in temporal order *)
Theorem find_maxima_spec : forall x i, In i (find_maxima x) <-> strict_max_at x i.
Proof. exact ExtremaFacts.find_maxima_spec. Qed.

Theorem find_maxima_sorted : forall x, StronglySorted lt (find_maxima x).
Proof. exact ExtremaFacts.find_maxima_sorted. Qed.

(* troughs (peaks of the negated signal) are exactly the strict local minima *)
Theorem troughs_spec : forall x i, In i (fst (extrema Troughs x)) <-> strict_min_at x i.
Proof. exact ExtremaFacts.troughs_spec. Qed.

(* magnitudes are the signal's own values at the extrema (absolute values for abs_peaks) *)
Theorem extrema_mags_spec : forall m x,
  snd (extrema m x) =
  map (fun i => match m with AbsPeaks => Z.abs (nth i x 0) | _ => nth i x 0 end) (fst (extrema m x)).
Proof. exact ExtremaFacts.extrema_mags_spec. Qed.

(* fewer than two extrema: no envelope *)
Theorem no_extrema_iff : forall x p m,
  get_padded_extrema x p m = NoExtrema <-> (length (fst (extrema m x)) <= 1)%nat.
Proof. exact ExtremaFacts.no_extrema_iff. Qed.

(* the re-padding loop always terminates within the stated fuel *)
Theorem pad_loop_terminates : forall x p m, get_padded_extrema x p m <> PadOutOfFuel.
Proof. exact ExtremaFacts.pad_loop_terminates. Qed.

(* one odd reflection mirrors the array about its first and last element *)
Theorem reflect_chunk_mirror : forall a c j,
  (1 <= j <= c)%nat -> (c <= length a - 1)%nat ->
  nth (c - j) (reflect_chunk a c) 0 = 2 * hd 0 a - nth j a 0 /\
  nth (c + length a - 1 + j) (reflect_chunk a c) 0 = 2 * last a 0 - nth (length a - 1 - j) a 0.
Proof. exact ExtremaFacts.reflect_chunk_mirror. Qed.

(* padding only adds extrema beyond both ends and leaves the interior ones unaltered;
   magnitudes are padded with the end values *)
Theorem pad_interior : forall x p m L M,
  get_padded_extrema x p m = Padded L M ->
  exists Lp Rp,
    L = Lp ++ map Z.of_nat (fst (extrema m x)) ++ Rp /\ length Lp = length Rp /\
    M = repeat (hd 0 (snd (extrema m x))) (length Lp) ++ snd (extrema m x)
        ++ repeat (last (snd (extrema m x)) 0) (length Rp).
Proof. exact ExtremaFacts.pad_interior. Qed.

(* padded locations are strictly ordered in time *)
Theorem pad_strict_sorted : forall x p m L M,
  get_padded_extrema x p m = Padded L M -> StronglySorted Z.lt L.
Proof. exact ExtremaFacts.pad_strict_sorted. Qed.

(* with a pad width >= 1 the padded extrema cover both edges of the signal *)
Theorem pad_covers : forall x p m L M,
  (1 <= p)%nat -> get_padded_extrema x p m = Padded L M ->
  list_min L < 0 /\ Z.of_nat (length x) <= list_max L.
Proof. exact ExtremaFacts.pad_covers. Qed.

(* hence the envelope is evaluated at exactly the integer sample times 0..N-1 *)
Theorem envelope_on_sample_grid : forall x p m L M,
  (1 <= p)%nat -> get_padded_extrema x p m = Padded L M ->
  env_grid L (Z.of_nat (length x)) = Some (zrange 0 (Z.of_nat (length x))).
Proof. exact ExtremaFacts.envelope_on_sample_grid. Qed.

(* the same with parabolic refinement (rational first/last padded locations), repaired grid *)
Theorem env_grid_q_spec : forall (first last_ : Q) N,
  (first < 0)%Q -> (inject_Z N <= last_)%Q -> env_grid_q first last_ N = zrange 0 N.
Proof. exact ExtremaFacts.env_grid_q_spec. Qed.

(* the parabolic vertex of a strict maximum stays within half a sample of it and is not lower *)
Theorem parabolic_vertex_close : forall y0 y1 y2 loc : Q,
  (y0 < y1)%Q -> (y2 < y1)%Q ->
  (loc - (1#2) < fst (parabolic_vertex y0 y1 y2 loc) < loc + (1#2))%Q /\
  (y1 <= snd (parabolic_vertex y0 y1 y2 loc))%Q.
Proof. exact ExtremaFacts.parabolic_vertex_close. Qed.

(* ---- the code before the repair (finding C05-parabolic-envelope-off-grid) ---- *)
Theorem env_grid_v0_refuted : exists (first last_ : Q) N v,
  (first < 0)%Q /\ (inject_Z N <= last_)%Q /\
  In v (env_grid_q_v0 first last_ N) /\ Qden (Qred v) <> 1%positive.
Proof. exact ExtremaFacts.env_grid_v0_refuted. Qed.

Example c05_premises_hold :
  get_padded_extrema [0; 1; 0; 1; 0; 2; 0; 0; 1; 0] 2 Peaks
  = Padded [-3; -1; 1; 3; 5; 8; 11; 13] [1; 1; 1; 1; 2; 1; 1; 1] /\
  get_padded_extrema [0; 1; 0; 1; 0; 2; 0; 0; 1; 0] 2 Troughs
  = Padded [-6; -4; -2; 0; 2; 4; 6; 8; 10; 12] [0; 0; 0; 0; 0; 0; 0; 0; 0; 0].
Proof. exact ExtremaFacts.c05_premises_hold. Qed.

(* ---- the envelope itself: the interpolant (FITPACK spline / PCHIP) is an ORACLE [interp locs mags t] ---- *)
Section EnvelopeTheorems.
  Variable A : Type.
  Variable inj : Z -> A.
  Variable interp : list Z -> list Z -> Z -> A.

  (* with a pad width >= 1 an envelope exists exactly when there are at least two extrema of its kind *)
  Theorem envelope_none_iff : forall x p m, (1 <= p)%nat ->
    (envelope A interp x p m = None <-> (length (fst (extrema m x)) <= 1)%nat).
  Proof. exact (EnvelopeFacts.envelope_none_iff A interp). Qed.

  (* one value per input sample: sample k holds the selected interpolant through the padded extrema evaluated
     at that sample's own integer time index k *)
  Theorem envelope_is_interpolant_on_grid : forall x p m L M, (1 <= p)%nat ->
    get_padded_extrema x p m = Padded L M ->
    envelope A interp x p m = Some (map (interp L M) (zrange 0 (Z.of_nat (length x)))) /\
    (forall k, (k < length x)%nat ->
       nth_error (map (interp L M) (zrange 0 (Z.of_nat (length x)))) k = Some (interp L M (Z.of_nat k))).
  Proof. exact (EnvelopeFacts.envelope_is_interpolant_on_grid A interp). Qed.

  Theorem envelope_length : forall x p m e, envelope A interp x p m = Some e -> length e = length x.
  Proof. exact (EnvelopeFacts.envelope_length A interp). Qed.

  (* under the interpolation contract (the interpolant passes through its knots) the upper envelope passes
     through every unrefined peak, the lower through every trough, the combined through every |x| peak *)
  Theorem envelope_through_extrema : forall x p m e i,
    (forall L M j t v, StronglySorted Z.lt L -> length L = length M ->
        nth_error L j = Some t -> nth_error M j = Some v -> interp L M t = inj v) ->
    (1 <= p)%nat -> envelope A interp x p m = Some e -> In i (fst (extrema m x)) ->
    nth_error e i = Some (inj (match m with AbsPeaks => Z.abs (nth i x 0) | _ => nth i x 0 end)).
  Proof. exact (EnvelopeFacts.envelope_through_extrema A inj interp). Qed.
End EnvelopeTheorems.

Print Assumptions find_maxima_spec.
Print Assumptions find_maxima_sorted.
Print Assumptions troughs_spec.
Print Assumptions extrema_mags_spec.
Print Assumptions no_extrema_iff.
Print Assumptions pad_loop_terminates.
Print Assumptions reflect_chunk_mirror.
Print Assumptions pad_interior.
Print Assumptions pad_strict_sorted.
Print Assumptions pad_covers.
Print Assumptions envelope_on_sample_grid.
Print Assumptions env_grid_q_spec.
Print Assumptions parabolic_vertex_close.
Print Assumptions env_grid_v0_refuted.
Print Assumptions c05_premises_hold.
Print Assumptions envelope_none_iff.
Print Assumptions envelope_is_interpolant_on_grid.
Print Assumptions envelope_length.
Print Assumptions envelope_through_extrema.
