(* TIE - functions that the earlier ties left untied (notes/TIE_MISC.md), against the source of /repo.
   Statements only; every proof is [exact <lemma of proofs/SkelFacts_Misc.v>].

   gen/Gen_Skel_Misc*.v are regenerated on every run by harness/gen_skel_misc.py (fail-closed structural translation
   into the mini language of lib/PyLoop.v, N16 call_frame_callee on).  model/SkelPrims_Misc.v maps every primitive
   name to an oracle / an operation of the model, gives the initial environments and the renderings.
   1.  emd/logger.py set_up  <->  Logger.step _ (SetUp level file) through the world abstraction [abs] of the logger tie
       (state threaded in "$logger"; [run_eff] = outcome + final state).
   2.  emd/_cycles_support.py get_chain_stat_from_samples  <->  CyclesObj.chain_stat;
       emd/cycles.py Cycles.compute_chain_timings (two slices around its nested def)  <->  CyclesObj.chain_timings.
   3.  emd/spectra.py define_hist_bins, define_hist_bins_from_data  <->  hist_bins, hist_bins_from_data
       (models defined in model/SkelPrims_Misc.v). *)
From Coq Require Import String List Bool Arith ZArith.
From EmdV Require Import lib.PyLoop lib.PyLoopTools lib.NpLite.
From EmdV Require Import gen.Gen_Skel_Misc gen.Gen_Skel_Miscsupport gen.Gen_Skel_Misccycles gen.Gen_Skel_Miscspectra.
From EmdV Require Import model.SkelPrims_Logger model.SkelPrims_Misc proofs.SkelFacts_Misc.
From EmdV Require model.Logger model.CycleMaps model.CyclesObj model.SkelPrims_Cyclesobj.
Import ListNotations.
Open Scope string_scope.

(* ---- 1. logger.set_up ------------------------------------------------------------------------------------ *)
(* the state plumbing and nothing else was added to the generated program *)
Theorem thread_erases_set_up : erase_su tprog_set_up = prog_set_up.
Proof. exact SkelFacts_Misc.thread_erases_set_up. Qed.

(* set_up(prefix, log_file=fname, level=None | name of z, console_format=None | a name) entered in ANY world w: the
   caller gets None (or the KeyError of set_format for an unknown format name) and the world left behind is w_set_up *)
Theorem skeleton_set_up : forall fmt_known w prefix fname lvl cf f,
  eff_result (run_eff (su_prims fmt_known) tprog_set_up f (set_up_env0 w prefix fname lvl cf))
  = (set_up_result fmt_known cf, Some (world_val (w_set_up w lvl (wants_file fname)))).
Proof. exact SkelFacts_Misc.skeleton_set_up. Qed.

(* ... which is, in the model, Logger.step _ (SetUp level file) *)
Theorem abs_set_up : forall w lvl file, abs (w_set_up w lvl file) = Logger.set_up (abs w) lvl file.
Proof. exact SkelFacts_Misc.abs_set_up. Qed.

Theorem skeleton_set_up_model : forall fmt_known w prefix fname lvl cf f,
  exists w', eff_result (run_eff (su_prims fmt_known) tprog_set_up f (set_up_env0 w prefix fname lvl cf))
             = (set_up_result fmt_known cf, Some (world_val w')) /\
             abs w' = fst (Logger.step (abs w) (Logger.SetUp lvl (wants_file fname))).
Proof. exact SkelFacts_Misc.skeleton_set_up_model. Qed.

(* the handlers set_up leaves: a console handler at the requested level (INFO by default), a file handler at NOTSET
   iff a file was asked for; logger.disabled is False; logging.disable is left as it was *)
Theorem set_up_handlers : forall w lvl file,
  handlers (w_set_up w lvl file)
  = (HConsole, match lvl with Some z => z | None => Logger.INFO end) :: (if file then [(HFile, 0%Z)] else []) /\
  logger_disabled (w_set_up w lvl file) = false /\
  mgr_disabled (w_set_up w lvl file) = mgr_disabled w.
Proof. exact SkelFacts_Misc.set_up_handlers. Qed.

(* ---- 2. get_chain_stat_from_samples, compute_chain_timings --------------------------------------------------- *)
(* for a non-empty chain vector of chain indices and -1: the translated body returns the model's chain statistics,
   and is Stuck exactly when the model is undefined (a chain whose sample map is undefined) *)
Theorem skeleton_get_chain_stat_from_samples : forall (f : list Z -> Z) (vals chv sv cyv : list Z) fuel,
  chv <> [] -> Forall (fun c => (-1 <= c)%Z) chv ->
  exec chain_prims prog_get_chain_stat_from_samples fuel (chain_env0 vals chv sv cyv f)
  = chain_render (CyclesObj.chain_stat f chv sv cyv vals).
Proof. exact SkelFacts_Misc.skeleton_get_chain_stat_from_samples. Qed.

(* outside that hypothesis: np.max of an empty vector raises, the model has no chains there *)
Theorem get_chain_stat_empty_chain_vect : forall (f : list Z -> Z) (vals chv sv cyv : list Z) fuel,
  chv = [] ->
  exec chain_prims prog_get_chain_stat_from_samples fuel (chain_env0 vals chv sv cyv f) = Raise "ValueError".
Proof. exact SkelFacts_Misc.get_chain_stat_empty_chain_vect. Qed.

Theorem thread_erases_ct :
  SkelPrims_Cyclesobj.erase_self ct_writers tprog_ct_a = prog_compute_chain_timings_a /\
  SkelPrims_Cyclesobj.erase_self ct_writers tprog_ct_b = prog_compute_chain_timings_b /\
  tprog_ct = SSeq tprog_ct_a tprog_ct_b.
Proof. exact SkelFacts_Misc.thread_erases_ct. Qed.

(* the five statements of compute_chain_timings ARE the model's chain_t_loop over the kinds 0..4, in this order:
   result and object left behind are CyclesObj.chain_timings; or the model says ORaised 9 and the program is Stuck *)
Theorem skeleton_compute_chain_timings : forall st fuel,
  (call_result (exec ct_prims tprog_ct fuel (ct_env0 st)), lookup "self" (final_env ct_prims tprog_ct fuel (ct_env0 st)))
  = ct_render (CyclesObj.chain_timings st)
  \/ (snd (CyclesObj.chain_timings st) = CyclesObj.ORaised 9 /\ exec ct_prims tprog_ct fuel (ct_env0 st) = Stuck).
Proof. exact SkelFacts_Misc.skeleton_compute_chain_timings. Qed.

Theorem skeleton_compute_chain_timings_inv : forall st fuel,
  CyclesObj.Inv st ->
  (call_result (exec ct_prims tprog_ct fuel (ct_env0 st)), lookup "self" (final_env ct_prims tprog_ct fuel (ct_env0 st)))
  = ct_render (CyclesObj.chain_timings st).
Proof. exact SkelFacts_Misc.skeleton_compute_chain_timings_inv. Qed.

(* ---- 3. define_hist_bins, define_hist_bins_from_data ---------------------------------------------------------- *)
Section TieHist.
  Variable A : Type.
  Variable linspace : A -> A -> nat -> list A.
  Variables flog fexp : A -> A.
  Variable add : A -> A -> A.
  Variable half : A -> A.
  Variables amin amax : list A -> A.

  Theorem skeleton_define_hist_bins : forall lo hi nbins sc fuel,
    exec (hb_prims A linspace flog fexp add half) prog_define_hist_bins fuel (hb_env0 A lo hi nbins sc)
    = hb_render A (hist_bins A linspace flog fexp add half sc lo hi nbins).
  Proof. exact (SkelFacts_Misc.skeleton_define_hist_bins A linspace flog fexp add half). Qed.

  Theorem skeleton_define_hist_bins_from_data : forall x nb md sc fuel,
    exec (hbd_prims A linspace flog fexp add half amin amax) prog_define_hist_bins_from_data fuel (hbd_env0 A x nb md sc)
    = hb_render A (hist_bins_from_data A linspace flog fexp add half amin amax sc md nb x).
  Proof. exact (SkelFacts_Misc.skeleton_define_hist_bins_from_data A linspace flog fexp add half amin amax). Qed.

  (* with the contract of np.linspace: nbins + 1 edges, nbins centres, centre k = (edge k + edge k+1) / 2 *)
  Theorem define_hist_bins_returns :
    (forall lo hi n, length (linspace lo hi n) = n) ->
    forall lo hi nbins sc fuel,
    sc <> HOtherScale ->
    exists e c, exec (hb_prims A linspace flog fexp add half) prog_define_hist_bins fuel (hb_env0 A lo hi nbins sc)
                = Return (VList [harr A e; harr A c]) /\
                length e = (nbins + 1)%nat /\ length c = nbins /\
                (forall k a b, nth_error e k = Some a -> nth_error e (S k) = Some b -> nth_error c k = Some (half (add a b))).
  Proof. exact (SkelFacts_Misc.define_hist_bins_returns A linspace flog fexp add half). Qed.

  Theorem hist_bins_shape :
    (forall lo hi n, length (linspace lo hi n) = n) ->
    forall sc lo hi nbins e c,
    hist_bins A linspace flog fexp add half sc lo hi nbins = Some (e, c) ->
    length e = (nbins + 1)%nat /\ length c = nbins /\
    (forall k a b, nth_error e k = Some a -> nth_error e (S k) = Some b -> nth_error c k = Some (half (add a b))).
  Proof. exact (SkelFacts_Misc.hist_bins_shape A linspace flog fexp add half). Qed.

  Theorem define_hist_bins_unknown_scale : forall lo hi nbins fuel,
    exec (hb_prims A linspace flog fexp add half) prog_define_hist_bins fuel (hb_env0 A lo hi nbins HOtherScale)
    = Raise "ValueError".
  Proof. exact (SkelFacts_Misc.define_hist_bins_unknown_scale A linspace flog fexp add half). Qed.
End TieHist.

Print Assumptions thread_erases_set_up.
Print Assumptions skeleton_set_up.
Print Assumptions abs_set_up.
Print Assumptions skeleton_set_up_model.
Print Assumptions set_up_handlers.
Print Assumptions skeleton_get_chain_stat_from_samples.
Print Assumptions get_chain_stat_empty_chain_vect.
Print Assumptions thread_erases_ct.
Print Assumptions skeleton_compute_chain_timings.
Print Assumptions skeleton_compute_chain_timings_inv.
Print Assumptions skeleton_define_hist_bins.
Print Assumptions skeleton_define_hist_bins_from_data.
Print Assumptions define_hist_bins_returns.
Print Assumptions hist_bins_shape.
Print Assumptions define_hist_bins_unknown_scale.
