(* C10 - the Hilbert-Huang spectrum bins every sample's energy exactly once.
   Statements only; every proof is [exact <lemma of proofs/SpectraFacts.v>]. *)
From Coq Require Import ZArith List Bool Lia Sorted.
From EmdV Require Import lib.NpLite model.Spectra proofs.SpectraFacts.
Import ListNotations.
Open Scope Z_scope.

(* np.digitize on increasing edges: d edges are <= x and all later ones are > x *)
Theorem digitize_spec : forall edges x d,
  StronglySorted Z.lt edges ->
  (digitize x edges = d <->
   (d <= length edges)%nat /\
   (forall i e, (i < d)%nat -> nth_error edges i = Some e -> e <= x) /\
   (forall i e, (d <= i)%nat -> nth_error edges i = Some e -> x < e)).
Proof. exact SpectraFacts.digitize_spec. Qed.

(* the half-open interval [edge_b, edge_b+1) is exactly digitize = b+1 *)
Theorem digitize_in_bin : forall edges b f,
  StronglySorted Z.lt edges ->
  (in_bin edges b f = true <-> digitize f edges = S b /\ (S b < length edges)%nat).
Proof. exact SpectraFacts.digitize_in_bin. Qed.

Theorem hht_shape : forall energy edges infr inam,
  length (hilberthuang energy edges infr inam) = (length edges - 1)%nat /\
  rectangular (hilberthuang energy edges infr inam) (length infr).
Proof. exact SpectraFacts.hht_shape. Qed.

(* each (time, IMF) sample contributes its weight to exactly the bin containing its
   frequency, in its own time column *)
Theorem hht_cell : forall energy edges infr inam b t,
  StronglySorted Z.lt edges ->
  (b < length edges - 1)%nat -> (t < length infr)%nat ->
  nth t (nth b (hilberthuang energy edges infr inam) []) 0 =
  zsum (map (fun fa => if in_bin edges b (fst fa) then weight energy (snd fa) else 0)
            (combine (nth t infr []) (nth t inam []))).
Proof. exact SpectraFacts.hht_cell. Qed.

(* ... and nothing if the frequency is below the first or at/above the last edge *)
Theorem out_of_range_in_no_bin : forall edges f b,
  StronglySorted Z.lt edges ->
  (f < hd 0 edges \/ last edges 0 <= f) -> in_bin edges b f = false.
Proof. exact SpectraFacts.out_of_range_in_no_bin. Qed.

(* a frequency is in at most one bin *)
Theorem in_bin_unique : forall edges f b b',
  StronglySorted Z.lt edges -> in_bin edges b f = true -> in_bin edges b' f = true -> b = b'.
Proof. exact SpectraFacts.in_bin_unique. Qed.

(* the one-dimensional marginal spectrum: same rule, summed over time per IMF *)
Theorem hht1d_cell : forall energy edges infr inam b j,
  StronglySorted Z.lt edges ->
  (b < length edges - 1)%nat -> (j < length (hd [] infr))%nat ->
  nth j (nth b (hilberthuang_1d energy edges infr inam) []) 0 =
  zsum (map (fun fa => if in_bin edges b (fst fa) then weight energy (snd fa) else 0)
            (combine (column 0 infr j) (column 0 inam j))).
Proof. exact SpectraFacts.hht1d_cell. Qed.

(* the time marginal of the 2-D spectrum equals the IMF marginal of the 1-D spectrum *)
Theorem marginals_agree : forall energy edges infr inam b M,
  StronglySorted Z.lt edges ->
  rectangular infr M -> rectangular inam M -> length infr = length inam ->
  (b < length edges - 1)%nat ->
  zsum (nth b (hilberthuang energy edges infr inam) []) =
  zsum (nth b (hilberthuang_1d energy edges infr inam) []).
Proof. exact SpectraFacts.marginals_agree. Qed.

(* ---- the code before the repair (finding C10-below-range-into-bin0) ---- *)
Theorem hht_v0_refuted : exists edges infr inam,
  StronglySorted Z.lt edges /\
  (forall b, in_bin edges b (nth 0 (nth 0 infr []) 0) = false) /\
  nth 0 (nth 0 (hilberthuang_v0 true edges infr inam) []) 0 <> 0.
Proof. exact SpectraFacts.hht_v0_refuted. Qed.

Example c10_premises_hold :
  StronglySorted Z.lt [4; 8; 12] /\ rectangular [[5; 8]; [-3; 11]] 2 /\
  hilberthuang true [4; 8; 12] [[5; 8]; [-3; 11]] [[1; 2]; [3; 4]] = [[1; 0]; [4; 16]].
Proof. exact SpectraFacts.c10_premises_hold. Qed.

Print Assumptions digitize_spec.
Print Assumptions digitize_in_bin.
Print Assumptions hht_shape.
Print Assumptions hht_cell.
Print Assumptions out_of_range_in_no_bin.
Print Assumptions in_bin_unique.
Print Assumptions hht1d_cell.
Print Assumptions marginals_agree.
Print Assumptions hht_v0_refuted.
Print Assumptions c10_premises_hold.
