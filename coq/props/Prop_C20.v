(* C20 - logging never changes results; verbosity overrides are temporary.
   Statements only; every proof is [exact <lemma of proofs/LoggerFacts.v>]. *)
From Coq Require Import ZArith List Bool Lia.
From EmdV Require Import lib.NpLite model.Logger proofs.LoggerFacts.
Import ListNotations.
Open Scope Z_scope.

(* a per-call override is in force only for that call: the previous console level - indeed the whole
   logger state - is back in place when the call returns or raises, in every state *)
Theorem call_restores_state : forall s v o, fst (call s v o) = s.
Proof. exact LoggerFacts.call_restores_state. Qed.

Theorem override_temporary : forall s v o, get_level (fst (call s v o)) = get_level s.
Proof. exact LoggerFacts.override_temporary. Qed.

(* the caller sees the function's own result / error, whatever the logger state and override *)
Theorem outcome_preserved : forall s v o,
  snd (call s v o) = match o with Returns => SawResult | Raises => SawFunctionError end.
Proof. exact LoggerFacts.outcome_preserved. Qed.

Theorem results_independent_of_logger : forall s s' v v' o, snd (call s v o) = snd (call s' v' o).
Proof. exact LoggerFacts.results_independent_of_logger. Qed.

(* requesting an override before the logger has been set up is harmless *)
Theorem override_before_setup_harmless : forall v o,
  call init_state v o = (init_state, match o with Returns => SawResult | Raises => SawFunctionError end).
Proof. exact LoggerFacts.override_before_setup_harmless. Qed.

(* over every history: the logger state after it is the state after the same history with the calls removed *)
Theorem calls_do_not_affect_state : forall ops s,
  run s ops = run s (filter (fun o => negb (is_call o)) ops).
Proof. exact LoggerFacts.calls_do_not_affect_state. Qed.

Theorem level_after_history : forall ops s,
  get_level (run s ops) = get_level (run s (filter (fun o => negb (is_call o)) ops)).
Proof. exact LoggerFacts.level_after_history. Qed.

Theorem trace_call_level : forall s v o t,
  trace s (Call v o :: t) =
  obs_level s :: (match o with Returns => 1 | Raises => 2 end) :: trace s t.
Proof. exact LoggerFacts.trace_call_level. Qed.

(* ---- the code before the repair (findings C20-override-not-restored-on-raise, C20-override-before-setup-keyerror) ---- *)
Theorem call_v0_raise_refuted : exists s v,
  get_level (fst (call_v0 s (Some v) Raises)) <> get_level s.
Proof. exact LoggerFacts.call_v0_raise_refuted. Qed.

Theorem call_v0_before_setup_refuted : exists v, snd (call_v0 init_state (Some v) Returns) = SawOtherError.
Proof. exact LoggerFacts.call_v0_before_setup_refuted. Qed.

(* non-vacuity: set_up(WARNING); raising call with CRITICAL; returning call with DEBUG; set_level(INFO) *)
Example c20_premises_hold :
  run_trace [[0; 30; 0]; [4; 50; 1]; [4; 10; 0]; [1; 20; 0]] = [30; 0; 30; 2; 30; 1; 20; 0].
Proof. exact LoggerFacts.c20_premises_hold. Qed.

Print Assumptions call_restores_state.
Print Assumptions override_temporary.
Print Assumptions outcome_preserved.
Print Assumptions results_independent_of_logger.
Print Assumptions override_before_setup_harmless.
Print Assumptions calls_do_not_affect_state.
Print Assumptions level_after_history.
Print Assumptions trace_call_level.
Print Assumptions call_v0_raise_refuted.
Print Assumptions call_v0_before_setup_refuted.
Print Assumptions c20_premises_hold.
