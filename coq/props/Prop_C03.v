(* C03 - IMFs are peeled one at a time from the running residual; caps are respected.
   Statements only; every proof is [exact <lemma of proofs/VariantsFacts.v>].

   [peel_loop] (model/SiftCore.v) is the outer loop shared by emd.sift.sift and emd.sift.mask_sift: the
   per-layer extraction [extract layer acc residual] is get_next_imf for the classic sift and
   get_next_imf_mask with that layer's mask frequency/amplitude (which may depend on the previous
   column) for the masked sift - the theorems hold for EVERY extraction function.  The ensemble,
   complete-ensemble and second-layer bookkeeping is model/Variants.v. *)
From Coq Require Import ZArith List Bool Lia.
From EmdV Require Import lib.NpLite model.Extrema model.SiftCore model.Toys model.Variants proofs.SiftCoreFacts proofs.VariantsFacts.
Import ListNotations.

Section Peel.
  Variable V : Type.
  Variable wf : V -> Prop.
  Variable vzero : V.
  Variable vadd vsub : V -> V -> V.
  Variable small : V -> bool.
  Variable extract : nat -> list V -> V -> gni_result V.
  Hypothesis wf_zero : wf vzero.
  Hypothesis wf_add : forall a b, wf a -> wf b -> wf (vadd a b).
  Hypothesis wf_sub : forall a b, wf a -> wf b -> wf (vsub a b).
  Hypothesis extract_wf : forall n acc r p f k, wf r -> extract n acc r = Imf p f k -> wf p.

  Let residual := residual V vzero vadd vsub.
  Let peel := peel_loop V vzero vadd vsub small extract.

  (* the k-th component is the (masked) single-IMF extraction applied to the input minus the first k components *)
  Theorem peel_kth : forall fuel cap X imfs e k,
    peel fuel cap X [] = (imfs, e) -> (k < length imfs)%nat ->
    exists f n, extract k (firstn k imfs) (residual X (firstn k imfs)) = Imf (nth k imfs vzero) f n.
  Proof. exact (VariantsFacts.peel_kth V vzero vadd vsub small extract). Qed.

  (* never more components than the cap *)
  Theorem peel_cap_len : forall fuel k X imfs e, (1 <= k)%nat ->
    peel fuel (Some k) X [] = (imfs, e) -> (length imfs <= k)%nat.
  Proof. exact (VariantsFacts.peel_cap_len V vzero vadd vsub small extract). Qed.

  (* capping at k returns exactly the first k components of the uncapped run (all of them when it has fewer) *)
  Theorem peel_cap_prefix : forall fuel k X l e, (1 <= k)%nat ->
    peel fuel None X [] = (l, e) -> out_of_fuel e = false ->
    fst (peel fuel (Some k) X []) = firstn k l.
  Proof. exact (VariantsFacts.peel_cap_prefix V vzero vadd vsub small extract). Qed.

  (* every component is a well-formed signal (N samples) *)
  Theorem peel_all_wf : forall fuel cap X imfs e, wf X ->
    peel fuel cap X [] = (imfs, e) -> Forall wf imfs.
  Proof. exact (VariantsFacts.peel_all_wf V wf vzero vadd vsub small extract wf_zero wf_add wf_sub extract_wf). Qed.
End Peel.

(* the masked sift's effective cap never exceeds max_imfs nor the number of explicit mask frequencies *)
Theorem mask_cap_le : forall m e,
  (mask_cap m e <= m)%nat /\ (forall n, e = Some n -> (mask_cap m e <= n)%nat) /\
  (forall n, e = Some n -> (m <= n)%nat -> mask_cap m e = m) /\ (e = None -> mask_cap m e = m).
Proof. exact VariantsFacts.mask_cap_le. Qed.

Section Variants.
  Variable V : Type.
  Variable vzero : V.
  Variable vadd vsub : V -> V -> V.
  Variable vmean : list V -> V.

  (* ensemble: defined exactly when every member has enough columns; then exactly cap columns (the first
     member's count without a cap), column ii being the mean over members of their column ii *)
  Theorem ensemble_cols : forall cap members cols,
    ensemble_collect V vzero vmean cap members = Some cols ->
    let k := match cap with Some k => k | None => length (hd [] members) end in
    length cols = k /\ Forall (fun r => (k <= length r)%nat) members /\
    forall ii, (ii < k)%nat -> nth ii cols vzero = vmean (map (fun r => nth ii r vzero) members).
  Proof. exact (VariantsFacts.ensemble_cols V vzero vmean). Qed.

  Theorem ensemble_defined_iff : forall cap members,
    ensemble_collect V vzero vmean cap members <> None <->
    Forall (fun r => (match cap with Some k => k | None => length (hd [] members) end <= length r)%nat) members.
  Proof. exact (VariantsFacts.ensemble_defined_iff V vzero vmean). Qed.

  Variable NS : Type.
  Variable first_layer next_layer : V -> NS -> V.
  Variable upd : NS -> NS.
  Variable few_peaks small_mean : V -> bool.

  (* complete ensemble: never more columns than the cap, for any oracles *)
  Theorem ceemd_cols_le_cap : forall fuel k X ns, (1 <= k)%nat ->
    (length (fst (fst (ceemd V vzero vadd vsub NS first_layer next_layer upd few_peaks small_mean fuel (Some k) X ns))) <= k)%nat.
  Proof. exact (VariantsFacts.ceemd_cols_le_cap V vzero vadd vsub NS first_layer next_layer upd few_peaks small_mean). Qed.

  (* ... and each column after the first is extracted from the input minus the columns before it *)
  Theorem ceemd_kth : forall fuel cap X ns imf ns' b k,
    ceemd V vzero vadd vsub NS first_layer next_layer upd few_peaks small_mean fuel cap X ns = (imf, ns', b) ->
    (1 <= k < length imf)%nat ->
    nth k imf vzero = next_layer (vsub X (vsum V vzero vadd (firstn k imf))) (Nat.iter k upd ns).
  Proof. exact (VariantsFacts.ceemd_kth V vzero vadd vsub NS first_layer next_layer upd few_peaks small_mean). Qed.

  Variable sift_fn : option nat -> V -> option (list V).

  (* second layer: when the inner sift respects its cap the output is one block of exactly k columns per
     first-level component, each block being that component's decomposition zero-padded, and the only way
     to fail is an inner sift raising *)
  Theorem second_layer_shape : forall cap_arg IA,
    (forall c col r, sift_fn (Some c) col = Some r -> (length r <= c)%nat) ->
    (forall col c, In col IA -> sift_fn (Some c) col <> None) ->
    let k := match cap_arg with Some k => k | None => length IA end in
    exists blocks, second_layer V vzero sift_fn cap_arg IA = Some blocks /\
      length blocks = length IA /\ Forall (fun b => length b = k) blocks /\
      forall ii col, nth_error IA ii = Some col ->
        exists tmp, sift_fn (Some k) col = Some tmp /\ nth_error blocks ii = Some (tmp ++ repeat vzero (k - length tmp)).
  Proof. exact (VariantsFacts.second_layer_shape V vzero sift_fn). Qed.
End Variants.

(* ---- concrete instance: the toy classic sift respects its cap, so the second layer over it never overflows ---- *)
Open Scope Z_scope.
Theorem toy_sift_cols_cap : forall c k X r, (1 <= k)%nat ->
  toy_sift_cols c (Some k) X = Some r -> (length r <= k)%nat /\ Forall (fun v => length v = length X) r.
Proof. exact VariantsFacts.toy_sift_cols_cap. Qed.

(* ---- the code before the repairs -------------------------------------------------------------------
   finding C03-ceemd-cap-plus-two: a cap of k returned k + 2 columns *)
Theorem ceemd_cols_v0_refuted : exists c X, cg c 15 = 2 /\
  length (fst (toy_ceemd true c X)) = 4%nat /\ length (fst (toy_ceemd false c X)) = 2%nat.
Proof. exact VariantsFacts.ceemd_cols_v0_refuted. Qed.

(* finding C03-second-layer-loop: the loop ran over range(max_imfs) instead of the first-level components and the
   inner sift was not capped to the block width *)
Theorem second_layer_v0_refuted : exists c IA,
  toy_second_layer true c None IA = None /\
  (exists blocks, toy_second_layer false c None IA = Some blocks /\ length blocks = length IA).
Proof. exact VariantsFacts.second_layer_v0_refuted. Qed.

Example c03_premises_hold :
  let c := [0; 0; 20; 1; 1; 0; 1; 8; 1; 16; 1; 2; 1; 16; 1; 0; 0] in
  let X := [0; 40; -36; 44; -28; 36; -40; 32; -20; 12; 0; 24; -16; 8] in
  exists l, toy_sift_cols c None X = Some l /\ length l = 2%nat /\
            toy_sift_cols c (Some 1%nat) X = Some (firstn 1 l) /\ toy_sift_cols c (Some 3%nat) X = Some l.
Proof. exact VariantsFacts.c03_premises_hold. Qed.

Print Assumptions peel_kth.
Print Assumptions peel_cap_len.
Print Assumptions peel_cap_prefix.
Print Assumptions peel_all_wf.
Print Assumptions mask_cap_le.
Print Assumptions ensemble_cols.
Print Assumptions ensemble_defined_iff.
Print Assumptions ceemd_cols_le_cap.
Print Assumptions ceemd_kth.
Print Assumptions second_layer_shape.
Print Assumptions toy_sift_cols_cap.
Print Assumptions ceemd_cols_v0_refuted.
Print Assumptions second_layer_v0_refuted.
Print Assumptions c03_premises_hold.
