(* TIE - the index maps of model/CycleMaps.v against the source emd/_cycles_support.py (C16; notes/TIE_MAPS.md).
   Statements only; every proof is [exact <lemma of proofs/SkelFacts_Maps.v>].

   gen/Gen_Skel_Maps.v is regenerated on every run from emd/_cycles_support.py by harness/gen_skel_maps.py
   (fail-closed structural translation into the mini language of lib/PyLoop.v): the whole bodies of the twelve
   map_* and the six project_* functions. model/SkelPrims_Maps.v maps every opaque primitive name the translator
   emitted (numpy expressions, callees) to a list operation of lib/NpLite.v / a definition of model/CycleMaps.v.
   The theorems say: under the interpreter of PyLoop.v each translated body computes exactly what the model
   defines - guards (None for unlabelled samples / unselected cycles), loops with stores, compositions - for
   EVERY vector, EVERY index and EVERY fuel. P = maps_prims A, the same table for all eighteen programs; a row
   named after a translated function is proved here to be what that function's own program computes.
   A = the type of the projected per-cycle values (nan = None). *)
From Coq Require Import String List Bool Arith ZArith.
From EmdV Require Import lib.PyLoop lib.NpLite model.CycleMaps gen.Gen_Skel_Maps model.SkelPrims_Maps
  proofs.SkelFacts_Maps.
Import ListNotations.
Open Scope string_scope.

Section TieMaps.
  Variable A : Type.
  Local Notation V := (mval A).
  Local Notation P := (maps_prims A).

  Theorem skeleton_map_sample_to_cycle : forall cv i f,
    exec P prog_map_sample_to_cycle f (env0_map_sample_to_cycle A cv (VNat i))
    = fwd_outcome A (map_sample_to_cycle cv i).
  Proof. exact (SkelFacts_Maps.skeleton_map_sample_to_cycle A). Qed.

  Theorem skeleton_map_cycle_to_subset : forall sv ii k f, as_int A ii = Some k ->
    exec P prog_map_cycle_to_subset f (env0_map_cycle_to_subset A sv ii)
    = fwd_outcome A (map_cycle_to_subset sv k).
  Proof. exact (SkelFacts_Maps.skeleton_map_cycle_to_subset A). Qed.

  Theorem skeleton_map_subset_to_chain : forall chv ii j f, as_int A ii = Some j ->
    exec P prog_map_subset_to_chain f (env0_map_subset_to_chain A chv ii)
    = fwd_outcome A (map_subset_to_chain chv j).
  Proof. exact (SkelFacts_Maps.skeleton_map_subset_to_chain A). Qed.

  Theorem skeleton_map_sample_to_subset : forall sv cv i f,
    exec P prog_map_sample_to_subset f (env0_map_sample_to_subset A sv cv (VNat i))
    = fwd_outcome A (map_sample_to_subset sv cv i).
  Proof. exact (SkelFacts_Maps.skeleton_map_sample_to_subset A). Qed.

  Theorem skeleton_map_cycle_to_chain : forall chv sv ii k f, as_int A ii = Some k ->
    exec P prog_map_cycle_to_chain f (env0_map_cycle_to_chain A chv sv ii)
    = fwd_outcome A (map_cycle_to_chain chv sv k).
  Proof. exact (SkelFacts_Maps.skeleton_map_cycle_to_chain A). Qed.

  Theorem skeleton_map_sample_to_chain : forall chv sv cv i f,
    exec P prog_map_sample_to_chain f (env0_map_sample_to_chain A chv sv cv (VNat i))
    = fwd_outcome A (map_sample_to_chain chv sv cv i).
  Proof. exact (SkelFacts_Maps.skeleton_map_sample_to_chain A). Qed.

  Theorem skeleton_map_subset_to_cycle : forall sv ii j f, as_scalar A ii = Some j ->
    exec P prog_map_subset_to_cycle f (env0_map_subset_to_cycle A sv ii)
    = idx_outcome A (map_subset_to_cycle sv j).
  Proof. exact (SkelFacts_Maps.skeleton_map_subset_to_cycle A). Qed.

  Theorem skeleton_map_cycle_to_samples : forall cv ii k f, as_scalar A ii = Some k ->
    exec P prog_map_cycle_to_samples f (env0_map_cycle_to_samples A cv ii)
    = idx_outcome A (map_cycle_to_samples cv k).
  Proof. exact (SkelFacts_Maps.skeleton_map_cycle_to_samples A). Qed.

  Theorem skeleton_map_chain_to_subset : forall chv ii c f, as_scalar A ii = Some c ->
    exec P prog_map_chain_to_subset f (env0_map_chain_to_subset A chv ii)
    = idx_outcome A (map_chain_to_subset chv c).
  Proof. exact (SkelFacts_Maps.skeleton_map_chain_to_subset A). Qed.

  Theorem skeleton_map_subset_to_sample : forall sv cv ii j f, as_scalar A ii = Some j ->
    exec P prog_map_subset_to_sample f (env0_map_subset_to_sample A sv cv ii)
    = match map_subset_to_sample sv cv j with Some l => idx_outcome A l | None => Stuck end.
  Proof. exact (SkelFacts_Maps.skeleton_map_subset_to_sample A). Qed.

  Theorem skeleton_map_chain_to_cycle : forall chv sv ii c f, as_scalar A ii = Some c ->
    exec P prog_map_chain_to_cycle f (env0_map_chain_to_cycle A chv sv ii)
    = match map_chain_to_subset chv c with
      | [] => Raise "ValueError"
      | _ => idx_outcome A (map_chain_to_cycle chv sv c)
      end.
  Proof. exact (SkelFacts_Maps.skeleton_map_chain_to_cycle A). Qed.

  Theorem skeleton_map_chain_to_samples : forall chv sv cv ii c f, as_scalar A ii = Some c ->
    exec P prog_map_chain_to_samples f (env0_map_chain_to_samples A chv sv cv ii)
    = match map_chain_to_subset chv c with
      | [] => Raise "ValueError"
      | _ => match map_chain_to_samples chv sv cv c with Some l => idx_outcome A l | None => Stuck end
      end.
  Proof. exact (SkelFacts_Maps.skeleton_map_chain_to_samples A). Qed.

  Theorem skeleton_project_cycles_to_samples_cells : forall cells cv f,
    exec P prog_project_cycles_to_samples f (env0_project_cycles_to_samples A cells cv)
    = proj_outcome A (join_opt (project_by cv cells)).
  Proof. exact (SkelFacts_Maps.skeleton_project_cycles_to_samples_cells A). Qed.

  Theorem skeleton_project_subset_to_cycles_cells : forall cells sv f,
    exec P prog_project_subset_to_cycles f (env0_project_subset_to_cycles A cells sv)
    = proj_outcome A (join_opt (project_by sv cells)).
  Proof. exact (SkelFacts_Maps.skeleton_project_subset_to_cycles_cells A). Qed.

  Theorem skeleton_project_chain_to_subset_cells : forall cells chv f,
    exec P prog_project_chain_to_subset f (env0_project_chain_to_subset A cells chv)
    = proj_outcome A (join_opt (project_by chv cells)).
  Proof. exact (SkelFacts_Maps.skeleton_project_chain_to_subset_cells A). Qed.

  Theorem skeleton_project_subset_to_samples_cells : forall cells sv cv f,
    exec P prog_project_subset_to_samples f (env0_project_subset_to_samples A cells sv cv)
    = proj_outcome A (join_opt (project_by cv (join_opt (project_by sv cells)))).
  Proof. exact (SkelFacts_Maps.skeleton_project_subset_to_samples_cells A). Qed.

  Theorem skeleton_project_chain_to_cycles_cells : forall cells chv sv f,
    exec P prog_project_chain_to_cycles f (env0_project_chain_to_cycles A cells chv sv)
    = proj_outcome A (join_opt (project_by sv (join_opt (project_by chv cells)))).
  Proof. exact (SkelFacts_Maps.skeleton_project_chain_to_cycles_cells A). Qed.

  Theorem skeleton_project_chain_to_samples_cells : forall cells chv sv cv f,
    exec P prog_project_chain_to_samples f (env0_project_chain_to_samples A cells chv sv cv)
    = proj_outcome A (join_opt (project_by cv (join_opt (project_by sv (join_opt (project_by chv cells)))))).
  Proof. exact (SkelFacts_Maps.skeleton_project_chain_to_samples_cells A). Qed.

  Theorem skeleton_project_cycles_to_samples : forall vals cv f,
    exec P prog_project_cycles_to_samples f (env0_project_cycles_to_samples A (cells_of A vals) cv)
    = proj_outcome A (CycleMaps.project_cycles_to_samples vals cv).
  Proof. exact (SkelFacts_Maps.skeleton_project_cycles_to_samples A). Qed.

  Theorem skeleton_project_subset_to_cycles : forall vals sv f,
    exec P prog_project_subset_to_cycles f (env0_project_subset_to_cycles A (cells_of A vals) sv)
    = proj_outcome A (CycleMaps.project_subset_to_cycles vals sv).
  Proof. exact (SkelFacts_Maps.skeleton_project_subset_to_cycles A). Qed.

  Theorem skeleton_project_chain_to_subset : forall vals chv f,
    exec P prog_project_chain_to_subset f (env0_project_chain_to_subset A (cells_of A vals) chv)
    = proj_outcome A (CycleMaps.project_chain_to_subset vals chv).
  Proof. exact (SkelFacts_Maps.skeleton_project_chain_to_subset A). Qed.

  Theorem skeleton_project_subset_to_samples : forall vals sv cv f,
    exec P prog_project_subset_to_samples f (env0_project_subset_to_samples A (cells_of A vals) sv cv)
    = proj_outcome A (CycleMaps.project_subset_to_samples vals sv cv).
  Proof. exact (SkelFacts_Maps.skeleton_project_subset_to_samples A). Qed.

  Theorem skeleton_project_chain_to_cycles : forall vals chv sv f,
    exec P prog_project_chain_to_cycles f (env0_project_chain_to_cycles A (cells_of A vals) chv sv)
    = proj_outcome A (CycleMaps.project_chain_to_cycles vals chv sv).
  Proof. exact (SkelFacts_Maps.skeleton_project_chain_to_cycles A). Qed.

  Theorem skeleton_project_chain_to_samples : forall vals chv sv cv f,
    exec P prog_project_chain_to_samples f (env0_project_chain_to_samples A (cells_of A vals) chv sv cv)
    = proj_outcome A (CycleMaps.project_chain_to_samples vals chv sv cv).
  Proof. exact (SkelFacts_Maps.skeleton_project_chain_to_samples A). Qed.

  (* the rows of the table named after a translated function are what that function's program computes *)
  Theorem row_map_sample_to_cycle : forall cv i f,
    exec P prog_map_sample_to_cycle f (env0_map_sample_to_cycle A cv (VNat i)) = res_outcome (call_map_sample_to_cycle A cv (VNat i)).
  Proof. exact (SkelFacts_Maps.row_map_sample_to_cycle A). Qed.

  Theorem row_map_cycle_to_subset : forall sv ii k f, as_int A ii = Some k ->
    exec P prog_map_cycle_to_subset f (env0_map_cycle_to_subset A sv ii) = res_outcome (call_map_cycle_to_subset A sv ii).
  Proof. exact (SkelFacts_Maps.row_map_cycle_to_subset A). Qed.

  Theorem row_map_sample_to_subset : forall sv cv i f,
    exec P prog_map_sample_to_subset f (env0_map_sample_to_subset A sv cv (VNat i)) = res_outcome (call_map_sample_to_subset A sv cv (VNat i)).
  Proof. exact (SkelFacts_Maps.row_map_sample_to_subset A). Qed.

  Theorem row_map_subset_to_chain : forall chv ii k f, as_int A ii = Some k ->
    exec P prog_map_subset_to_chain f (env0_map_subset_to_chain A chv ii) = res_outcome (call_map_subset_to_chain A chv ii).
  Proof. exact (SkelFacts_Maps.row_map_subset_to_chain A). Qed.

  Theorem row_map_cycle_to_chain : forall chv sv ii k f, as_int A ii = Some k ->
    exec P prog_map_cycle_to_chain f (env0_map_cycle_to_chain A chv sv ii) = res_outcome (call_map_cycle_to_chain A chv sv ii).
  Proof. exact (SkelFacts_Maps.row_map_cycle_to_chain A). Qed.

  Theorem row_map_sample_to_chain : forall chv sv cv i f,
    exec P prog_map_sample_to_chain f (env0_map_sample_to_chain A chv sv cv (VNat i)) = res_outcome (call_map_sample_to_chain A chv sv cv (VNat i)).
  Proof. exact (SkelFacts_Maps.row_map_sample_to_chain A). Qed.

  Theorem row_map_cycle_to_samples : forall cv ii k f, as_scalar A ii = Some k ->
    exec P prog_map_cycle_to_samples f (env0_map_cycle_to_samples A cv ii) = res_outcome (call_map_cycle_to_samples A cv ii).
  Proof. exact (SkelFacts_Maps.row_map_cycle_to_samples A). Qed.

  Theorem row_map_subset_to_cycle : forall sv ii k f, as_scalar A ii = Some k ->
    exec P prog_map_subset_to_cycle f (env0_map_subset_to_cycle A sv ii) = res_outcome (call_map_subset_to_cycle A sv ii).
  Proof. exact (SkelFacts_Maps.row_map_subset_to_cycle A). Qed.

  Theorem row_map_chain_to_subset : forall chv ii k f, as_scalar A ii = Some k ->
    exec P prog_map_chain_to_subset f (env0_map_chain_to_subset A chv ii) = res_outcome (call_map_chain_to_subset A chv ii).
  Proof. exact (SkelFacts_Maps.row_map_chain_to_subset A). Qed.

  Theorem row_map_subset_to_sample : forall sv cv ii k f, as_scalar A ii = Some k ->
    exec P prog_map_subset_to_sample f (env0_map_subset_to_sample A sv cv ii)
    = res_outcome (call_map_subset_to_sample A sv cv ii).
  Proof. exact (SkelFacts_Maps.row_map_subset_to_sample A). Qed.

  Theorem row_map_chain_to_cycle : forall chv sv ii k f, as_scalar A ii = Some k ->
    exec P prog_map_chain_to_cycle f (env0_map_chain_to_cycle A chv sv ii)
    = res_outcome (call_map_chain_to_cycle A chv sv ii).
  Proof. exact (SkelFacts_Maps.row_map_chain_to_cycle A). Qed.

  Theorem row_map_chain_to_samples : forall chv sv cv ii k f, as_scalar A ii = Some k ->
    exec P prog_map_chain_to_samples f (env0_map_chain_to_samples A chv sv cv ii)
    = res_outcome (call_map_chain_to_samples A chv sv cv ii).
  Proof. exact (SkelFacts_Maps.row_map_chain_to_samples A). Qed.

End TieMaps.

Print Assumptions skeleton_map_sample_to_cycle.
Print Assumptions skeleton_map_cycle_to_subset.
Print Assumptions skeleton_map_subset_to_chain.
Print Assumptions skeleton_map_sample_to_subset.
Print Assumptions skeleton_map_cycle_to_chain.
Print Assumptions skeleton_map_sample_to_chain.
Print Assumptions skeleton_map_subset_to_cycle.
Print Assumptions skeleton_map_cycle_to_samples.
Print Assumptions skeleton_map_chain_to_subset.
Print Assumptions skeleton_map_subset_to_sample.
Print Assumptions skeleton_map_chain_to_cycle.
Print Assumptions skeleton_map_chain_to_samples.
Print Assumptions skeleton_project_cycles_to_samples_cells.
Print Assumptions skeleton_project_subset_to_cycles_cells.
Print Assumptions skeleton_project_chain_to_subset_cells.
Print Assumptions skeleton_project_subset_to_samples_cells.
Print Assumptions skeleton_project_chain_to_cycles_cells.
Print Assumptions skeleton_project_chain_to_samples_cells.
Print Assumptions skeleton_project_cycles_to_samples.
Print Assumptions skeleton_project_subset_to_cycles.
Print Assumptions skeleton_project_chain_to_subset.
Print Assumptions skeleton_project_subset_to_samples.
Print Assumptions skeleton_project_chain_to_cycles.
Print Assumptions skeleton_project_chain_to_samples.
Print Assumptions row_map_sample_to_cycle.
Print Assumptions row_map_cycle_to_subset.
Print Assumptions row_map_sample_to_subset.
Print Assumptions row_map_subset_to_chain.
Print Assumptions row_map_cycle_to_chain.
Print Assumptions row_map_sample_to_chain.
Print Assumptions row_map_cycle_to_samples.
Print Assumptions row_map_subset_to_cycle.
Print Assumptions row_map_chain_to_subset.
Print Assumptions row_map_subset_to_sample.
Print Assumptions row_map_chain_to_cycle.
Print Assumptions row_map_chain_to_samples.
