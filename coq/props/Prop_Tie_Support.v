(* TIE - the array-layout validators of emd/support.py against the hand-written model/Shapes.v (property C19).
   Statements only; every proof is [exact <lemma of proofs/SkelFacts_Support.v>].

   gen/Gen_Skel_Support.v is regenerated on every run from emd/support.py by harness/gen_skel_support.py
   (fail-closed structural translation into the mini language of lib/PyLoop.v): the whole bodies of ensure_vector,
   ensure_1d_with_singleton, ensure_2d and ensure_equal_dims.  model/SkelPrims_Support.v maps every opaque
   primitive name the translator emitted (xx.ndim, xx.shape, np.squeeze(xx)[:, np.newaxis], out_args[idx][:, 0],
   the store out_args[idx] = ..., ...) to an operation on SHAPES (an array is its shape, a list nat of any rank).
   The theorems say: under the interpreter of PyLoop.v the translated bodies accept / reshape / reject exactly as
   the model's e1d_one / ev_one / e2d_one / ensure_equal_dims do, array after array, the first failure raising -
   for EVERY list of shapes of EVERY rank and every fuel.  The order of the tests in the if/elif chains is part of
   the translated program: reordering them (the defect repaired under C19) changes Gen_Skel_Support.v and the
   step lemmas no longer go through.
   Unqualified Ok is PyLoop's; the model's constructors are Shapes.Ok / Shapes.Err. *)
From Coq Require Import String List Bool Arith.
From EmdV Require Import model.Shapes lib.PyLoop lib.PyLoopTools gen.Gen_Skel_Support model.SkelPrims_Support
  proofs.SkelFacts_Support.
Import ListNotations.
Open Scope string_scope.

(* l = the shapes of the arrays of to_check; ns = names (at least as many as arrays: `names[idx]` is evaluated
   when a message is formatted); fn = func_name, any value; f = fuel, any *)
Theorem skeleton_ensure_vector : forall (l : list shape) (ns : list (val shape)) (fn : val shape) (f : nat),
  (length l <= length ns)%nat ->
  exec support_prims prog_ensure_vector f (ev_env0 l ns fn) = render_arrays (ensure_vector l).
Proof. exact SkelFacts_Support.skeleton_ensure_vector. Qed.

Theorem skeleton_ensure_1d_with_singleton :
  forall (l : list shape) (ns : list (val shape)) (fn : val shape) (f : nat),
  (length l <= length ns)%nat ->
  exec support_prims prog_ensure_1d_with_singleton f (e1d_env0 l ns fn)
  = render_arrays (ensure_1d_with_singleton l).
Proof. exact SkelFacts_Support.skeleton_ensure_1d_with_singleton. Qed.

(* no condition on names: the translated body of ensure_2d hands them to logger calls only *)
Theorem skeleton_ensure_2d : forall (l : list shape) (ns : list (val shape)) (fn : val shape) (f : nat),
  exec support_prims prog_ensure_2d f (e2d_env0 l ns fn) = render_arrays (ensure_2d l).
Proof. exact SkelFacts_Support.skeleton_ensure_2d. Qed.

(* ensure_equal_dims returns nothing: Shapes.Ok tt = the body falls off its end, Shapes.Err e = it raises e *)
Theorem skeleton_ensure_equal_dims :
  forall (ns : list (val shape)) (fn : val shape) (l : list shape) (dim : option nat) (f : nat),
  (length l <= length ns)%nat ->
  agrees_unit (exec support_prims prog_ensure_equal_dims f (eqd_env0 l ns fn dim)) (ensure_equal_dims l dim).
Proof. exact SkelFacts_Support.skeleton_ensure_equal_dims. Qed.

(* the hypothesis on names cannot be dropped: ensure_vector formats a message with names[idx] on its
   (accepting) trimming path *)
Theorem ensure_vector_short_names :
  exec support_prims prog_ensure_vector 0 (ev_env0 [[5; 1]] [] VNone) = Raise "IndexError"
  /\ ensure_vector [[5; 1]] = Shapes.Ok [[5]].
Proof. exact SkelFacts_Support.ensure_vector_short_names. Qed.

Print Assumptions skeleton_ensure_vector.
Print Assumptions skeleton_ensure_1d_with_singleton.
Print Assumptions skeleton_ensure_2d.
Print Assumptions skeleton_ensure_equal_dims.
Print Assumptions ensure_vector_short_names.
