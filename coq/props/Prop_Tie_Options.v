(* TIE (C06) - the call sites of model/Options.v against the TEXT of emd/sift.py (notes/TIE_OPTIONS.md).
   Statements only; every proof is [exact <lemma of proofs/SkelFacts_Options.v>].

   gen/Gen_Skel_Options.v is regenerated on every run from emd/sift.py by harness/gen_skel_options.py (fail-closed
   structural translation into the mini language of lib/PyLoop.v): the whole bodies and the parameter lists of sift,
   _sift_with_noise, ensemble_sift, complete_ensemble_sift, get_next_imf_mask, get_mask_freqs, mask_sift,
   sift_second_layer, mask_sift_second_layer, get_next_imf, interp_envelope, get_padded_extrema.

   C06 is about which option bundle is forwarded where, i.e. about program text.  So this tie is a STATIC EXTRACTION
   and comparison, not an [exec] refinement: model/SkelPrims_Options.v walks each translated body once (abstract
   value per frame name), collects every call site of a stage function / sift variant - direct calls with keywords and
   `**` splats, `pool.starmap(f, args)` with the tuple comprehension that built `args`, and the same through
   functools.partial - binds its arguments against the callee's translated parameter list the way Python does
   ([bind_args]), and denotes the result in the vocabulary of model/Options.v ([bound_sites]; a fall-back
   `if not p: p = {..}` / `if p is None: p = {..}` is accepted only when gen/Gen_Defaults.fallbacks has the same
   parameter, test and literal text).  Each theorem says (code) which sites the body of fn has and what every one of
   them hands to its callee, for EVERY option value type V, falsiness test, literal injection and EVERY keywords kw
   fn is entered with; and (model) that the call-site function model/Options.v has for fn is exactly what these
   bindings give.  How often a site runs, and on what data, is not claimed here (Prop_Tie_Sift / _Ensemble / _Mask /
   _Extrema tie that).  The expected bindings K_* are spelled out at the end of model/SkelPrims_Options.v. *)
From Coq Require Import ZArith List Bool String.
From EmdV Require Import lib.PyLoop model.Config gen.Gen_Defaults model.Options gen.Gen_Skel_Options
                         model.SkelPrims_Options proofs.SkelFacts_Options.
Import ListNotations.
Open Scope string_scope.

(* the def lines harness/gen_tables.py read (used by the model's [arg] / [pos_kw]) are the translator's params_<f> *)
Theorem params_tables_agree :
  map (fun fn => map fst (params sig_defaults fn))
      ["sift"; "_sift_with_noise"; "ensemble_sift"; "complete_ensemble_sift"; "get_next_imf_mask"; "get_mask_freqs";
       "mask_sift"; "get_next_imf"; "interp_envelope"; "get_padded_extrema"]
  = [params_sift; params_sift_with_noise; params_ensemble_sift; params_complete_ensemble_sift;
     params_get_next_imf_mask; params_get_mask_freqs; params_mask_sift; params_get_next_imf;
     params_interp_envelope; params_get_padded_extrema].
Proof. exact SkelFacts_Options.params_tables_agree. Qed.

(* every literal fall-back of gen/Gen_Defaults.fallbacks is a top-level `if` of the translated body of its function,
   with the same parameter, the same test and the same literal text *)
Theorem fallbacks_in_text :
  map fst fallbacks = ["sift"; "get_next_imf"; "get_next_imf_mask"; "get_mask_freqs"; "interp_envelope"; "get_padded_extrema"]
  /\ fb_in_text "sift" prog_sift = true /\ fb_in_text "get_next_imf" prog_get_next_imf = true
  /\ fb_in_text "get_next_imf_mask" prog_get_next_imf_mask = true /\ fb_in_text "get_mask_freqs" prog_get_mask_freqs = true
  /\ fb_in_text "interp_envelope" prog_interp_envelope = true
  /\ fb_in_text "get_padded_extrema" prog_get_padded_extrema = true.
Proof. exact SkelFacts_Options.fallbacks_in_text. Qed.

Section Tie.
  Variable V : Type.
  Variable vfalsy : V -> bool.
  Variable inj : Config.val -> V.
  Local Notation kwargs := (Options.kwargs V).
  Local Notation sites := (bound_sites V vfalsy inj).
  Local Notation arg := (Options.arg V inj).
  Local Notation expand := (Options.expand V vfalsy inj).
  Local Notation sift_entry := (Options.sift_entry V vfalsy inj).
  Local Notation swn_entry := (Options.swn_entry V vfalsy inj).
  Local Notation next_imf_mask := (Options.next_imf_mask V vfalsy inj).
  Local Notation mask_freqs := (Options.mask_freqs V vfalsy inj).
  Local Notation mask_entry := (Options.mask_entry V inj).
  Local Notation repaired := (Options.repaired V vfalsy inj).
  Local Notation G_calls := (Options.G_calls V vfalsy inj).
  Local Notation E_calls := (Options.E_calls V vfalsy inj).
  Local Notation DATA := (Options.DATA V).

  (* sift: one site, get_next_imf(X := data, envelope_opts, extrema_opts, **(imf_opts after sift's fall-back)) *)
  Theorem tie_sift : forall (kw : kwargs) sh,
    sites "sift" kw prog_sift params_sift = [("get_next_imf", Some (K_sift V vfalsy inj kw))]
    /\ expand (sift_entry sh kw) = expand (map (fun n => (n, K_sift V vfalsy inj kw)) sh).
  Proof. exact (SkelFacts_Options.tie_sift V vfalsy inj). Qed.

  (* _sift_with_noise: two sites (the second under noise_mode == 'flip'), sift with the three bundles by keyword *)
  Theorem tie_sift_with_noise : forall (kw : kwargs) sh,
    sites "_sift_with_noise" kw prog_sift_with_noise params_sift_with_noise
    = [("sift", Some (K_swn V inj kw)); ("sift", Some (K_swn V inj kw))]
    /\ swn_entry sh kw
       = (sift_entry (fst sh) (K_swn V inj kw)
          ++ match snd sh with Some s2 => sift_entry s2 (K_swn V inj kw) | None => [] end)%list.
  Proof. exact (SkelFacts_Options.tie_sift_with_noise V vfalsy inj). Qed.

  (* ensemble_sift: starmap(_sift_with_noise, 10-tuples): positions 8, 9, 10 are the three bundles *)
  Theorem tie_ensemble_sift : forall (kw : kwargs) shs,
    sites "ensemble_sift" kw prog_ensemble_sift params_ensemble_sift
    = [("_sift_with_noise", Some (K_members V inj "ensemble_sift" kw (arg "ensemble_sift" kw "max_imfs")))]
    /\ Options.ensemble_entry V vfalsy inj shs kw
       = flat_map (fun s => swn_entry s (K_members V inj "ensemble_sift" kw (arg "ensemble_sift" kw "max_imfs"))) shs.
  Proof. exact (SkelFacts_Options.tie_ensemble_sift V vfalsy inj). Qed.

  (* complete_ensemble_sift: four sites; starmap(sift, 7-tuples) binds X, sift_thresh, max_imfs, verbose := None,
     imf_opts, envelope_opts, extrema_opts (the pre-repair 4-tuple bound imf_opts to `verbose`) *)
  Theorem tie_complete_ensemble_sift : forall (kw : kwargs) sh,
    sites "complete_ensemble_sift" kw prog_complete_ensemble_sift params_complete_ensemble_sift
    = [("_sift_with_noise", Some (K_members V inj "complete_ensemble_sift" kw DATA)); ("sift", Some (K_noise V inj kw));
       ("_sift_with_noise", Some (K_members V inj "complete_ensemble_sift" kw DATA)); ("sift", Some (K_noise V inj kw))]
    /\ Options.ceemd_entry V vfalsy inj repaired sh kw
       = flat_map (fun layer => (flat_map (fun s => swn_entry s (K_members V inj "complete_ensemble_sift" kw DATA)) (fst layer)
                                 ++ flat_map (fun s => sift_entry s (K_noise V inj kw)) (snd layer))%list) sh.
  Proof. exact (SkelFacts_Options.tie_complete_ensemble_sift V vfalsy inj). Qed.

  (* get_next_imf_mask: starmap(functools.partial(get_next_imf, envelope_opts=, extrema_opts=, **imf_opts), [[x]..]) *)
  Theorem tie_get_next_imf_mask : forall (kw : kwargs) sh,
    sites "get_next_imf_mask" kw prog_get_next_imf_mask params_get_next_imf_mask
    = [("get_next_imf", Some (K_gnim V vfalsy inj kw))]
    /\ expand (next_imf_mask sh kw) = expand (map (fun n => (n, K_gnim V vfalsy inj kw)) sh).
  Proof. exact (SkelFacts_Options.tie_get_next_imf_mask V vfalsy inj). Qed.

  Theorem tie_get_mask_freqs : forall (kw : kwargs) n,
    sites "get_mask_freqs" kw prog_get_mask_freqs params_get_mask_freqs = [("get_next_imf", Some (K_gmf V vfalsy inj kw))]
    /\ expand (mask_freqs (Some n) (arg "get_mask_freqs" kw "imf_opts") (arg "get_mask_freqs" kw "envelope_opts")
                          (arg "get_mask_freqs" kw "extrema_opts"))
       = expand [(n, K_gmf V vfalsy inj kw)].
  Proof. exact (SkelFacts_Options.tie_get_mask_freqs V vfalsy inj). Qed.

  Theorem tie_mask_sift : forall (kw : kwargs) sh,
    sites "mask_sift" kw prog_mask_sift params_mask_sift
    = [("get_mask_freqs", Some (K_ms_gmf V inj kw)); ("get_next_imf_mask", Some (K_ms_gnim V inj kw))]
    /\ mask_entry repaired sh kw
       = (mask_freqs (fst sh) (arg "get_mask_freqs" (K_ms_gmf V inj kw) "imf_opts")
                     (arg "get_mask_freqs" (K_ms_gmf V inj kw) "envelope_opts")
                     (arg "get_mask_freqs" (K_ms_gmf V inj kw) "extrema_opts")
          ++ flat_map (fun l => next_imf_mask l (K_ms_gnim V inj kw)) (snd sh))%list.
  Proof. exact (SkelFacts_Options.tie_mask_sift V vfalsy inj). Qed.

  (* the second-layer entry points splat sift_args (or {} when it is None) with only 'max_imfs' / 'mask_freqs'
     possibly overwritten: whatever dictionary d that is, the inner sift sees the caller's bundles *)
  Theorem tie_sift_second_layer :
    map (site_edits "sift_args") (sites_of prog_sift_second_layer params_sift_second_layer)
    = [("sift_func", [AData],
        Some [("X", AData); ("**", AStore "max_imfs" (AFb false "sift_args" (AParam "sift_args") "{}"))],
        [("**", Some ["max_imfs"])])]
    /\ forall (kw d : kwargs) shs, edits_agree V ["max_imfs"] d kw ->
         Options.second_entry V sift_entry shs kw = flat_map (fun s => sift_entry s (("X", DATA) :: d)) shs.
  Proof. exact (SkelFacts_Options.tie_sift_second_layer V vfalsy inj). Qed.

  Theorem tie_mask_sift_second_layer :
    map (site_edits "sift_args") (sites_of prog_mask_sift_second_layer params_mask_sift_second_layer)
    = [("mask_sift", [AData],
        Some [("X", AData);
              ("**", AStore "mask_freqs" (AStore "max_imfs" (AFb false "sift_args" (AParam "sift_args") "{}")))],
        [("**", Some ["mask_freqs"; "max_imfs"])])]
    /\ forall S (kw d : kwargs) (shs : list (list (list nat))), edits_agree V ["mask_freqs"; "max_imfs"] d kw ->
         Options.second_entry V (fun l => mask_entry S (None, l)) shs kw
         = flat_map (fun l => mask_entry S (None, l) (("X", DATA) :: d)) shs.
  Proof. exact (SkelFacts_Options.tie_mask_sift_second_layer V inj). Qed.

  (* get_next_imf: two sites, interp_envelope(X := data, mode='upper' / 'lower', **(envelope_opts or {}), extrema_opts) *)
  Theorem tie_get_next_imf : forall (kw : kwargs),
    sites "get_next_imf" kw prog_get_next_imf params_get_next_imf
    = [("interp_envelope", Some (K_env V vfalsy inj kw)); ("interp_envelope", Some (K_env V vfalsy inj kw))]
    /\ map (site_mode emode_of_env) (sites_of prog_get_next_imf params_get_next_imf) = [Some Upper; Some Lower]
    /\ (Options.kget V "extrema_opts"
          (Options.dict_kids V (Options.fallback V vfalsy inj "get_next_imf" "envelope_opts" (arg "get_next_imf" kw "envelope_opts")))
        = None ->
        forall n, G_calls n kw
                  = {| c_stage := SG; c_kw := Options.bind_params V (Options.G_PARAMS V inj) kw |}
                    :: List.concat (repeat (E_calls Upper (K_env V vfalsy inj kw) ++ E_calls Lower (K_env V vfalsy inj kw))%list n)).
  Proof. exact (SkelFacts_Options.tie_get_next_imf V vfalsy inj). Qed.

  (* interp_envelope: three sites, get_padded_extrema(X, mode='peaks' | 'troughs' | 'abs_peaks', **(extrema_opts after the
     fall-back)), each under the test mode == 'upper' | 'lower' | 'combined' *)
  Theorem tie_interp_envelope : forall (kw : kwargs),
    sites "interp_envelope" kw prog_interp_envelope params_interp_envelope
    = [("get_padded_extrema", Some (K_ext V vfalsy inj kw)); ("get_padded_extrema", Some (K_ext V vfalsy inj kw));
       ("get_padded_extrema", Some (K_ext V vfalsy inj kw))]
    /\ map (fun s => (guard_mode s, site_mode emode_of_ext s)) (sites_of prog_interp_envelope params_interp_envelope)
       = [(Some Upper, Some Upper); (Some Lower, Some Lower); (Some Combined, Some Combined)]
    /\ forall m, E_calls m kw
                 = {| c_stage := SE m; c_kw := Options.bind_params V (Options.E_PARAMS V inj) kw |}
                   :: Options.P_call V inj m (K_ext V vfalsy inj kw).
  Proof. exact (SkelFacts_Options.tie_interp_envelope V vfalsy inj). Qed.

  (* get_padded_extrema: its two fall-backs reach np.pad (before and inside the padding loop) *)
  Theorem tie_get_padded_extrema : forall (kw : kwargs),
    map (fun s => (s_callee s, den_kws V vfalsy inj "get_padded_extrema" kw (s_kw s)))
        (sites_of prog_get_padded_extrema params_get_padded_extrema)
    = let loc := Some (Options.dict_kids V (Options.fallback V vfalsy inj "get_padded_extrema" "loc_pad_opts"
                                                             (arg "get_padded_extrema" kw "loc_pad_opts"))) in
      let mag := Some (Options.dict_kids V (Options.fallback V vfalsy inj "get_padded_extrema" "mag_pad_opts"
                                                             (arg "get_padded_extrema" kw "mag_pad_opts"))) in
      [("np.pad", loc); ("np.pad", mag); ("np.pad", loc); ("np.pad", mag)].
  Proof. exact (SkelFacts_Options.tie_get_padded_extrema V vfalsy inj). Qed.

  Theorem effective_is_padded_extrema_fallbacks : forall m (xo : kwargs) p,
    In p ["loc_pad_opts"; "mag_pad_opts"] ->
    Options.kget V p (effective V vfalsy inj {| c_stage := SP m; c_kw := Options.bind_params V (Options.P_PARAMS V inj) xo |})
    = Some (Options.fallback V vfalsy inj "get_padded_extrema" p (arg "get_padded_extrema" xo p)).
  Proof. exact (SkelFacts_Options.effective_is_padded_extrema_fallbacks V vfalsy inj). Qed.
End Tie.

Print Assumptions params_tables_agree.
Print Assumptions fallbacks_in_text.
Print Assumptions tie_sift.
Print Assumptions tie_sift_with_noise.
Print Assumptions tie_ensemble_sift.
Print Assumptions tie_complete_ensemble_sift.
Print Assumptions tie_get_next_imf_mask.
Print Assumptions tie_get_mask_freqs.
Print Assumptions tie_mask_sift.
Print Assumptions tie_sift_second_layer.
Print Assumptions tie_mask_sift_second_layer.
Print Assumptions tie_get_next_imf.
Print Assumptions tie_interp_envelope.
Print Assumptions tie_get_padded_extrema.
Print Assumptions effective_is_padded_extrema_fallbacks.
