(* TIE - model/KdtMatch.v (property C17) against the source of emd/cycles.py kdt_match / _unique_inds.
   Statements only; every proof is [exact <lemma of proofs/SkelFacts_Kdt.v>].

   gen/Gen_Skel_Kdt.v is regenerated on every run from emd/cycles.py by harness/gen_skel_kdt.py (fail-closed
   structural translation into the mini language of lib/PyLoop.v). model/SkelPrims_Kdt.v maps every opaque
   numpy expression the translator emitted to a list operation and the query result to the oracle (D, inds) of
   the model. The theorems say: under the interpreter of PyLoop.v the translated body of _unique_inds returns
   the sorted unique values of a column with the positions of each, and the translated kdt_match (everything
   below its function-level import: tree, query, K=1 reshaping, the column-by-column greedy assignment, the
   winners, the final extraction) returns exactly the two projections of the model's [kdt_pairs] - for EVERY
   query table, EVERY K and ny, 1-d or 2-d query results, EVERY fuel. The model is stated per row ("row r is
   marked in column c iff ..."), the code with numpy scatter stores over the unique candidate values; the
   refinement is proved, not assumed (SkelFacts_Kdt.col_new_marks). notes/TIE_KDT.md. *)
From Coq Require Import String List Bool Arith ZArith.
From EmdV Require Import lib.NpLite lib.PyLoop model.KdtMatch gen.Gen_Skel_Kdt model.SkelPrims_Kdt proofs.SkelFacts_Kdt.
Import ListNotations.
Open Scope string_scope.

(* _unique_inds(ar), whole body: for every int array, every content of the uninitialised np.empty array, every fuel *)
Theorem skeleton_unique_inds : forall (V : Type) (junk : nat -> bool) (Ic : list nat) (f : nat),
  exec (unique_prims V junk) prog_unique_inds f (unique_env0 V Ic) = unique_render V (unique_inds_model Ic).
Proof. exact SkelFacts_Kdt.skeleton_unique_inds. Qed.

(* what _unique_inds returns, in the terms of model/KdtMatch.v: the values are those of the column, and the
   arg-min over the positions of a value is the model's [claimant] *)
Theorem unique_inds_values : forall (Ic : list nat) (y : nat), In y (fst (unique_inds_model Ic)) <-> In y Ic.
Proof. exact SkelFacts_Kdt.unique_inds_values. Qed.

Theorem unique_inds_claimant : forall (Dc : list Z) (Ic : list nat),
  map (claimant Dc Ic) (fst (unique_inds_model Ic)) = map (argmin_rows Dc) (snd (unique_inds_model Ic)).
Proof. exact SkelFacts_Kdt.unique_inds_claimant. Qed.

(* kdt_match below its import: Return (x_inds, y_inds) = the two projections of the model's pairs; an equality
   for every fuel and every K >= 1, hence never Stuck and never an exception (no np.argmin / np.argmax of an empty
   array, no index out of range). With K = 0 np.argmax(II, axis=1) raises ValueError (rows without cells). *)
Theorem skeleton_kdt_match : forall (V : Type) (D : list (list Z)) (inds : list (list nat)) (K ny : nat)
    (squeezed : bool) (x dub : val V) (f : nat),
  (0 < K)%nat ->
  exec (kdt_prims V D inds K ny squeezed) prog_kdt_match f (kdt_env0 V K x dub)
  = kdt_render V (kdt_pairs D inds K ny).
Proof. exact SkelFacts_Kdt.skeleton_kdt_match. Qed.

Print Assumptions skeleton_unique_inds.
Print Assumptions unique_inds_values.
Print Assumptions unique_inds_claimant.
Print Assumptions skeleton_kdt_match.
