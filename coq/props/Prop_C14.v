(* C14 - per-cycle statistics and phase alignment use exactly each cycle's samples.
   Statements only; every proof is [exact <lemma of proofs/CycleStatFacts.v>]. *)
From Coq Require Import ZArith QArith List Bool Lia Sorted.
From EmdV Require Import lib.NpLite model.CycleMaps model.CycleVec model.Spectra model.CycleStat proofs.CycleStatFacts.
Import ListNotations.
Open Scope Z_scope.

(* the index lookup selects precisely the samples carrying the label, in order *)
Theorem select_cycle_spec : forall cv vals k,
  length cv = length vals -> select_cycle cv vals k = samples_with_label cv vals k.
Proof. exact CycleStatFacts.select_cycle_spec. Qed.

(* a per-cycle statistic is the supplied function applied to precisely those samples:
   for ANY function f (of any result type) and ANY labelling *)
Theorem cycle_stat_spec : forall (B : Type) (f : list Z -> B) cv vals k d,
  length cv = length vals -> (k < ncycles cv)%nat ->
  length (cycle_stat f cv vals) = ncycles cv /\
  nth k (cycle_stat f cv vals) d = f (samples_with_label cv vals (Z.of_nat k)).
Proof. exact CycleStatFacts.cycle_stat_spec. Qed.

(* its projection back to samples is constant within each cycle and missing elsewhere *)
Theorem cycle_stat_samples_spec : forall (B : Type) (f : list Z -> B) cv vals i,
  nth_error (cycle_stat_samples f cv vals) i =
  option_map (fun lbl => if 0 <=? lbl then Some (f (select_cycle cv vals lbl)) else None)
             (nth_error cv i).
Proof. exact CycleStatFacts.cycle_stat_samples_spec. Qed.

(* phase alignment (linear interpolation with extrapolation) reproduces any quantity that is
   linear in phase exactly at every grid point, inside or outside the cycle's phase range,
   for every cycle duration >= 2 samples *)
Theorem phase_align_linear : forall (xs ys : list Q) (a b g : Q),
  q_increasing xs -> (2 <= length xs)%nat -> length ys = length xs ->
  (forall i, (i < length xs)%nat -> (nth i ys 0 == a * nth i xs 0 + b)%Q) ->
  (interp_linear xs ys g == a * g + b)%Q.
Proof. exact CycleStatFacts.phase_align_linear. Qed.

(* and passes through every sample of the cycle for an arbitrary quantity *)
Theorem interp_hits_knots : forall (xs ys : list Q) i,
  q_increasing xs -> (2 <= length xs)%nat -> (i < length xs)%nat ->
  (interp_linear xs ys (nth i xs 0) == nth i ys 0)%Q.
Proof. exact CycleStatFacts.interp_hits_knots. Qed.

(* phase binning: every bin holds the mean (sum, count) of exactly the samples whose phase lies in
   its half-open interval, and is missing only when there are none *)
Theorem bin_by_phase_fills : forall edges ip x b,
  StronglySorted Z.lt edges -> (b < length edges - 1)%nat ->
  nth_error (bin_by_phase edges ip x) b =
  Some (match bin_samples edges ip x b with
        | [] => None
        | sel => Some (zsum sel, Z.of_nat (length sel))
        end).
Proof. exact CycleStatFacts.bin_by_phase_fills. Qed.

Theorem bin_by_phase_length : forall edges ip x,
  length (bin_by_phase edges ip x) = (length edges - 1)%nat.
Proof. exact CycleStatFacts.bin_by_phase_length. Qed.

(* ---- the code before the repair (finding C14-last-phase-bin-never-filled) ---- *)
Theorem bin_by_phase_v0_refuted : exists edges ip x b,
  StronglySorted Z.lt edges /\ (b < length edges - 1)%nat /\
  bin_samples edges ip x b <> [] /\
  nth_error (bin_by_phase_v0 edges ip x) b = Some None.
Proof. exact CycleStatFacts.bin_by_phase_v0_refuted. Qed.

Example c14_premises_hold :
  cycle_stat zsum [-1; 0; 0; 1; -1; 1; 0] [5; 6; 7; 8; 9; 10; 11] = [24; 18] /\
  bin_by_phase [0; 2; 4; 6] [1; 3; 3; 5; 7; -1] [10; 20; 30; 40; 50; 60] = [Some (10, 1); Some (50, 2); Some (40, 1)] /\
  q_increasing [1 # 4; 1 # 2; 3 # 2]%Q.
Proof. exact CycleStatFacts.c14_premises_hold. Qed.

Print Assumptions select_cycle_spec.
Print Assumptions cycle_stat_spec.
Print Assumptions cycle_stat_samples_spec.
Print Assumptions phase_align_linear.
Print Assumptions interp_hits_knots.
Print Assumptions bin_by_phase_fills.
Print Assumptions bin_by_phase_length.
Print Assumptions bin_by_phase_v0_refuted.
Print Assumptions c14_premises_hold.
