(* C08 - ensemble sifts average genuinely independent noise realisations.
   Statements only; every proof is [exact <lemma of proofs/EnsembleFacts.v>].

   Model: model/Ensemble.v.  The random generator is an ORACLE  draw : rng -> nat -> block * rng ; fork copies the
   parent's state into every worker; a schedule is any list of (worker, task) events in which every task occurs
   exactly once ([sched_valid]).  "Member i has its own realisation" is stated schedule-independently: member i
   receives block i of ONE stream, and the stream positions of different members are disjoint.

   NOT PROVED, and not provable here: that two DIFFERENT blocks of the stream hold different numbers.  That is a
   property of the generator (numpy's); it enters as the hypothesis [blocks_differ] of [members_noise_distinct]
   only, and is checked for the toy generator on a bounded scope ([toy_blocks_differ_example]) and on the real
   generator by the harness (digests of the traced noise).

   The per-member decomposition [sift_fn] and the signal arithmetic are oracles as well; the zero-noise theorems
   are proved from their contracts (scaling by 0 gives the zero signal, X + 0 = X, X - 0 = X, half of a + a is a,
   the mean of n >= 1 equal terms is the term, decompositions of well-formed signals are well-formed, the capped
   sift of the zero signal is the zero signal), which are discharged for the executable integer instance
   ([toy_ensemble_zero_noise], [toy_ceemd_zero_noise]).  "To within rounding" is outside every theorem. *)
From Coq Require Import ZArith List Bool Lia.
From EmdV Require Import lib.NpLite model.Extrema model.SiftCore model.Toys model.Variants model.Ensemble
                         proofs.EnsembleFacts.
Import ListNotations.

(* ---- the noise each member receives ------------------------------------------------------------------------ *)
Section Noise.
  Variable rng B : Type.
  Variable draw : rng -> nat -> B * rng.

  (* the code before the repair (noise drawn inside the forked worker): for EVERY generator there is a valid
     schedule on two workers in which members 0 and 1 receive the same block *)
  Theorem members_share_noise_v0_refuted : forall s0 n,
    exists sc l, sched_valid 2 2 sc /\ noises_v0 rng B draw n 2 sc s0 = Some l /\
                 nth_error l 0 = Some (stream_block rng B draw s0 n 0) /\
                 nth_error l 1 = Some (stream_block rng B draw s0 n 0).
  Proof. exact (EnsembleFacts.members_share_noise_v0_refuted rng B draw). Qed.

  (* ... precisely: before the repair member t received the block whose number is t's rank among the tasks of its
     own worker, so any two members with equal ranks shared their noise *)
  Theorem noises_v0_spec : forall n nens nw sc s0,
    sched_valid nw nens sc ->
    noises_v0 rng B draw n nens sc s0
    = map_opt (fun t => option_map (stream_block rng B draw s0 n) (worker_rank sc (fun _ => 0%nat) t)) (seq 0 nens).
  Proof. exact (EnsembleFacts.noises_v0_spec rng B draw). Qed.

  (* repaired: whatever the schedule and the number of workers, member i receives block i of the parent's stream *)
  Theorem member_noise_is_block : forall n nens nw sc s0,
    sched_valid nw nens sc ->
    noises rng B draw n nens sc s0 = Some (map (stream_block rng B draw s0 n) (seq 0 nens)).
  Proof. exact (EnsembleFacts.member_noise_is_block rng B draw). Qed.

  (* hence pairwise different noise, GIVEN the generator's contract that different blocks differ *)
  Theorem members_noise_distinct : forall s0 n,
    (forall i j, i <> j -> stream_block rng B draw s0 n i <> stream_block rng B draw s0 n j) ->
    forall nens nw sc l i j,
      sched_valid nw nens sc -> noises rng B draw n nens sc s0 = Some l ->
      (i < nens)%nat -> (j < nens)%nat -> i <> j -> nth_error l i <> nth_error l j.
  Proof. exact (EnsembleFacts.members_noise_distinct rng B draw). Qed.
End Noise.

(* the stream positions of different members are disjoint ... *)
Theorem member_blocks_disjoint : forall n i j p, i <> j ->
  In p (block_positions n i) -> ~ In p (block_positions n j).
Proof. exact EnsembleFacts.member_blocks_disjoint. Qed.

(* ... and block i consists of exactly the samples at those positions of one long draw, for every generator in
   which drawing a + b samples is drawing a and then b *)
Theorem member_block_positions : forall (rng T : Type) (draw : rng -> nat -> list T * rng),
  (forall s, draw s 0%nat = ([], s)) ->
  (forall s n, length (fst (draw s n)) = n) ->
  (forall s a b, draw s (a + b)%nat = (fst (draw s a) ++ fst (draw (snd (draw s a)) b), snd (draw (snd (draw s a)) b))) ->
  forall s n i m, (i * n + n <= m)%nat ->
    stream_block rng (list T) draw s n i = firstn n (skipn (i * n) (fst (draw s m))).
Proof. exact EnsembleFacts.member_block_positions. Qed.

(* ---- _sift_with_noise and ensemble_sift ------------------------------------------------------------------ *)
Section Ensemble.
  Variable W : Type.
  Variable wzero : W.
  Variable wadd wsub : W -> W -> W.
  Variable whalf : W -> W.
  Variable wmean : list W -> W.
  Variable SC : Type.
  Variable wscale : SC -> W -> W.
  Variable sift_fn : option nat -> W -> option (list W).

  Theorem single_member_spec : forall cap X s noise,
    sift_with_noise W wadd wsub whalf SC wscale sift_fn Single cap X s noise
    = sift_fn cap (wadd X (scaled W SC wscale s noise)).
  Proof. exact (EnsembleFacts.single_member_spec W wadd wsub whalf SC wscale sift_fn). Qed.

  (* a flip member is, column by column, half of (sift(X + n) + sift(X - n)) *)
  Theorem flip_member_spec : forall cap X s noise r,
    sift_with_noise W wadd wsub whalf SC wscale sift_fn Flip cap X s noise = Some r ->
    exists a b, sift_fn cap (wadd X (scaled W SC wscale s noise)) = Some a /\
                sift_fn cap (wsub X (scaled W SC wscale s noise)) = Some b /\
                length a = length b /\ length r = length a /\
                forall k, (k < length a)%nat -> nth k r wzero = whalf (wadd (nth k a wzero) (nth k b wzero)).
  Proof. exact (EnsembleFacts.flip_member_spec W wzero wadd wsub whalf SC wscale sift_fn). Qed.

  (* ... and raises exactly when a decomposition raises or the two have different numbers of columns *)
  Theorem flip_member_error : forall cap X s noise,
    sift_with_noise W wadd wsub whalf SC wscale sift_fn Flip cap X s noise = None <->
    (sift_fn cap (wadd X (scaled W SC wscale s noise)) = None \/ sift_fn cap (wsub X (scaled W SC wscale s noise)) = None \/
     exists a b, sift_fn cap (wadd X (scaled W SC wscale s noise)) = Some a /\
                 sift_fn cap (wsub X (scaled W SC wscale s noise)) = Some b /\ length a <> length b).
  Proof. exact (EnsembleFacts.flip_member_error W wadd wsub whalf SC wscale sift_fn). Qed.

  (* the ensemble is the per-IMF mean over the members; member i is the decomposition with noise block i *)
  Theorem ensemble_mean_spec : forall m cap X s blocks cols,
    ensemble_of_blocks W wzero wadd wsub whalf wmean SC wscale sift_fn m cap X s blocks = Some cols ->
    exists members,
      length members = length blocks /\
      (forall i b, nth_error blocks i = Some b ->
         exists r, sift_with_noise W wadd wsub whalf SC wscale sift_fn m cap X (Some s) b = Some r /\
                   nth_error members i = Some r) /\
      let k := match cap with Some k => k | None => length (hd [] members) end in
      length cols = k /\ Forall (fun r => (k <= length r)%nat) members /\
      forall ii, (ii < k)%nat -> nth ii cols wzero = wmean (map (fun r => nth ii r wzero) members).
  Proof. exact (EnsembleFacts.ensemble_mean_spec W wzero wadd wsub whalf wmean SC wscale sift_fn). Qed.

  Variable rng : Type.
  Variable draw : rng -> nat -> W * rng.

  (* the whole repaired call, for EVERY valid schedule: the mean over the members built from blocks 0..nens-1 of the
     parent's stream; the parent's generator advances by exactly nens blocks (reproducible from the parent's seed) *)
  Theorem ensemble_schedule_independent : forall m cap X s n nens nw sc s0,
    sched_valid nw nens sc ->
    ensemble_sift W wzero wadd wsub whalf wmean SC wscale sift_fn rng draw m cap X s n nens sc s0
    = (ensemble_of_blocks W wzero wadd wsub whalf wmean SC wscale sift_fn m cap X s
         (map (stream_block rng W draw s0 n) (seq 0 nens)),
       stream_state rng W draw s0 n nens).
  Proof. exact (EnsembleFacts.ensemble_schedule_independent W wzero wadd wsub whalf wmean SC wscale sift_fn rng draw). Qed.

  Theorem ensemble_any_two_schedules : forall m cap X s n nens nw1 sc1 nw2 sc2 s0,
    sched_valid nw1 nens sc1 -> sched_valid nw2 nens sc2 ->
    ensemble_sift W wzero wadd wsub whalf wmean SC wscale sift_fn rng draw m cap X s n nens sc1 s0
    = ensemble_sift W wzero wadd wsub whalf wmean SC wscale sift_fn rng draw m cap X s n nens sc2 s0.
  Proof. exact (EnsembleFacts.ensemble_any_two_schedules W wzero wadd wsub whalf wmean SC wscale sift_fn rng draw). Qed.

  (* ---- zero noise amplitude ---- *)
  Variable wf : W -> Prop.
  Variable zero : SC.
  Hypothesis scale0 : forall b, wf b -> wscale zero b = wzero.
  Hypothesis add0 : forall x, wf x -> wadd x wzero = x.
  Hypothesis sub0 : forall x, wf x -> wsub x wzero = x.
  Hypothesis half_double : forall a, wf a -> whalf (wadd a a) = a.
  Hypothesis mean_const : forall a n, wf a -> (1 <= n)%nat -> wmean (repeat a n) = a.
  Hypothesis sift_wf : forall cap x r, wf x -> sift_fn cap x = Some r -> Forall wf r.

  (* every member equals the classic sift with the same cap, and so does the ensemble (its first cap columns;
     an IndexError, as coded, when the classic sift has fewer columns than the cap) *)
  Theorem ensemble_zero_noise : forall m cap X blocks r,
    wf X -> Forall wf blocks -> (1 <= length blocks)%nat -> sift_fn cap X = Some r ->
    Forall (fun b => sift_with_noise W wadd wsub whalf SC wscale sift_fn m cap X (Some zero) b = Some r) blocks /\
    ensemble_of_blocks W wzero wadd wsub whalf wmean SC wscale sift_fn m cap X zero blocks
    = let k := match cap with Some k => k | None => length r end in
      if (k <=? length r)%nat then Some (firstn k r) else None.
  Proof.
    exact (EnsembleFacts.ensemble_zero_noise W wzero wadd wsub whalf wmean SC wscale sift_fn wf zero
             scale0 add0 sub0 half_double mean_const sift_wf).
  Qed.

  Theorem ensemble_zero_noise_eq : forall m cap X blocks r,
    wf X -> Forall wf blocks -> (1 <= length blocks)%nat -> sift_fn cap X = Some r ->
    (forall k, cap = Some k -> length r = k) ->
    ensemble_of_blocks W wzero wadd wsub whalf wmean SC wscale sift_fn m cap X zero blocks = Some r.
  Proof.
    exact (EnsembleFacts.ensemble_zero_noise_eq W wzero wadd wsub whalf wmean SC wscale sift_fn wf zero
             scale0 add0 sub0 half_double mean_const sift_wf).
  Qed.

  (* ---- complete_ensemble_sift ---- *)
  Variable few small_mean : W -> bool.

  (* member i of every layer uses column i of the ONE parent-generated matrix (scaled a second time in the first
     layer, as coded; after k updates in layer k); every column is the mean over the members *)
  Theorem ceemd_members_use_matrix_columns : forall m s fuel cap X cols imf ns' b,
    ceemd_run W wzero wadd wsub whalf wmean SC wscale sift_fn few small_mean m s fuel cap X cols = (imf, ns', b) ->
    nth 0 imf (Some wzero)
    = omean W wmean (map (first_imf W wadd wsub whalf SC wscale sift_fn m (Some s) (Some X)) cols) /\
    forall k, (1 <= k < length imf)%nat ->
      nth k imf (Some wzero)
      = match Nat.iter k (ce_upd W wsub sift_fn) (Some cols) with
        | None => None
        | Some ck => omean W wmean (map (first_imf W wadd wsub whalf SC wscale sift_fn m None
                                          (olift2 W wsub (Some X)
                                             (vsum (oW W) (Some wzero) (olift2 W wadd) (firstn k imf)))) ck)
        end.
  Proof. exact (EnsembleFacts.ceemd_members_use_matrix_columns W wzero wadd wsub whalf wmean SC wscale sift_fn few small_mean). Qed.

  (* the update removes from every column its own first IMF *)
  Theorem ce_upd_columns : forall cols cols',
    ce_upd W wsub sift_fn (Some cols) = Some cols' ->
    length cols' = length cols /\
    forall i n, nth_error cols i = Some n ->
      exists a, first_col W (sift_fn (Some 1%nat) n) = Some a /\ nth_error cols' i = Some (wsub n a).
  Proof. exact (EnsembleFacts.ce_upd_columns W wsub sift_fn). Qed.

  (* each layer's starmap only uses its arguments: every valid schedule yields the same members, in member order *)
  Theorem ceemd_layer_schedule_independent : forall m s X cols nw sc (s0 : rng),
    sched_valid nw (length cols) sc ->
    starmap rng W (oW W) (uses_args rng W (oW W) (first_imf W wadd wsub whalf SC wscale sift_fn m s X)) cols sc s0
    = Some (map (first_imf W wadd wsub whalf SC wscale sift_fn m s X) cols).
  Proof. exact (EnsembleFacts.ceemd_layer_schedule_independent W wadd wsub whalf SC wscale sift_fn rng). Qed.

  Hypothesis wf_zero : wf wzero.
  Hypothesis wf_add : forall a b, wf a -> wf b -> wf (wadd a b).
  Hypothesis wf_sub : forall a b, wf a -> wf b -> wf (wsub a b).
  Hypothesis sift_zero : sift_fn (Some 1%nat) wzero = Some [wzero].

  (* zero amplitude: the complete ensemble is the plain loop whose every column is the classic single-IMF
     extraction of the input minus the columns before it (what C03 proves of the classic sift's columns) *)
  Theorem ceemd_zero_noise : forall m fuel cap X n, wf X -> (1 <= n)%nat ->
    ceemd_run W wzero wadd wsub whalf wmean SC wscale sift_fn few small_mean m zero fuel cap X (repeat wzero n)
    = ceemd_plain W wzero wadd wsub sift_fn few small_mean fuel cap X (repeat wzero n).
  Proof.
    exact (EnsembleFacts.ceemd_zero_noise W wzero wadd wsub whalf wmean SC wscale sift_fn few small_mean wf zero
             wf_zero wf_add wf_sub scale0 add0 sub0 half_double mean_const sift_wf sift_zero).
  Qed.

  Theorem ceemd_plain_kth : forall fuel cap X cols imf ns' b,
    ceemd_plain W wzero wadd wsub sift_fn few small_mean fuel cap X cols = (imf, ns', b) ->
    nth 0 imf (Some wzero) = first_sift W sift_fn (Some X) /\
    forall k, (1 <= k < length imf)%nat ->
      nth k imf (Some wzero)
      = first_sift W sift_fn (olift2 W wsub (Some X) (vsum (oW W) (Some wzero) (olift2 W wadd) (firstn k imf))).
  Proof. exact (EnsembleFacts.ceemd_plain_kth W wzero wadd wsub sift_fn few small_mean). Qed.
End Ensemble.

(* the columns of the matrix occupy pairwise disjoint positions of the single parent draw *)
Theorem matrix_columns_disjoint : forall n nens ii jj p, (ii < nens)%nat -> (jj < nens)%nat -> ii <> jj ->
  In p (column_positions n nens ii) -> ~ In p (column_positions n nens jj).
Proof. exact EnsembleFacts.matrix_columns_disjoint. Qed.

(* ---- the executable integer instance (compared bit for bit with the real code by the harness) -------------- *)
Open Scope Z_scope.

Theorem toy_block_is_positions : forall g s n i,
  stream_block nat (list Z) (toy_draw g) s n i = map g (seq (s + i * n) n).
Proof. exact EnsembleFacts.toy_block_is_positions. Qed.

Theorem toy_to_cols_positions : forall n nens blk ii, (ii < nens)%nat ->
  nth ii (toy_to_cols n nens blk) [] = map (fun p => nth p blk 0) (column_positions n nens ii).
Proof. exact EnsembleFacts.toy_to_cols_positions. Qed.

(* the contracts hold for the instance: zero amplitude gives the toy classic sift, for every schedule / size / mode *)
Theorem toy_ensemble_zero_noise : forall c m nens nw sc X r,
  sched_valid nw nens sc -> (1 <= nens)%nat ->
  toy_sift_cols c (opt_cap (cg c 15)) X = Some r ->
  (forall k, opt_cap (cg c 15) = Some k -> length r = k) ->
  fst (toy_ensemble_noise c [m; Z.of_nat nens; 0; 2; 1] sc X) = Some r.
Proof. exact EnsembleFacts.toy_ensemble_zero_noise. Qed.

Theorem toy_ceemd_zero_noise : forall c m nens X, (1 <= nens)%nat ->
  fst (toy_ceemd_noise c [m; Z.of_nat nens; 0; 2; 1] X)
  = ceemd_plain (list Z) (Toys.vzero (length X)) Toys.vadd Toys.vsub (toy_sift_cols c) toy_few
                (toy_small_mean (cg c 14) (length X)) 60 (opt_cap (cg c 15)) X (repeat (Toys.vzero (length X)) nens).
Proof. exact EnsembleFacts.toy_ceemd_zero_noise. Qed.

Theorem sched_validb_sound : forall nw nt sc, sched_validb nw nt sc = true -> sched_valid nw nt sc.
Proof. exact EnsembleFacts.sched_validb_sound. Qed.

(* bounded instance of the generator contract for the toy generator *)
Example toy_blocks_differ_example :
  forallb (fun i => forallb (fun j => (i =? j)%nat ||
             negb (zeqb_list (stream_block nat (list Z) (toy_draw gen_n) 0%nat 16 i)
                             (stream_block nat (list Z) (toy_draw gen_n) 0%nat 16 j)))
                    (seq 0 8)) (seq 0 8) = true.
Proof. exact EnsembleFacts.toy_blocks_differ_example. Qed.

(* finding C08-ensemble-noise-drawn-in-workers, on the executable instance: same noise, nothing averaged *)
Theorem toy_ensemble_v0_refuted :
  let sc := [(0, 0); (1, 1)]%nat in
  let par := [0; 2; 8; 1; 0] in
  sched_valid 2 2 sc /\
  (exists b, toy_noises true 20 2 sc = Some [b; b]) /\
  (exists b1 b2, toy_noises false 20 2 sc = Some [b1; b2] /\ b1 <> b2) /\
  fst (toy_ensemble_noise_v0 c08_cfg par sc c08_sig) <> fst (toy_ensemble_noise c08_cfg par sc c08_sig) /\
  fst (toy_ensemble_noise_v0 c08_cfg [0; 2; 8; 1; 1] sc c08_sig)
  = fst (toy_ensemble_noise c08_cfg [0; 1; 8; 1; 1] [(0, 0)]%nat c08_sig).
Proof. exact EnsembleFacts.toy_ensemble_v0_refuted. Qed.

Example c08_premises_hold :
  let sc := [(2, 1); (0, 0); (1, 3); (0, 2)]%nat in
  sched_valid 3 4 sc /\
  (exists cols, fst (toy_ensemble_noise c08_cfg [1; 4; 8; 1; 0] sc c08_sig) = Some cols /\ length cols = 2%nat) /\
  snd (toy_ensemble_noise c08_cfg [1; 4; 8; 1; 0] sc c08_sig) = 80%nat /\
  (exists r, toy_sift_cols c08_cfg (Some 2%nat) c08_sig = Some r /\ length r = 2%nat /\
             fst (toy_ensemble_noise c08_cfg [1; 4; 0; 2; 1] sc c08_sig) = Some r) /\
  (exists imf ns, fst (toy_ceemd_noise c08_cfg [1; 2; 4; 1; 2] c08_sig) = (imf, Some ns, false) /\ length imf = 2%nat /\
                  length ns = 2%nat).
Proof. exact EnsembleFacts.c08_premises_hold. Qed.

Print Assumptions members_share_noise_v0_refuted.
Print Assumptions noises_v0_spec.
Print Assumptions member_noise_is_block.
Print Assumptions members_noise_distinct.
Print Assumptions member_blocks_disjoint.
Print Assumptions member_block_positions.
Print Assumptions single_member_spec.
Print Assumptions flip_member_spec.
Print Assumptions flip_member_error.
Print Assumptions ensemble_mean_spec.
Print Assumptions ensemble_schedule_independent.
Print Assumptions ensemble_any_two_schedules.
Print Assumptions ensemble_zero_noise.
Print Assumptions ensemble_zero_noise_eq.
Print Assumptions ceemd_members_use_matrix_columns.
Print Assumptions ce_upd_columns.
Print Assumptions ceemd_layer_schedule_independent.
Print Assumptions ceemd_zero_noise.
Print Assumptions ceemd_plain_kth.
Print Assumptions matrix_columns_disjoint.
Print Assumptions toy_block_is_positions.
Print Assumptions toy_to_cols_positions.
Print Assumptions toy_ensemble_zero_noise.
Print Assumptions toy_ceemd_zero_noise.
Print Assumptions sched_validb_sound.
Print Assumptions toy_blocks_differ_example.
Print Assumptions toy_ensemble_v0_refuted.
Print Assumptions c08_premises_hold.
