(* C19 - array inputs are layout-insensitive and validated (the layout / validation clauses).
   Statements only; every proof is [exact <lemma of proofs/ShapesFacts.v>].
   Shapes are lists of naturals of ANY rank; the theorems quantify over all of them.
   NOT covered by any theorem here (oracle-only, see harness/props/c19.py): that no routine writes
   into the arrays / option dictionaries it is given, that read-only arrays are accepted, and that a
   repeated call returns the same bytes -- statements about the Python heap, not about shapes. *)
From Coq Require Import ZArith List Bool Arith Lia.
From EmdV Require Import model.Shapes proofs.ShapesFacts.
Import ListNotations.
Local Open Scope nat_scope.

(* ---- single-signal routines: ensure_1d_with_singleton -------------------------------------- *)

(* (n,), (n,1), (n,1,1), (n,1,...,1) all become the column (n,1).  Guard: with ONE sample and rank >= 3
   np.squeeze also removes the sample axis (see one_sample_rank3_corner). *)
Theorem singleton_layouts_normalise : forall n k,
  n <> 1 \/ k <= 1 -> e1d_one (n :: repeat 1 k) = Ok [n; 1].
Proof. exact ShapesFacts.singleton_layouts_normalise. Qed.

Theorem one_sample_rank3_corner : forall k, e1d_one (1 :: repeat 1 (S (S k))) = Err IndexErr.
Proof. exact ShapesFacts.e1d_one_sample_corner. Qed.

(* every other array (rank >= 1) is rejected with ValueError: (n,2), (1,n) with n > 1, (n,2,3), ... *)
Theorem multi_column_rejected : forall s,
  s <> [] -> ~ single_signal_layout s -> e1d_one s = Err ValueErr.
Proof. exact ShapesFacts.multi_column_rejected. Qed.

(* the complete input/output relation *)
Theorem e1d_accepts_iff : forall s s',
  e1d_one s = Ok s' <->
  (s = [] /\ s' = []) \/
  (exists n k, s = n :: repeat 1 k /\ (n <> 1 \/ k <= 1) /\ s' = [n; 1]).
Proof. exact ShapesFacts.e1d_accepts_iff. Qed.

(* normalising is idempotent, keeps the sample axis and the number of elements *)
Theorem e1d_idempotent : forall s s', e1d_one s = Ok s' -> e1d_one s' = Ok s'.
Proof. exact ShapesFacts.e1d_idempotent. Qed.

Theorem e1d_preserves_samples : forall s s',
  s <> [] -> e1d_one s = Ok s' -> s' = [hd 0 s; 1] /\ shape_size s' = shape_size s.
Proof. exact ShapesFacts.e1d_preserves_samples. Qed.

(* several arrays: each is normalised on its own, one bad array rejects the call *)
Theorem ensure_1d_with_singleton_pointwise : forall l l',
  ensure_1d_with_singleton l = Ok l' <-> Forall2 (fun s s' => e1d_one s = Ok s') l l'.
Proof. exact ShapesFacts.ensure_1d_with_singleton_pointwise. Qed.

Theorem ensure_1d_with_singleton_rejects_any : forall l s,
  In s l -> s <> [] -> ~ single_signal_layout s -> exists e, ensure_1d_with_singleton l = Err e.
Proof. exact ShapesFacts.ensure_1d_with_singleton_rejects_any. Qed.

Theorem ensure_1d_with_singleton_idempotent : forall l l',
  ensure_1d_with_singleton l = Ok l' -> ensure_1d_with_singleton l' = Ok l'.
Proof. exact ShapesFacts.ensure_1d_with_singleton_idempotent. Qed.

(* the six single-signal sift entry points inherit both clauses *)
Theorem sift_entries_layout_insensitive : forall e n k,
  n <> 1 \/ k <= 1 ->
  sift_entry_layout e (n :: repeat 1 k) = Ok [n; 1] /\
  sift_entry_layout e (n :: repeat 1 k) = sift_entry_layout e [n].
Proof. exact ShapesFacts.sift_entries_layout_insensitive. Qed.

Theorem sift_entries_reject_multi_column : forall e s,
  s <> [] -> ~ single_signal_layout s -> sift_entry_layout e s = Err ValueErr.
Proof. exact ShapesFacts.sift_entries_reject_multi_column. Qed.

(* ---- the code before the repair (finding C19-ensure-1d-rejects-multi-column) ---------------- *)
Theorem multi_column_rejected_v0_refuted : exists s,
  s <> [] /\ ~ single_signal_layout s /\ e1d_one_v0 s = Ok s.
Proof. exact ShapesFacts.multi_column_rejected_v0_refuted. Qed.

Theorem row_vector_accepted_v0 : forall n, e1d_one_v0 [1; n] = Ok [1; n].
Proof. exact ShapesFacts.row_vector_accepted_v0. Qed.

Theorem sift_entries_v0_refuted : forall e, exists s,
  s <> [] /\ ~ single_signal_layout s /\ sift_entry_layout_v0 e s = Ok s.
Proof. exact ShapesFacts.sift_entries_v0_refuted. Qed.

(* the repair touches nothing but 2-d arrays with more than one column *)
Theorem e1d_v0_agrees : forall s, (length s <> 2 \/ nth 1 s 0 = 1) -> e1d_one_v0 s = e1d_one s.
Proof. exact ShapesFacts.e1d_v0_agrees. Qed.

(* ---- ensure_vector / ensure_2d: vector vs single column ------------------------------------- *)
Theorem ev_spec : forall s,
  ev_one s = match s with
             | [] => Ok []
             | [n] => Ok [n]
             | [n; 1] => Ok [n]
             | _ => Err ValueErr
             end.
Proof. exact ShapesFacts.ev_spec. Qed.

Theorem vector_layouts_normalise : forall n, ev_one [n] = Ok [n] /\ ev_one [n; 1] = Ok [n].
Proof. exact ShapesFacts.vector_layouts_normalise. Qed.

(* several columns, or more than two axes: rejected *)
Theorem ev_multi_column_rejected : forall s,
  2 <= length s -> (forall n, s <> [n; 1]) -> ev_one s = Err ValueErr.
Proof. exact ShapesFacts.ev_multi_column_rejected. Qed.

Theorem ev_accepts_iff : forall s s',
  ev_one s = Ok s' <-> (s = [] /\ s' = []) \/ exists n, (s = [n] \/ s = [n; 1]) /\ s' = [n].
Proof. exact ShapesFacts.ev_accepts_iff. Qed.

Theorem ev_result_is_vector : forall s s', s <> [] -> ev_one s = Ok s' -> s' = [hd 0 s] /\ shape_size s' = shape_size s.
Proof. exact ShapesFacts.ev_result_is_vector. Qed.

Theorem ev_idempotent : forall s s', ev_one s = Ok s' -> ev_one s' = Ok s'.
Proof. exact ShapesFacts.ev_idempotent. Qed.

Theorem ensure_vector_idempotent : forall l l', ensure_vector l = Ok l' -> ensure_vector l' = Ok l'.
Proof. exact ShapesFacts.ensure_vector_idempotent. Qed.

(* the code before the repair (finding C19-ensure-vector-rejects-rank3): the `ndim > 2` test was shadowed,
   (n,1,m) was accepted and returned as the 2-d array (n,m) *)
Theorem ev_rank3_accepted_v0 : forall n m, ev_one_v0 [n; 1; m] = Ok [n; m].
Proof. exact ShapesFacts.ev_rank3_accepted_v0. Qed.

Theorem ev_multi_column_rejected_v0_refuted : exists s s',
  2 <= length s /\ (forall n, s <> [n; 1]) /\ ev_one_v0 s = Ok s' /\ length s' = 2.
Proof. exact ShapesFacts.ev_multi_column_rejected_v0_refuted. Qed.

Theorem ev_v0_agrees : forall s, length s <= 2 -> ev_one_v0 s = ev_one s.
Proof. exact ShapesFacts.ev_v0_agrees. Qed.

Theorem e2d_spec : forall s, e2d_one s = match s with [n] => Ok [n; 1] | _ => Ok s end.
Proof. exact ShapesFacts.e2d_spec. Qed.

Theorem e2d_idempotent : forall s s', e2d_one s = Ok s' -> e2d_one s' = Ok s'.
Proof. exact ShapesFacts.e2d_idempotent. Qed.

Theorem e2d_preserves_size : forall s s', e2d_one s = Ok s' -> shape_size s' = shape_size s /\ hd 0 s' = hd 0 s.
Proof. exact ShapesFacts.e2d_preserves_size. Qed.

Theorem extrema_view_vector_is_column : forall n, extrema_view [n; 1] = extrema_view [n] /\ extrema_view [n] = Ok [n].
Proof. exact ShapesFacts.extrema_view_vector_is_column. Qed.

Theorem transform_layout_vector_is_column : forall n, transform_layout [n] = transform_layout [n; 1].
Proof. exact ShapesFacts.transform_layout_vector_is_column. Qed.

Theorem cycle_input_layout_vector_is_column : forall n, cycle_input_layout [n; 1] = cycle_input_layout [n].
Proof. exact ShapesFacts.cycle_input_layout_vector_is_column. Qed.

(* ---- ensure_equal_dims: accept iff the compared axes exist and agree ------------------------- *)
Theorem equal_dims_spec : forall l dim, l <> [] ->
  let r0 := length (hd [] l) in
  ensure_equal_dims l dim = Ok tt <->
  Forall (has_dims dim r0) l /\ forall s, In s l -> dims_of dim r0 s = dims_of dim r0 (hd [] l).
Proof. exact ShapesFacts.equal_dims_spec. Qed.

Theorem equal_dims_index_error : forall l dim, l <> [] ->
  let r0 := length (hd [] l) in
  ensure_equal_dims l dim = Err IndexErr <-> ~ Forall (has_dims dim r0) l.
Proof. exact ShapesFacts.equal_dims_index_error. Qed.

Theorem equal_dims_value_error : forall l dim, l <> [] ->
  let r0 := length (hd [] l) in
  ensure_equal_dims l dim = Err ValueErr <->
  Forall (has_dims dim r0) l /\ exists s, In s l /\ dims_of dim r0 s <> dims_of dim r0 (hd [] l).
Proof. exact ShapesFacts.equal_dims_value_error. Qed.

Theorem equal_dims_rejects_length_mismatch : forall l dim s,
  (dim = None \/ dim = Some 0) -> hd [] l <> [] -> In s l -> s <> [] -> hd 0 s <> hd 0 (hd [] l) ->
  exists e, ensure_equal_dims l dim = Err e.
Proof. exact ShapesFacts.equal_dims_rejects_length_mismatch. Qed.

(* ---- multi-array entry points: mismatched lengths rejected, vector/column of equal length accepted --- *)
Theorem hilberthuang_rejects_mismatch : forall a b,
  a <> [] -> b <> [] -> hd 0 a <> hd 0 b -> exists e, hilberthuang_validate a b = Err e.
Proof. exact ShapesFacts.hilberthuang_rejects_mismatch. Qed.

Theorem holospectrum_rejects_mismatch : forall a b c,
  a <> [] -> b <> [] -> c <> [] -> (hd 0 a <> hd 0 b \/ hd 0 a <> hd 0 c) ->
  exists e, holospectrum_validate a b c = Err e.
Proof. exact ShapesFacts.holospectrum_rejects_mismatch. Qed.

Theorem phase_align_rejects_mismatch : forall a b,
  a <> [] -> b <> [] -> hd 0 a <> hd 0 b -> exists e, phase_align_validate a b = Err e.
Proof. exact ShapesFacts.phase_align_rejects_mismatch. Qed.

Theorem bin_by_phase_rejects_mismatch : forall ip x,
  ip <> [] -> x <> [] -> hd 0 ip <> hd 0 x -> exists e, bin_by_phase_validate ip x None = Err e.
Proof. exact ShapesFacts.bin_by_phase_rejects_mismatch. Qed.

Theorem bin_by_phase_weights_rejects_mismatch : forall ip x w,
  ip <> [] -> x <> [] -> w <> [] -> (hd 0 ip <> hd 0 x \/ hd 0 ip <> hd 0 w) ->
  exists e, bin_by_phase_validate ip x (Some w) = Err e.
Proof. exact ShapesFacts.bin_by_phase_weights_rejects_mismatch. Qed.

Theorem cycle_vector_mask_rejects_mismatch : forall a b,
  a <> [] -> b <> [] -> hd 0 a <> hd 0 b -> exists e, cycle_vector_mask_validate a b = Err e.
Proof. exact ShapesFacts.cycle_vector_mask_rejects_mismatch. Qed.

Theorem hilberthuang_accepts_vector_or_column : forall n,
  hilberthuang_validate [n] [n] = Ok [[n; 1]; [n; 1]] /\
  hilberthuang_validate [n] [n; 1] = Ok [[n; 1]; [n; 1]] /\
  hilberthuang_validate [n; 1] [n] = Ok [[n; 1]; [n; 1]] /\
  hilberthuang_validate [n; 1] [n; 1] = Ok [[n; 1]; [n; 1]].
Proof. exact ShapesFacts.hilberthuang_accepts_vector_or_column. Qed.

Theorem phase_align_accepts_vector_or_column : forall n,
  phase_align_validate [n] [n] = Ok [[n]; [n]] /\
  phase_align_validate [n] [n; 1] = Ok [[n]; [n]] /\
  phase_align_validate [n; 1] [n] = Ok [[n]; [n]] /\
  phase_align_validate [n; 1] [n; 1] = Ok [[n]; [n]].
Proof. exact ShapesFacts.phase_align_accepts_vector_or_column. Qed.

Theorem cycle_vector_mask_accepts_vector_or_column : forall n,
  cycle_vector_mask_validate [n] [n] = Ok [[n; 1]; [n; 1]] /\
  cycle_vector_mask_validate [n; 1] [n] = Ok [[n; 1]; [n; 1]] /\
  cycle_vector_mask_validate [n] [n; 1] = Ok [[n; 1]; [n; 1]].
Proof. exact ShapesFacts.cycle_vector_mask_accepts_vector_or_column. Qed.

Theorem bin_by_phase_accepts_vector_or_column : forall n t,
  bin_by_phase_validate [n] (n :: t) None = Ok [[n]; n :: t] /\
  bin_by_phase_validate [n; 1] (n :: t) None = Ok [[n]; n :: t] /\
  bin_by_phase_validate [n] (n :: t) (Some [n]) = Ok [[n]; n :: t; [n; 1]] /\
  bin_by_phase_validate [n; 1] (n :: t) (Some [n; 1]) = Ok [[n]; n :: t; [n; 1]].
Proof. exact ShapesFacts.bin_by_phase_accepts_vector_or_column. Qed.

(* ---- the hypotheses are met by concrete, non-trivial states ----------------------------------- *)
Example c19_premises_hold :
  e1d_one [7; 1; 1; 1] = Ok [7; 1] /\
  e1d_one [7; 2] = Err ValueErr /\ e1d_one [1; 7] = Err ValueErr /\ e1d_one [7; 2; 3] = Err ValueErr /\
  e1d_one_v0 [7; 2] = Ok [7; 2] /\
  ensure_1d_with_singleton [[7]; [7; 1; 1]; [3; 1]] = Ok [[7; 1]; [7; 1]; [3; 1]] /\
  ensure_vector [[7; 1]; [7; 2]] = Err ValueErr /\
  ensure_equal_dims [[5; 2]; [5; 3]] (Some 0) = Ok tt /\
  ensure_equal_dims [[5; 2]; [5; 3]] (Some 1) = Err ValueErr /\
  ensure_equal_dims [[5; 2]; [5; 2; 3]] None = Ok tt /\
  ensure_equal_dims [[5; 2; 3]; [5; 2]] None = Err IndexErr /\
  hilberthuang_validate [6] [6; 1] = Ok [[6; 1]; [6; 1]] /\
  hilberthuang_validate [6] [7] = Err ValueErr /\
  holospectrum_validate [6; 2] [6; 2; 3] [6; 2; 3] = Ok [[6; 2]; [6; 2; 3]; [6; 2; 3]] /\
  holospectrum_validate [6; 2] [5; 2; 3] [6; 2; 3] = Err ValueErr.
Proof. exact ShapesFacts.c19_premises_hold. Qed.

Print Assumptions singleton_layouts_normalise.
Print Assumptions one_sample_rank3_corner.
Print Assumptions multi_column_rejected.
Print Assumptions e1d_accepts_iff.
Print Assumptions e1d_idempotent.
Print Assumptions e1d_preserves_samples.
Print Assumptions ensure_1d_with_singleton_pointwise.
Print Assumptions ensure_1d_with_singleton_rejects_any.
Print Assumptions ensure_1d_with_singleton_idempotent.
Print Assumptions sift_entries_layout_insensitive.
Print Assumptions sift_entries_reject_multi_column.
Print Assumptions multi_column_rejected_v0_refuted.
Print Assumptions row_vector_accepted_v0.
Print Assumptions sift_entries_v0_refuted.
Print Assumptions e1d_v0_agrees.
Print Assumptions ev_spec.
Print Assumptions vector_layouts_normalise.
Print Assumptions ev_multi_column_rejected.
Print Assumptions ev_accepts_iff.
Print Assumptions ev_result_is_vector.
Print Assumptions ev_idempotent.
Print Assumptions ensure_vector_idempotent.
Print Assumptions ev_rank3_accepted_v0.
Print Assumptions ev_multi_column_rejected_v0_refuted.
Print Assumptions ev_v0_agrees.
Print Assumptions e2d_spec.
Print Assumptions e2d_idempotent.
Print Assumptions e2d_preserves_size.
Print Assumptions extrema_view_vector_is_column.
Print Assumptions transform_layout_vector_is_column.
Print Assumptions cycle_input_layout_vector_is_column.
Print Assumptions equal_dims_spec.
Print Assumptions equal_dims_index_error.
Print Assumptions equal_dims_value_error.
Print Assumptions equal_dims_rejects_length_mismatch.
Print Assumptions hilberthuang_rejects_mismatch.
Print Assumptions holospectrum_rejects_mismatch.
Print Assumptions phase_align_rejects_mismatch.
Print Assumptions bin_by_phase_rejects_mismatch.
Print Assumptions bin_by_phase_weights_rejects_mismatch.
Print Assumptions cycle_vector_mask_rejects_mismatch.
Print Assumptions hilberthuang_accepts_vector_or_column.
Print Assumptions phase_align_accepts_vector_or_column.
Print Assumptions cycle_vector_mask_accepts_vector_or_column.
Print Assumptions bin_by_phase_accepts_vector_or_column.
Print Assumptions c19_premises_hold.
