(* TIE - the hand-written models of the ensemble variants (model/Variants.v, model/Ensemble.v; properties C03, C08)
   against the source. Statements only; every proof is [exact <lemma of proofs/SkelFacts_Ensemble.v>].

   gen/Gen_Skel_Ensemble.v is regenerated on every run from emd/sift.py by harness/gen_skel_ensemble.py (fail-closed
   structural translation of the WHOLE BODIES of complete_ensemble_sift, sift_second_layer, ensemble_sift and
   _sift_with_noise into the mini language of lib/PyLoop.v). model/SkelPrims_Ensemble.v maps every opaque
   primitive name the translator emitted to an oracle of the models. The theorems say: under the interpreter of
   PyLoop.v the translated bodies compute exactly what [ceemd], [second_layer], [ensemble_of_blocks] (=
   [sift_with_noise] per member + [ensemble_collect]) and [sift_with_noise] compute - for EVERY signal type,
   EVERY behaviour of the oracles, EVERY input and EVERY fuel. A change to the control flow of those functions
   changes Gen_Skel_Ensemble.v and these proofs have to go through again. *)
From Coq Require Import String List Bool Arith.
From EmdV Require Import model.SiftCore model.Variants model.Ensemble.
From EmdV Require Import lib.PyLoop lib.PyLoopTools gen.Gen_Skel_Ensemble model.SkelPrims_Ensemble proofs.SkelFacts_Ensemble.
Import ListNotations.
Open Scope string_scope.

Section TieCeemd.
  Variable V : Type.                           (* a signal = one column *)
  Variable NS : Type.                          (* the [nsamples x nensembles] noise matrix *)
  Variable vzero : V.
  Variable vadd vsub : V -> V -> V.
  Variable first_layer next_layer : V -> NS -> V.   (* member arguments + starmap(_sift_with_noise) + mean over members *)
  Variable nfirst : NS -> NS.                  (* the first IMF of every noise column: starmap(sift) + [r[:, 0]].T *)
  Variable nsub : NS -> NS -> NS.              (* noise - ... *)
  Variable few_peaks small_mean : V -> bool.
  Variable noise0 : NS.                        (* random_sample((N, nensembles)) * noise_scaling as drawn *)

  Let P := ceemd_prims V NS vzero vadd vsub first_layer next_layer nfirst nsub few_peaks small_mean noise0.
  (* Variants.ceemd with upd = "every noise column minus its own first IMF" *)
  Let model := ceemd V vzero vadd vsub NS first_layer next_layer (ce_upd_of NS nfirst nsub) few_peaks small_mean.

  (* the translated whole body of complete_ensemble_sift, for every fuel (= bound on the layers after the first),
     max_imfs = cap (None or any int, 0 included) and any values of the parameters that are only handed on:
     Return (imf, noise) with exactly the columns and the noise matrix of the model / OutOfFuel exactly when
     the model's loop runs out of fuel; in particular never Stuck *)
  Theorem skeleton_ceemd_refines : forall cap X nens en nm npr vb io eo xo f,
    exec P prog_complete_ensemble_sift f (ceemd_env0 V NS cap X nens en nm npr vb io eo xo)
    = ceemd_render V NS (model f cap X noise0).
  Proof. exact (SkelFacts_Ensemble.skeleton_ceemd_refines V NS vzero vadd vsub first_layer next_layer nfirst nsub
                  few_peaks small_mean noise0). Qed.
End TieCeemd.

Section TieSecondLayer.
  Variable V : Type.
  Variable vzero : V.
  Variable sift_fn : option nat -> V -> option (list V).     (* sift_func(col, max_imfs=..); None = it raised *)

  Let P := second_prims V vzero sift_fn.

  (* the translated whole body of sift_second_layer on the first-level columns IA, any sift_func value, and
     sift_args = None / a dictionary whose max_imfs is absent, None or an int: returns exactly the blocks of
     Variants.second_layer, raises exactly when it is None *)
  Theorem skeleton_second_layer_refines : forall f IA sf sa,
    second_agrees V (exec P prog_sift_second_layer f (second_env0 V IA sf sa))
                  (second_layer V vzero sift_fn (cap_arg_of sa) IA).
  Proof. exact (SkelFacts_Ensemble.skeleton_second_layer_refines V vzero sift_fn). Qed.
End TieSecondLayer.

Section TieMember.
  Variable W : Type.
  Variable wadd wsub : W -> W -> W.
  Variable whalf : W -> W.
  Variable SC : Type.
  Variable wscale : SC -> W -> W.
  Variable sift_fn : option nat -> W -> option (list W).
  Variable drawn : W.                          (* np.random.randn of X.shape, used only when noise is None *)

  Let P := member_prims W wadd wsub whalf SC wscale sift_fn drawn.

  (* the translated whole body of _sift_with_noise (noise_mode 'single' / 'flip', noise_scaling and noise None or
     given, job_ind None or an int): returns exactly the decomposition of Ensemble.sift_with_noise, raises
     exactly when it is None *)
  Theorem skeleton_sift_with_noise_refines : forall f X s noise m cap ji io eo xo,
    member_agrees W SC
      (exec P prog_sift_with_noise f (member_env0 W SC X s noise m cap ji io eo xo))
      (sift_with_noise W wadd wsub whalf SC wscale sift_fn m cap X s
                       (match noise with Some n => n | None => drawn end)).
  Proof. exact (SkelFacts_Ensemble.skeleton_sift_with_noise_refines W wadd wsub whalf SC wscale sift_fn drawn). Qed.
End TieMember.

Section TieEnsemble.
  Variable W : Type.
  Variable wzero : W.
  Variable wadd wsub : W -> W -> W.
  Variable whalf : W -> W.
  Variable wmean : list W -> W.
  Variable SC : Type.
  Variable wscale : SC -> W -> W.
  Variable sift_fn : option nat -> W -> option (list W).
  Variable scale : SC.                         (* X.std() * ensemble_noise *)
  Variable blocks : list W.                    (* the noise drawn in the parent, one block per member *)

  Let P := ensemble_prims W wzero wadd wsub whalf wmean SC wscale sift_fn scale blocks.
  Let model := ensemble_of_blocks W wzero wadd wsub whalf wmean SC wscale sift_fn.

  (* the translated whole body of ensemble_sift: one _sift_with_noise per block (scaled by noise_scaling), then the
     collation of Variants.ensemble_collect; returns exactly the model's columns, raises exactly when it is None.
     Excluded: nensembles = 0 together with max_imfs = None (next theorem) *)
  Theorem skeleton_ensemble_refines : forall f X nens m cap en npr vb io eo xo,
    length blocks = nens -> (nens = 0%nat -> cap <> None) ->
    ensemble_agrees W SC
      (exec P prog_ensemble_sift f (ensemble_env0 W SC X nens en m npr cap vb io eo xo))
      (model m cap X scale blocks).
  Proof. exact (SkelFacts_Ensemble.skeleton_ensemble_refines W wzero wadd wsub whalf wmean SC wscale sift_fn scale blocks). Qed.

  (* FINDING: with no members and no cap the code raises IndexError (res[0]) where ensemble_collect returns the
     empty matrix *)
  Theorem skeleton_ensemble_empty_differs : forall f X m en npr vb io eo xo,
    blocks = [] ->
    exec P prog_ensemble_sift f (ensemble_env0 W SC X 0 en m npr None vb io eo xo) = Raise "IndexError" /\
    model m None X scale blocks = Some [].
  Proof. exact (SkelFacts_Ensemble.skeleton_ensemble_empty_differs W wzero wadd wsub whalf wmean SC wscale sift_fn scale blocks). Qed.
End TieEnsemble.

Print Assumptions skeleton_ceemd_refines.
Print Assumptions skeleton_second_layer_refines.
Print Assumptions skeleton_sift_with_noise_refines.
Print Assumptions skeleton_ensemble_refines.
Print Assumptions skeleton_ensemble_empty_differs.
