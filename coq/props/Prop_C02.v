(* C02 - sifting commutes with rescaling, sign flip and time reversal.
   Statements only; every proof is [exact <lemma of proofs/SymmetryFacts.v>].

   WHAT IS PROVED.  One abstract theorem carries all three symmetries: for ANY signal type V, any envelope
   oracle, any stopping oracles and any map s : V -> V that commutes with the vector operations, under
   which the envelope oracle is equivariant (the pair (upper, lower) is mapped by s_env: componentwise for
   c > 0 and for time reversal, SWAPPED for c < 0 because upper(c x) = c lower(x)) and the stopping / energy
   oracles are invariant, get_next_imf (model/SiftCore.v gni_loop, get_next_imf_gen) commutes with s for
   every fuel, iteration limit and stopping method, and so does the outer loop of sift / mask_sift
   (peel_loop) when the sift_thresh test is invariant (for rescaling this is the proviso that the absolute
   threshold is scaled by |c|).  The concrete layer (integer lists, model/Extrema.v, model/Toys.v) discharges
   every hypothesis for the real stages - strict extrema detection, mirrored odd-reflect / edge padding,
   the SD / Rilling / fixed rules, the energy ratio, the threshold - given the INTERPOLANT ORACLE's contract
   (trusted: homogeneity of degree one in the magnitudes, symmetry under reflection of the knots; checked
   numerically against scipy splrep / pchip by the harness), and instantiates the theorem for c > 0, c < 0,
   c = -1 and time reversal.  Masked sifts: the masks of c X are |c| times the masks of X (contract
   std (c x) = |c| std x of the standard-deviation oracle), hence the scaling law for c > 0, and for c < 0
   whenever the mask set is closed under negation, which an EVEN number of phases guarantees
   (cos (theta + pi) = - cos theta).

   WHAT IS NOT A THEOREM.  (1) Bit-for-bit equality for c = +-2^k is an IEEE-754 fact about every elementary
   operation inside FITPACK / PCHIP; it is watched by the oracle (exact array_equal on the real code), not
   proved: theorems here are about exact arithmetic.  (2) For masked sifts, NEGATIVE constants and an ODD
   number of phases the law is FALSE of the documented algorithm: [mask_scale_neg_odd_refuted] exhibits an
   executable instance in which every hypothesis holds but the evenness of nphases, and the masked
   extraction of -X differs from minus that of X (confirmed on the real code, c = -1, nphases 1 and 3:
   O(1) differences).  This is a known finding, not a repair: making it hold would change the documented
   mask definition. *)
From Coq Require Import ZArith List Bool Lia Sorted Permutation.
From EmdV Require Import lib.NpLite model.Extrema model.SiftCore model.Toys model.Symmetry proofs.SymmetryFacts.
Import ListNotations.

(* ================================ abstract layer ================================================ *)
Section C02_extraction.
  Variable V : Type.
  Variable wf : V -> Prop.                          (* a signal of N samples *)
  Variable vsub : V -> V -> V.
  Variable vstep : V -> V.
  Variable vavg : V -> V -> V.
  Variable envs : V -> option (V * V).
  Variable stop_sd stop_ril : V -> V -> bool.
  Variable energy_fires : V -> V -> bool.
  Variable method : stop_method.
  Variable max_iters : nat.
  Variable use_energy : bool.
  Variable s : V -> V.                              (* the symmetry *)
  Variable s_env : V * V -> V * V.                  (* its action on (upper, lower): env_same s or env_swap s *)

  Hypothesis wf_sub : forall a b, wf a -> wf b -> wf (vsub a b).
  Hypothesis wf_step : forall a, wf a -> wf (vstep a).
  Hypothesis wf_avg : forall a b, wf a -> wf b -> wf (vavg a b).
  Hypothesis wf_envs : forall x u l, wf x -> envs x = Some (u, l) -> wf u /\ wf l.
  Hypothesis s_sub : forall a b, wf a -> wf b -> s (vsub a b) = vsub (s a) (s b).
  Hypothesis s_step : forall a, wf a -> s (vstep a) = vstep (s a).
  Hypothesis envs_equiv : forall x, wf x -> envs (s x) = option_map s_env (envs x).
  Hypothesis avg_equiv : forall u l, wf u -> wf l ->
    vavg (fst (s_env (u, l))) (snd (s_env (u, l))) = s (vavg u l).
  Hypothesis sd_inv : forall p x1, wf p -> wf x1 -> stop_sd (s p) (s x1) = stop_sd p x1.
  Hypothesis ril_inv : forall u l, wf u -> wf l ->
    stop_ril (fst (s_env (u, l))) (snd (s_env (u, l))) = stop_ril u l.
  Hypothesis energy_inv : forall X r, wf X -> wf r -> energy_fires (s X) (s r) = energy_fires X r.

  (* the extraction loop, from any state, with any fuel: same outcome kind, same iteration count, same flag,
     transformed IMF *)
  Theorem gni_commutes : forall v0 fuel n X, wf X ->
    gni_loop V vsub vstep vavg envs stop_sd stop_ril method max_iters v0 fuel n (s X) =
    map_result s (gni_loop V vsub vstep vavg envs stop_sd stop_ril method max_iters v0 fuel n X).
  Proof.
    exact (SymmetryFacts.gni_commutes V wf vsub vstep vavg envs stop_sd stop_ril method max_iters s s_env
             wf_sub wf_step wf_avg wf_envs s_sub s_step envs_equiv avg_equiv sd_inv ril_inv).
  Qed.

  (* get_next_imf including the energy option *)
  Theorem get_next_imf_commutes : forall v0 X, wf X ->
    get_next_imf_gen V vsub vstep vavg envs stop_sd stop_ril energy_fires method max_iters use_energy v0 (s X) =
    map_result s (get_next_imf_gen V vsub vstep vavg envs stop_sd stop_ril energy_fires method max_iters use_energy v0 X).
  Proof.
    exact (SymmetryFacts.get_next_imf_commutes V wf vsub vstep vavg envs stop_sd stop_ril energy_fires method max_iters
             use_energy s s_env wf_sub wf_step wf_avg wf_envs s_sub s_step envs_equiv avg_equiv sd_inv ril_inv energy_inv).
  Qed.

  (* the fixed-count rule never looks at the signal *)
  Theorem fixed_stop_const : forall n p x1 u l p' x1' u' l', method = Fixed ->
    stop_fires V stop_sd stop_ril method max_iters n p x1 u l =
    stop_fires V stop_sd stop_ril method max_iters n p' x1' u' l'.
  Proof. exact (SymmetryFacts.fixed_stop_const V stop_sd stop_ril method max_iters). Qed.
End C02_extraction.

Section C02_sift.
  Variable V : Type.
  Variable wf : V -> Prop.
  Variable vzero : V.
  Variable vadd vsub : V -> V -> V.
  Variable small small' : V -> bool.                (* |imf|.sum() < sift_thresh, for X and for s X *)
  Variable extract extract' : nat -> list V -> V -> gni_result V.
  Variable s : V -> V.

  Hypothesis wf_zero : wf vzero.
  Hypothesis wf_add : forall a b, wf a -> wf b -> wf (vadd a b).
  Hypothesis wf_sub : forall a b, wf a -> wf b -> wf (vsub a b).
  Hypothesis s_zero : s vzero = vzero.
  Hypothesis s_add : forall a b, wf a -> wf b -> s (vadd a b) = vadd (s a) (s b).
  Hypothesis s_sub : forall a b, wf a -> wf b -> s (vsub a b) = vsub (s a) (s b).
  Hypothesis small_inv : forall x, wf x -> small' (s x) = small x.
  Hypothesis extract_wf : forall k acc r p f n, Forall wf acc -> wf r -> extract k acc r = Imf p f n -> wf p.
  Hypothesis extract_equiv : forall k acc r, Forall wf acc -> wf r ->
    extract' k (map s acc) (s r) = map_result s (extract k acc r).

  (* by induction on the layers: same number of components, each the transform of the original one,
     same exit reason *)
  Theorem sift_commutes : forall fuel cap X acc, wf X -> Forall wf acc ->
    peel_loop V vzero vadd vsub small' extract' fuel cap (s X) (map s acc) =
    (map s (fst (peel_loop V vzero vadd vsub small extract fuel cap X acc)),
     snd (peel_loop V vzero vadd vsub small extract fuel cap X acc)).
  Proof.
    exact (SymmetryFacts.sift_commutes V wf vzero vadd vsub small small' extract extract' s wf_zero wf_add wf_sub
             s_zero s_add s_sub small_inv extract_wf extract_equiv).
  Qed.
End C02_sift.

(* ---- masked extraction and mask_sift ------------------------------------------------------------ *)
Section C02_mask.
  Variables V S : Type.
  Variable wf : V -> Prop.
  Variable vzero : V.
  Variable vadd vsub : V -> V -> V.
  Variable vmean : list V -> V.
  Variable gni : V -> gni_result V.
  Variable vscal : S -> V -> V.
  Variable cosv : nat -> nat -> nat -> V.
  Variable std : V -> S.
  Variable amp_mul : nat -> S -> S.
  Variable small small' : V -> bool.
  Variable mode : amp_mode.
  Variable nphases : nat.
  Variable s : V -> V.

  Hypothesis wf_zero : wf vzero.
  Hypothesis wf_add : forall a b, wf a -> wf b -> wf (vadd a b).
  Hypothesis wf_sub : forall a b, wf a -> wf b -> wf (vsub a b).
  Hypothesis wf_mean : forall l, Forall wf l -> wf (vmean l).
  Hypothesis wf_mask : forall a k j, wf (vscal a (cosv nphases k j)).
  Hypothesis s_zero : s vzero = vzero.
  Hypothesis s_add : forall a b, wf a -> wf b -> s (vadd a b) = vadd (s a) (s b).
  Hypothesis s_sub : forall a b, wf a -> wf b -> s (vsub a b) = vsub (s a) (s b).
  Hypothesis small_inv : forall x, wf x -> small' (s x) = small x.
  Hypothesis gni_wf : forall y p f n, wf y -> gni y = Imf p f n -> wf p.
  Hypothesis gni_equiv : forall y, wf y -> gni (s y) = map_result s (gni y).          (* get_next_imf_commutes *)
  Hypothesis vmean_perm : forall l l', Permutation l l' -> vmean l = vmean l'.
  Hypothesis vmean_equiv : forall l, Forall wf l -> s (vmean l) = vmean (map s l).

  (* one masked extraction: the masks used for s X need only be a REARRANGEMENT of the transformed masks *)
  Theorem gni_mask_commutes : forall masks masks' X, wf X -> Forall wf masks ->
    Permutation masks' (map s masks) ->
    gni_mask V vadd vsub vmean gni masks' (s X) = map_result s (gni_mask V vadd vsub vmean gni masks X).
  Proof.
    exact (SymmetryFacts.gni_mask_commutes V wf vadd vsub vmean gni s wf_add wf_sub s_add s_sub gni_wf gni_equiv
             vmean_perm vmean_equiv).
  Qed.

  Hypothesis masks_perm : forall X k acc,
    Permutation (masks_of V S vscal cosv std amp_mul mode nphases (s X) k (map s acc))
                (map s (masks_of V S vscal cosv std amp_mul mode nphases X k acc)).

  Theorem mask_sift_commutes : forall fuel cap X, wf X ->
    peel_loop V vzero vadd vsub small'
              (mask_extract V S vadd vsub vmean gni vscal cosv std amp_mul mode nphases (s X)) fuel cap (s X) [] =
    (map s (fst (peel_loop V vzero vadd vsub small
                   (mask_extract V S vadd vsub vmean gni vscal cosv std amp_mul mode nphases X) fuel cap X [])),
     snd (peel_loop V vzero vadd vsub small
            (mask_extract V S vadd vsub vmean gni vscal cosv std amp_mul mode nphases X) fuel cap X [])).
  Proof.
    exact (SymmetryFacts.mask_sift_commutes V S wf vzero vadd vsub vmean gni vscal cosv std amp_mul small small' mode nphases s
             wf_zero wf_add wf_sub wf_mean wf_mask s_zero s_add s_sub small_inv gni_wf gni_equiv vmean_perm vmean_equiv
             masks_perm).
  Qed.
End C02_mask.

(* the hypothesis masks_perm, from the oracle contracts of std and cos *)
Section C02_mask_family.
  Variables V S : Type.
  Variable vscal : S -> V -> V.
  Variable cosv : nat -> nat -> nat -> V.
  Variable std : V -> S.
  Variable amp_mul : nat -> S -> S.
  Variable s : V -> V.                (* x |-> c x *)
  Variable t : V -> V.                (* x |-> |c| x *)
  Variable sabs : S -> S.             (* a |-> |c| a *)
  Variable vneg : V -> V.

  Hypothesis std_scale : forall x, std (s x) = sabs (std x).                  (* ORACLE: std (c x) = |c| std x *)
  Hypothesis amp_scale : forall k a, amp_mul k (sabs a) = sabs (amp_mul k a).
  Hypothesis vscal_scale : forall a v, vscal (sabs a) v = t (vscal a v).

  (* c > 0 (|c| = c), ratio_sig and ratio_imf, any number of phases *)
  Theorem masks_scale_pos : forall mode nph X k acc, (forall v, t v = s v) ->
    Permutation (masks_of V S vscal cosv std amp_mul mode nph (s X) k (map s acc))
                (map s (masks_of V S vscal cosv std amp_mul mode nph X k acc)).
  Proof. exact (SymmetryFacts.masks_scale_pos V S vscal cosv std amp_mul s t sabs std_scale amp_scale vscal_scale). Qed.

  Hypothesis vneg_invol : forall v, vneg (vneg v) = v.
  Hypothesis vscal_neg : forall a v, vscal a (vneg v) = vneg (vscal a v).

  (* c < 0 (|c| m = c (-m)) and an EVEN number 2h of phases *)
  Theorem masks_scale_neg_even : forall mode h X k acc,
    (forall v, t v = s (vneg v)) ->
    (forall j, (j < h)%nat -> cosv (h + h) k (j + h) = vneg (cosv (h + h) k j)) ->      (* ORACLE: cos (theta + pi) = - cos theta *)
    Permutation (masks_of V S vscal cosv std amp_mul mode (h + h) (s X) k (map s acc))
                (map s (masks_of V S vscal cosv std amp_mul mode (h + h) X k acc)).
  Proof.
    exact (SymmetryFacts.masks_scale_neg_even V S vscal cosv std amp_mul s t sabs vneg std_scale amp_scale vscal_scale
             vneg_invol vscal_neg).
  Qed.
End C02_mask_family.

Theorem mask_set_neg_closed : forall (V : Type) (vneg : V -> V) (mask : nat -> V) h,
  (forall v, vneg (vneg v) = v) ->
  (forall j, (j < h)%nat -> mask (j + h)%nat = vneg (mask j)) ->
  Permutation (map vneg (map mask (seq 0 (h + h)))) (map mask (seq 0 (h + h))).
Proof. exact SymmetryFacts.mask_set_neg_closed. Qed.

(* for an ODD number of phases and c < 0 the law is false of the algorithm as documented: executable instance
   (integer signals, real extrema / padding models, toy interpolant meeting the contract, one phase) *)
Theorem mask_scale_neg_odd_refuted :
  exists X : list Z,
    (forall y, toy_gni_c (zneg y) = map_result zneg (toy_gni_c y)) /\
    maxabs (zneg X) = maxabs X /\
    toy_gni_mask 1 (zneg X) <> map_result zneg (toy_gni_mask 1 X) /\
    toy_gni_mask 2 (zneg X) = map_result zneg (toy_gni_mask 2 X).
Proof. exact SymmetryFacts.mask_scale_neg_odd_refuted. Qed.

(* ================================ concrete stages (integer lists) ================================ *)
Open Scope Z_scope.

(* extrema detection *)
Theorem maxima_scale_pos : forall c x, 0 < c -> find_maxima (zscale c x) = find_maxima x.
Proof. exact SymmetryFacts.maxima_scale_pos. Qed.

Theorem maxima_scale_neg : forall c x, c < 0 -> find_maxima (zscale c x) = find_maxima (zneg x).
Proof. exact SymmetryFacts.maxima_scale_neg. Qed.

Theorem maxima_neg_is_minima : forall x i, In i (find_maxima (zneg x)) <-> strict_min_at x i.
Proof. exact SymmetryFacts.maxima_neg_is_minima. Qed.

Theorem maxima_rev : forall x, find_maxima (rev x) = mirror_nat (length x) (find_maxima x).
Proof. exact SymmetryFacts.maxima_rev. Qed.

(* padding *)
Theorem pad_locs_rev : forall K fuel a p, (2 <= length a)%nat ->
  pad_reflect_odd fuel (mirror K a) p = mirror K (pad_reflect_odd fuel a p).
Proof. exact SymmetryFacts.pad_locs_rev. Qed.

Theorem pad_mags_scale : forall c M p, pad_edge (zscale c M) p = zscale c (pad_edge M p).
Proof. exact SymmetryFacts.pad_mags_scale. Qed.

Theorem pad_mags_rev : forall M p, pad_edge (rev M) p = rev (pad_edge M p).
Proof. exact SymmetryFacts.pad_mags_rev. Qed.

(* get_padded_extrema as a whole (peaks and troughs) *)
Theorem gpe_scale_pos : forall c x p m, 0 < c -> m <> AbsPeaks ->
  get_padded_extrema (zscale c x) p m = scale_pad c (get_padded_extrema x p m).
Proof. exact SymmetryFacts.gpe_scale_pos. Qed.

Theorem gpe_scale_neg : forall c x p m, c < 0 -> m <> AbsPeaks ->
  get_padded_extrema (zscale c x) p m = scale_pad c (get_padded_extrema x p (other m)).
Proof. exact SymmetryFacts.gpe_scale_neg. Qed.

Theorem gpe_rev : forall x p m,
  get_padded_extrema (rev x) p m = mirror_pad (Z.of_nat (length x) - 1) (get_padded_extrema x p m).
Proof. exact SymmetryFacts.gpe_rev. Qed.

(* the stopping rules (exact cross-multiplied integer forms of model/Toys.v) *)
Theorem sd_metric_scale : forall sn sd_ c proto x1, c <> 0 ->
  sd_stop sn sd_ (zscale c proto) (zscale c x1) = sd_stop sn sd_ proto x1.
Proof. exact SymmetryFacts.sd_metric_scale. Qed.

Theorem sd_rev : forall sn sd_ proto x1, length proto = length x1 ->
  sd_stop sn sd_ (rev proto) (rev x1) = sd_stop sn sd_ proto x1.
Proof. exact SymmetryFacts.sd_rev. Qed.

Theorem rilling_scale : forall s1n s1d s2n s2d tn td c u l, c <> 0 ->
  rilling_stop s1n s1d s2n s2d tn td (zscale c u) (zscale c l) = rilling_stop s1n s1d s2n s2d tn td u l.
Proof. exact SymmetryFacts.rilling_scale. Qed.

Theorem rilling_scale_swap : forall s1n s1d s2n s2d tn td c u l, c <> 0 ->
  rilling_stop s1n s1d s2n s2d tn td (zscale c l) (zscale c u) = rilling_stop s1n s1d s2n s2d tn td u l.
Proof. exact SymmetryFacts.rilling_scale_swap. Qed.

Theorem rilling_rev : forall s1n s1d s2n s2d tn td u l, length u = length l ->
  rilling_stop s1n s1d s2n s2d tn td (rev u) (rev l) = rilling_stop s1n s1d s2n s2d tn td u l.
Proof. exact SymmetryFacts.rilling_rev. Qed.

Theorem energy_scale : forall c X r, c <> 0 -> energy_fires (zscale c X) (zscale c r) = energy_fires X r.
Proof. exact SymmetryFacts.energy_scale. Qed.

Theorem small_scale : forall c t2 v, c <> 0 -> small (Z.abs c * t2) (zscale c v) = small t2 v.
Proof. exact SymmetryFacts.small_scale. Qed.

(* envelopes, single-IMF extraction and the classic sift, given the interpolant oracle's contract *)
Section C02_concrete.
  Variable hinterp : list Z -> list Z -> Z -> Z.
  Hypothesis interp_scale : forall c L M t, hinterp L (zscale c M) t = c * hinterp L M t.
  Hypothesis interp_rev : forall K L M t, hinterp (mirror K L) (rev M) (K - t) = hinterp L M t.

  Theorem envs_scale_pos : forall c p x, 0 < c ->
    envs_c hinterp p (zscale c x) = option_map (env_same (zscale c)) (envs_c hinterp p x).
  Proof. exact (SymmetryFacts.envs_scale_pos hinterp interp_scale). Qed.

  Theorem envs_scale_neg : forall c p x, c < 0 ->
    envs_c hinterp p (zscale c x) = option_map (env_swap (zscale c)) (envs_c hinterp p x).
  Proof. exact (SymmetryFacts.envs_scale_neg hinterp interp_scale). Qed.

  Theorem envs_rev : forall p x, (1 <= p)%nat ->
    envs_c hinterp p (rev x) = option_map (env_same (@rev Z)) (envs_c hinterp p x).
  Proof. exact (SymmetryFacts.envs_rev hinterp interp_rev). Qed.

  Variable pad : nat.
  Variable step : Z.
  Variable thr : list Z.
  Variable method : stop_method.
  Variable max_iters : nat.
  Variable use_energy : bool.

  (* every non-zero constant, every stopping rule, step, iteration limit, padding width *)
  Theorem gni_scale_Z : forall c v0 X, c <> 0 ->
    gni_c hinterp pad step thr method max_iters use_energy v0 (zscale c X) =
    map_result (zscale c) (gni_c hinterp pad step thr method max_iters use_energy v0 X).
  Proof. exact (SymmetryFacts.gni_scale_Z hinterp interp_scale pad step thr method max_iters use_energy). Qed.

  Theorem gni_flip_Z : forall v0 X,
    gni_c hinterp pad step thr method max_iters use_energy v0 (zneg X) =
    map_result zneg (gni_c hinterp pad step thr method max_iters use_energy v0 X).
  Proof. exact (SymmetryFacts.gni_flip_Z hinterp interp_scale pad step thr method max_iters use_energy). Qed.

  Theorem gni_rev_Z : forall v0 X, (1 <= pad)%nat ->
    gni_c hinterp pad step thr method max_iters use_energy v0 (rev X) =
    map_result (@rev Z) (gni_c hinterp pad step thr method max_iters use_energy v0 X).
  Proof. exact (SymmetryFacts.gni_rev_Z hinterp interp_rev pad step thr method max_iters use_energy). Qed.

  Theorem sift_scale_Z : forall c thresh2 fuel cap X, c <> 0 ->
    sift_c hinterp pad step thr method max_iters use_energy (Z.abs c * thresh2) fuel cap (zscale c X) =
    (map (zscale c) (fst (sift_c hinterp pad step thr method max_iters use_energy thresh2 fuel cap X)),
     snd (sift_c hinterp pad step thr method max_iters use_energy thresh2 fuel cap X)).
  Proof. exact (SymmetryFacts.sift_scale_Z hinterp interp_scale pad step thr method max_iters use_energy). Qed.

  Theorem sift_rev_Z : forall thresh2 fuel cap X, (1 <= pad)%nat ->
    sift_c hinterp pad step thr method max_iters use_energy thresh2 fuel cap (rev X) =
    (map (@rev Z) (fst (sift_c hinterp pad step thr method max_iters use_energy thresh2 fuel cap X)),
     snd (sift_c hinterp pad step thr method max_iters use_energy thresh2 fuel cap X)).
  Proof. exact (SymmetryFacts.sift_rev_Z hinterp interp_rev pad step thr method max_iters use_energy). Qed.
End C02_concrete.

(* the premises are met, non-trivially, by an executable instance (toy interpolant proved to meet the contract) *)
Example c02_premises_hold :
  let thr := [100; 1; 1; 16; 1; 2; 1; 16] in
  let r := sift_c toy_hinterp 2 1 thr SD 20 false 2 10 None c02_witness in
  length (fst r) = 2%nat /\ raised (snd r) = false /\
  sift_c toy_hinterp 2 1 thr SD 20 false 6 10 None (zscale (-3) c02_witness) = (map (zscale (-3)) (fst r), snd r) /\
  sift_c toy_hinterp 2 1 thr SD 20 false 2 10 None (rev c02_witness) = (map (@rev Z) (fst r), snd r) /\
  (forall c L M t, toy_hinterp L (zscale c M) t = c * toy_hinterp L M t) /\
  (forall K L M t, toy_hinterp (mirror K L) (rev M) (K - t) = toy_hinterp L M t).
Proof. exact SymmetryFacts.c02_premises_hold. Qed.

Print Assumptions gni_commutes.
Print Assumptions get_next_imf_commutes.
Print Assumptions fixed_stop_const.
Print Assumptions sift_commutes.
Print Assumptions gni_mask_commutes.
Print Assumptions mask_sift_commutes.
Print Assumptions masks_scale_pos.
Print Assumptions masks_scale_neg_even.
Print Assumptions mask_set_neg_closed.
Print Assumptions mask_scale_neg_odd_refuted.
Print Assumptions maxima_scale_pos.
Print Assumptions maxima_scale_neg.
Print Assumptions maxima_neg_is_minima.
Print Assumptions maxima_rev.
Print Assumptions pad_locs_rev.
Print Assumptions pad_mags_scale.
Print Assumptions pad_mags_rev.
Print Assumptions gpe_scale_pos.
Print Assumptions gpe_scale_neg.
Print Assumptions gpe_rev.
Print Assumptions sd_metric_scale.
Print Assumptions sd_rev.
Print Assumptions rilling_scale.
Print Assumptions rilling_scale_swap.
Print Assumptions rilling_rev.
Print Assumptions energy_scale.
Print Assumptions small_scale.
Print Assumptions envs_scale_pos.
Print Assumptions envs_scale_neg.
Print Assumptions envs_rev.
Print Assumptions gni_scale_Z.
Print Assumptions gni_flip_Z.
Print Assumptions gni_rev_Z.
Print Assumptions sift_scale_Z.
Print Assumptions sift_rev_Z.
Print Assumptions c02_premises_hold.
