(* TIE - the hand-written models of model/Spectra.v (hilberthuang, hilberthuang_1d, holospectrum; C10, C11)
   against the source emd/spectra.py. Statements only; every proof is [exact <lemma of proofs/SkelFacts_Spectra.v>].

   gen/Gen_Skel_Spectra.v is regenerated on every run from emd/spectra.py by harness/gen_skel_spectra.py
   (fail-closed structural translation into the mini language of lib/PyLoop.v). model/SkelPrims_Spectra.v gives
   every numpy / scipy.sparse expression the translator emitted its literal list semantics. The theorems say:
   under the interpreter of PyLoop.v the translated WHOLE BODIES of the three functions return exactly the
   arrays the models define - for every rectangular input, every mode / return_sparse / squash_time, every fuel.
   A change to the composition (which array is digitized with which edges, which mask filters which
   coordinate list, how the index is folded, which axis is trimmed or summed in which branch) changes
   Gen_Skel_Spectra.v and these proofs have to go through again. *)
From Coq Require Import String List Bool Arith ZArith.
From EmdV Require Import lib.PyLoop model.Spectra gen.Gen_Skel_Spectra model.SkelPrims_Spectra proofs.SkelFacts_Spectra.
Import ListNotations.
Close Scope Z_scope.
Open Scope string_scope.

(* hilberthuang: ValueError iff ensure_equal_dims fails, otherwise the model's dense array, or (return_sparse)
   the sparse matrix holding exactly the model's entries; never Stuck *)
Theorem skeleton_hilberthuang : forall (infr inam : list (list Z)) (edges : list Z) (m : smode) (rs : bool) (f : nat),
  rectangular infr (shape1 infr) -> rectangular inam (shape1 inam) -> edges <> [] ->
  exec hht_prims prog_hilberthuang f (hht_env0 infr inam edges m rs) = hht_render infr inam edges m rs.
Proof. exact SkelFacts_Spectra.skeleton_hilberthuang. Qed.

(* hilberthuang_1d: NaN-out + digitize + the two nested loops fill specs with exactly the model's [bins][imfs]
   array ('amplitude' / 'energy'); any other mode returns the zeros *)
Theorem skeleton_hilberthuang_1d : forall (infr inam : list (list Z)) (edges : list Z) (m : smode) (f : nat),
  rectangular infr (shape1 infr) -> edges <> [] ->
  exec hht1d_prims prog_hilberthuang_1d f (hht1d_env0 infr inam edges m) = hht1d_render infr inam edges m.
Proof. exact SkelFacts_Spectra.skeleton_hilberthuang_1d. Qed.

(* holospectrum: ValueError iff one of the two ensure_equal_dims calls fails; squash_time False -> the model's
   3-D array, 'sum' -> holospectrum_sum, 'mean' -> holospectrum_sum divided entrywise by the number of time
   points (oracle mean_of), anything else -> TypeError; for every mean_of *)
Theorem skeleton_holospectrum : forall (mean_of : Z -> nat -> Z) (infr : list (list Z))
    (infr2 inam2 : list (list (list Z))) (edges edges2 : list Z),
  rectangular infr (shape1 infr) ->
  cube infr2 (shape1 infr2) (shape2 infr2) -> cube inam2 (shape1 inam2) (shape2 infr2) ->
  forall (m : smode) (s : squash) (f : nat),
  exec (holo_prims mean_of) prog_holospectrum f (holo_env0 infr infr2 inam2 edges edges2 m s)
  = holo_render mean_of infr infr2 inam2 edges edges2 m s.
Proof. exact SkelFacts_Spectra.skeleton_holospectrum. Qed.

Print Assumptions skeleton_hilberthuang.
Print Assumptions skeleton_hilberthuang_1d.
Print Assumptions skeleton_holospectrum.
