(* C16 - sample, cycle, subset and chain index maps are mutually consistent.
   Statements only; every proof is [exact <lemma of proofs/CycleMapsFacts.v>]. *)
From Coq Require Import ZArith List Bool Lia.
From EmdV Require Import lib.NpLite model.CycleMaps proofs.CycleMapsFacts.
Import ListNotations.
Open Scope Z_scope.

(* ---- construction of the subset and chain vectors ---- *)

(* selected cycles are numbered 0,1,2.. in order, the others are -1 *)
Theorem subset_vector_spec : forall valids k,
  nth_error (get_subset_vector valids) k =
  option_map (fun b : bool => if b then Z.of_nat (count_true (firstn k valids)) else -1)
             (nth_error valids k).
Proof. exact CycleMapsFacts.subset_vector_spec. Qed.

(* chains are the maximal runs of consecutive selected cycles *)
Theorem chain_vector_spec : forall sv,
  let inds := selected_cycles sv in
  let chv := get_chain_vector sv in
  length chv = length inds /\
  (forall c, nth_error chv 0 = Some c -> c = 0) /\
  (forall j a b ca cb,
      nth_error inds j = Some a -> nth_error inds (S j) = Some b ->
      nth_error chv j = Some ca -> nth_error chv (S j) = Some cb ->
      (b = S a -> cb = ca) /\ (b <> S a -> cb = ca + 1)).
Proof. exact CycleMapsFacts.chain_vector_spec. Qed.

(* ---- backward maps are exactly the preimages ---- *)
Theorem cycle_to_samples_spec : forall cv k i,
  In i (map_cycle_to_samples cv k) <-> nth_error cv i = Some k.
Proof. exact CycleMapsFacts.cycle_to_samples_spec. Qed.

(* ---- forward maps: value, and 'none' exactly for unlabelled / unselected ---- *)
Theorem sample_to_subset_spec : forall cv valids i c,
  wf_labels cv (length valids) -> nth_error cv i = Some c ->
  map_sample_to_subset (get_subset_vector valids) cv i =
    if c <? 0 then FNone
    else if nth (Z.to_nat c) valids false
         then FVal (Z.of_nat (count_true (firstn (Z.to_nat c) valids)))
         else FNone.
Proof. exact CycleMapsFacts.sample_to_subset_spec. Qed.

Theorem sample_to_chain_none_iff : forall cv valids i,
  let sv := get_subset_vector valids in
  let chv := get_chain_vector sv in
  wf_labels cv (length valids) -> (i < length cv)%nat ->
  map_sample_to_chain chv sv cv i <> FErr /\
  (map_sample_to_chain chv sv cv i = FNone <-> map_sample_to_subset sv cv i = FNone).
Proof. exact CycleMapsFacts.sample_to_chain_none_iff. Qed.

(* ---- round trips: forward then backward contains the original sample ---- *)
Theorem sample_cycle_roundtrip : forall cv i k,
  map_sample_to_cycle cv i = FVal k -> In i (map_cycle_to_samples cv k).
Proof. exact CycleMapsFacts.sample_cycle_roundtrip. Qed.

Theorem sample_subset_roundtrip : forall cv valids i j,
  let sv := get_subset_vector valids in
  wf_labels cv (length valids) ->
  map_sample_to_subset sv cv i = FVal j ->
  exists l, map_subset_to_sample sv cv j = Some l /\ In i l.
Proof. exact CycleMapsFacts.sample_subset_roundtrip. Qed.

Theorem sample_chain_roundtrip : forall cv valids i c,
  let sv := get_subset_vector valids in
  let chv := get_chain_vector sv in
  wf_labels cv (length valids) ->
  map_sample_to_chain chv sv cv i = FVal c ->
  exists l, map_chain_to_samples chv sv cv c = Some l /\ In i l.
Proof. exact CycleMapsFacts.sample_chain_roundtrip. Qed.

(* ---- every map is defined on every existing index ---- *)
Theorem maps_defined : forall cv valids,
  let sv := get_subset_vector valids in
  let chv := get_chain_vector sv in
  wf_labels cv (length valids) ->
  (forall i, (i < length cv)%nat ->
     map_sample_to_cycle cv i <> FErr /\ map_sample_to_subset sv cv i <> FErr /\
     map_sample_to_chain chv sv cv i <> FErr) /\
  (forall k, (k < length valids)%nat ->
     map_cycle_to_subset sv (Z.of_nat k) <> FErr /\ map_cycle_to_chain chv sv (Z.of_nat k) <> FErr) /\
  (forall j, (j < length chv)%nat ->
     map_subset_to_chain chv (Z.of_nat j) <> FErr /\
     (exists k, map_subset_to_cycle sv (Z.of_nat j) = [k]) /\
     map_subset_to_sample sv cv (Z.of_nat j) <> None) /\
  (forall c, map_chain_to_samples chv sv cv c <> None).
Proof. exact CycleMapsFacts.maps_defined. Qed.

(* a chain's cycles are exactly the cycles whose forward map names that chain *)
Theorem chain_to_cycle_spec : forall valids c k,
  let sv := get_subset_vector valids in
  let chv := get_chain_vector sv in
  (k < length valids)%nat ->
  (In k (map_chain_to_cycle chv sv c) <-> map_cycle_to_chain chv sv (Z.of_nat k) = FVal c).
Proof. exact CycleMapsFacts.chain_to_cycle_spec. Qed.

(* ---- projections: each value lands exactly on the items that map to it ---- *)
Theorem project_by_spec : forall (A : Type) (vect : list Z) (vals : list A) k,
  nth_error (project_by vect vals) k =
  option_map (fun lbl => if 0 <=? lbl then nth_error vals (Z.to_nat lbl) else None)
             (nth_error vect k).
Proof. exact CycleMapsFacts.project_by_spec. Qed.

Theorem project_chain_to_cycles_spec : forall (A : Type) (vals : list A) chv sv k,
  nth_error (project_chain_to_cycles vals chv sv) k =
  option_map (fun s =>
      if 0 <=? s then
        match nth_error chv (Z.to_nat s) with
        | Some c => if 0 <=? c then nth_error vals (Z.to_nat c) else None
        | None => None
        end
      else None) (nth_error sv k).
Proof. exact CycleMapsFacts.project_chain_to_cycles_spec. Qed.

Theorem project_chain_to_samples_spec : forall (A : Type) (vals : list A) chv sv cv i,
  nth_error (project_chain_to_samples vals chv sv cv) i =
  option_map (fun k =>
      if 0 <=? k then
        match nth_error sv (Z.to_nat k) with
        | Some s =>
            if 0 <=? s then
              match nth_error chv (Z.to_nat s) with
              | Some c => if 0 <=? c then nth_error vals (Z.to_nat c) else None
              | None => None
              end
            else None
        | None => None
        end
      else None) (nth_error cv i).
Proof. exact CycleMapsFacts.project_chain_to_samples_spec. Qed.

(* ---- the code before the repair (finding C16-sample-to-subset-wrap) ---- *)
Theorem map_sample_to_subset_v0_refuted : exists sv cv i,
  nth_error cv i = Some (-1) /\ map_sample_to_subset_v0 sv cv i <> FNone.
Proof. exact CycleMapsFacts.map_sample_to_subset_v0_refuted. Qed.

(* non-vacuity: a structure with a gap, an unselected cycle and two chains *)
Example c16_premises_hold :
  wf_labels [0; 0; -1; 1; 2; 2; -1; 3] (length [true; false; true; true]) /\
  map_sample_to_chain (get_chain_vector (get_subset_vector [true; false; true; true]))
    (get_subset_vector [true; false; true; true]) [0; 0; -1; 1; 2; 2; -1; 3] 7 = FVal 1.
Proof. exact CycleMapsFacts.c16_premises_hold. Qed.

Print Assumptions subset_vector_spec.
Print Assumptions chain_vector_spec.
Print Assumptions cycle_to_samples_spec.
Print Assumptions sample_to_subset_spec.
Print Assumptions sample_to_chain_none_iff.
Print Assumptions sample_cycle_roundtrip.
Print Assumptions sample_subset_roundtrip.
Print Assumptions sample_chain_roundtrip.
Print Assumptions maps_defined.
Print Assumptions chain_to_cycle_spec.
Print Assumptions project_by_spec.
Print Assumptions project_chain_to_cycles_spec.
Print Assumptions project_chain_to_samples_spec.
Print Assumptions map_sample_to_subset_v0_refuted.
Print Assumptions c16_premises_hold.
