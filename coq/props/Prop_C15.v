(* C15 - the cycle container keeps metrics, subsets and chains coherent.
   Statements only; every proof is [exact <lemma of proofs/CyclesObjFacts.v>].
   Model: model/CyclesObj.v (Cycles as a state machine; [Inv], [metric_ok], [sel_ok], [chain_metric_ok],
   [aug_samples], [cond_holds] are defined there).  The model is of the repaired code
   (notes/fixes/C15-*.diff); the definitions it replaced are the _v0 ones of the ..._refuted theorems. *)
From Coq Require Import String Ascii ZArith QArith List Bool Lia.
From EmdV Require Import lib.NpLite model.CycleMaps model.CycleVec model.CycleStat model.CyclesObj proofs.CyclesObjFacts.
Import ListNotations.
Open Scope Z_scope.

(* ---- the six comparators mean what they say ---- *)
Theorem comparators_correct : forall (m : Z) (q : Q),
  (eval_cmp CEq (Some m) q = true <-> (inject_Z m == q)%Q) /\
  (eval_cmp CNe (Some m) q = true <-> ~ (inject_Z m == q)%Q) /\
  (eval_cmp CLe (Some m) q = true <-> (inject_Z m <= q)%Q) /\
  (eval_cmp CGe (Some m) q = true <-> (q <= inject_Z m)%Q) /\
  (eval_cmp CLt (Some m) q = true <-> (inject_Z m < q)%Q) /\
  (eval_cmp CGt (Some m) q = true <-> (q < inject_Z m)%Q).
Proof. exact CyclesObjFacts.comparators_correct. Qed.

(* a missing value (nan) satisfies != and nothing else *)
Theorem comparators_missing : forall c q, eval_cmp c None q = true <-> c = CNe.
Proof. exact CyclesObjFacts.comparators_missing. Qed.

(* "<name><comparator><literal>" is read as exactly that name, that comparator, that number *)
Theorem parse_cond_spec : forall name c lit q,
  no_opchar name -> starts_clean lit -> parse_float lit = Some q ->
  parse_cond (unchars (name ++ cmp_chars c ++ lit)) =
    Some {| c_name := unchars name; c_cmp := c; c_lit := q |}.
Proof. exact CyclesObjFacts.parse_cond_spec. Qed.

Theorem literal_value : forall m e : Z,
  (0 <= e -> (mkQ m e == inject_Z (m * 10 ^ e))%Q) /\
  (e < 0 -> (mkQ m e * inject_Z (10 ^ (- e)) == inject_Z m)%Q).
Proof. exact CyclesObjFacts.mkQ_value. Qed.

(* negative, decimal, exponent, signed-exponent, bare-point and capital-E literals; malformed strings *)
Example parse_cond_examples :
  cond_view (parse_cond "max_amp>0.75") = Some ("max_amp"%string, CGt, 3 # 4)%Q /\
  cond_view (parse_cond "a>=-1.5e-1") = Some ("a"%string, CGe, (-3) # 20)%Q /\
  cond_view (parse_cond "duration<=2.5e1") = Some ("duration"%string, CLe, 25 # 1)%Q /\
  cond_view (parse_cond "x!=-3") = Some ("x"%string, CNe, (-3) # 1)%Q /\
  cond_view (parse_cond "x==+1E+1") = Some ("x"%string, CEq, 10 # 1)%Q /\
  cond_view (parse_cond "b<.5") = Some ("b"%string, CLt, 1 # 2)%Q /\
  cond_view (parse_cond "b<-0.25e1") = Some ("b"%string, CLt, (-5) # 2)%Q /\
  cond_view (parse_cond "b>3.") = Some ("b"%string, CGt, 3 # 1)%Q /\
  parse_cond "b=3" = None /\ parse_cond "b>" = None /\ parse_cond "b>1e" = None /\ parse_cond "b>1.2.3" = None.
Proof. exact CyclesObjFacts.parse_cond_examples. Qed.

(* a cycle is in the computed selection iff it satisfies EVERY condition string *)
Theorem get_matching_spec : forall st cs valids k, get_matching st cs = Ok valids ->
  (k < length valids)%nat ->
  (nth k valids false = true <-> forall s, In s cs -> cond_holds (s_metrics st) k s).
Proof. exact CyclesObjFacts.get_matching_spec. Qed.

(* ---- the invariant holds after construction and after every operation history ---- *)
Theorem init_total : forall P trough c ph, init P trough c ph <> None.
Proof. exact CyclesObjFacts.init_total. Qed.

Theorem inv_init : forall P trough c ph st, init P trough c ph = Some st -> Inv st.
Proof. exact CyclesObjFacts.inv_init. Qed.

Theorem inv_step : forall st o, Inv st -> wf_op (nsamples st) o -> Inv (fst (step st o)).
Proof. exact CyclesObjFacts.inv_step. Qed.

Theorem inv_reachable : forall P trough c ph st ops,
  init P trough c ph = Some st -> Forall (wf_op (length ph)) ops -> Inv (run st ops).
Proof. exact CyclesObjFacts.inv_reachable. Qed.

(* ---- what the invariant says ---- *)
(* every stored metric has exactly one entry per cycle *)
Theorem metric_lengths : forall st m, Inv st -> In m (s_metrics st) -> length (m_vals m) = ncyc st.
Proof. exact CyclesObjFacts.metric_lengths. Qed.

(* a computed metric equals the function applied to that cycle's samples (cycle mode: the samples carrying
   the label; augmented mode: [aug_samples], missing when the cycle cannot be augmented) - whatever the
   cache setting and whatever happened since *)
Theorem computed_metric_spec : forall st m f mode vals, Inv st -> In m (s_metrics st) ->
  m_prov m = PComputed f mode vals ->
  forall k, (k < ncyc st)%nat ->
    nth_error (m_vals m) k =
      Some (match mode with
            | MCycle => Some (f (samples_with_label (s_cv st) vals (Z.of_nat k)))
            | MAug => option_map f (aug_samples (s_P st) (s_trough st) (s_ph st) vals k)
            end).
Proof. exact CyclesObjFacts.computed_metric_spec. Qed.

(* the stored selection is numbered in order, its chains are the maximal runs of consecutive selected
   cycles, and - as long as no metric named by the conditions has been rewritten since - it is exactly the
   set of cycles satisfying all stored condition strings *)
Theorem selection_spec : forall st cs sv chv,
  Inv st -> s_conds st = Some cs -> s_subset st = Some sv -> s_chain st = Some chv ->
  length sv = ncyc st /\
  (forall k, nth_error sv k =
     option_map (fun b : bool => if b then Z.of_nat (count_true (firstn k (s_valids st))) else -1)
                (nth_error (s_valids st) k)) /\
  (length chv = length (selected_cycles sv) /\
   (forall c, nth_error chv 0 = Some c -> c = 0) /\
   (forall j a b ca cb,
      nth_error (selected_cycles sv) j = Some a -> nth_error (selected_cycles sv) (S j) = Some b ->
      nth_error chv j = Some ca -> nth_error chv (S j) = Some cb ->
      (b = S a -> cb = ca) /\ (b <> S a -> cb = ca + 1))) /\
  (fresh_conds st cs ->
   get_matching st cs = Ok (s_valids st) /\
   forall k, (k < ncyc st)%nat ->
     (nth k (s_valids st) false = true <-> forall s, In s cs -> cond_holds (s_metrics st) k s)).
Proof. exact CyclesObjFacts.selection_spec. Qed.

(* a successful selection stores what it computed from the metrics of that moment; a failing one
   (unknown metric, no matching cycle) leaves the container exactly as it was *)
Theorem pick_spec : forall st cs st', pick st cs = (st', OOk) ->
  exists valids, get_matching st cs = Ok valids /\
    s_conds st' = Some cs /\ s_valids st' = valids /\
    s_subset st' = Some (get_subset_vector valids) /\
    s_chain st' = Some (get_chain_vector (get_subset_vector valids)).
Proof. exact CyclesObjFacts.pick_spec. Qed.

Theorem pick_fail_unchanged : forall st cs, snd (pick st cs) <> OOk -> fst (pick st cs) = st.
Proof. exact CyclesObjFacts.pick_fail_unchanged. Qed.

(* chain metrics (chain_ind, chain_start, chain_end, chain_len_samples, chain_len_cycles, chain_position)
   written since the last selection describe the current chains *)
Theorem chain_metric_spec : forall st m sv chv, Inv st -> In m (s_metrics st) ->
  s_subset st = Some sv -> s_chain st = Some chv ->
  (s_pick_clock st < m_stamp m)%nat ->
  chain_metric_ok st sv chv (m_prov m) (m_vals m).
Proof. exact CyclesObjFacts.chain_metric_spec. Qed.

Theorem chain_timings_total : forall st, Inv st -> snd (chain_timings st) <> ORaised 9.
Proof. exact CyclesObjFacts.chain_timings_total. Qed.

(* ---- exports ---- *)
Theorem export_all_spec : forall st,
  export st ExAll = OTable false (map m_name (s_metrics st)) (map (row (s_metrics st)) (seq 0 (ncyc st))).
Proof. exact CyclesObjFacts.export_all_spec. Qed.

Theorem export_conds_spec : forall st cs valids, get_matching st cs = Ok valids ->
  export st (ExConds cs) =
    OTable true (map m_name (s_metrics st))
           (map (row (s_metrics st)) (filter (fun k => nth k valids false) (seq 0 (ncyc st)))).
Proof. exact CyclesObjFacts.export_conds_spec. Qed.

(* the subset export lists exactly the cycles the subset vector selects *)
Theorem export_subset_agrees : forall st cs sv, Inv st ->
  s_conds st = Some cs -> s_subset st = Some sv -> fresh_conds st cs ->
  export st ExSubset =
    OTable true (map m_name (s_metrics st))
           (map (row (s_metrics st)) (filter (fun k => 0 <=? nth k sv (-1)) (seq 0 (ncyc st)))).
Proof. exact CyclesObjFacts.export_subset_agrees. Qed.

(* ---- the slice cache ---- *)
(* the cache holds exactly the wrap-delimited segments, and both ways of computing a statistic agree *)
Theorem container_slices : forall P ph cv, container P ph cv -> make_slice_cache cv = segs_of P ph.
Proof. exact CyclesObjFacts.container_slices. Qed.

Theorem slice_stat_label_stat : forall P ph cv f vals, container P ph cv -> length vals = length ph ->
  slice_stat f (segs_of P ph) vals = label_stat f cv vals.
Proof. exact CyclesObjFacts.slice_stat_label_stat. Qed.

Theorem aug_stat_equal : forall P ph cv trough f vals, container P ph cv -> length vals = length ph ->
  aug_slice_stat f (make_aug_slice_cache trough ph (segs_of P ph)) vals = aug_label_stat f trough cv ph vals.
Proof. exact CyclesObjFacts.aug_stat_equal. Qed.

(* turning the cache on or off changes no stored value and no result of any operation, over every history *)
Theorem cache_irrelevant : forall P trough ph ops s_on s_off,
  init P trough true ph = Some s_on -> init P trough false ph = Some s_off ->
  Forall (wf_op (length ph)) ops ->
  observe (run s_on ops) = observe (run s_off ops) /\ outs s_on ops = outs s_off ops.
Proof. exact CyclesObjFacts.cache_irrelevant. Qed.

(* ---- the code before the repairs (findings C15-aug-first-cycle, C15-aug-definitions,
        C15-slice-cache-no-cycles, C15-pick-half-updated) ---- *)
Theorem cache_irrelevant_v0_refuted : exists trough cv ph vals,
  length vals = length cv /\
  compute_vals_v0 true trough cv ph zsum MAug vals <> compute_vals_v0 false trough cv ph zsum MAug vals /\
  nth_error (compute_vals_v0 true trough cv ph zsum MAug vals) 0 = Some None /\
  nth_error (compute_vals_v0 false trough cv ph zsum MAug vals) 0 = Some (Some (zsum vals)).
Proof. exact CyclesObjFacts.cache_irrelevant_v0_refuted. Qed.

Theorem aug_definitions_v0_refuted : exists trough cv ph vals,
  length vals = length cv /\
  nth_error (compute_vals_v0 true trough cv ph zsum MAug vals) 1 <>
  nth_error (compute_vals_v0 false trough cv ph zsum MAug vals) 1.
Proof. exact CyclesObjFacts.aug_definitions_v0_refuted. Qed.

Theorem slice_cache_v0_no_cycles_refuted : exists cv,
  ncycles cv = 0%nat /\ length (make_slice_cache_v0 cv) = 1%nat /\ make_slice_cache cv = [].
Proof. exact CyclesObjFacts.slice_cache_v0_no_cycles_refuted. Qed.

Theorem pick_v0_refuted : exists P trough ph st,
  init P trough true ph = Some st /\
  ~ sel_ok (fst (pick_v0 st ["nosuch>1"%string])) /\
  fst (pick st ["nosuch>1"%string]) = st.
Proof. exact CyclesObjFacts.pick_v0_refuted. Qed.

Theorem pick_v0_stale_chain_ind : exists P trough ph st ops,
  init P trough true ph = Some st /\
  let st1 := run st ops in
  let st2 := fst (pick_v0 st1 ["duration>100"%string]) in
  snd (pick_v0 st1 ["duration>100"%string]) = ORaised 2 /\
  s_subset st2 = Some [-1; -1; -1; -1] /\ s_chain st2 = Some [] /\
  option_map m_vals (find_metric "chain_ind" (s_metrics st2)) = Some [Some (-1); Some 0; Some 0; Some (-1)] /\
  fst (pick st1 ["duration>100"%string]) = st1.
Proof. exact CyclesObjFacts.pick_v0_stale_chain_ind. Qed.

(* ---- non-vacuity: a four-cycle container, a five-operation history, every hypothesis met ---- *)
Example c15_premises_hold : exists st,
  let ph := [24; 36; 50; 2; 12; 24; 36; 50; 2; 12; 24; 36; 50; 2; 12; 24] in
  let ops := [Timings; ComputeMetric "m" zsum MAug (arange 16);
              Pick ["duration>=45e-1"%string; "is_good!=0"%string]; ChainTimings; Export ExSubset] in
  init (mk_params [37; 2; 49; 50]) 37 true ph = Some st /\
  Forall (wf_op (length ph)) ops /\
  s_cv st = [0; 0; 0; 1; 1; 1; 1; 1; 2; 2; 2; 2; 2; 3; 3; 3] /\
  s_subset (run st ops) = Some [-1; 0; 1; -1] /\ s_chain (run st ops) = Some [0; 0] /\
  fresh_conds (run st ops) ["duration>=45e-1"%string; "is_good!=0"%string] /\
  option_map m_vals (find_metric "m" (s_metrics (run st ops))) = Some [None; Some 27; Some 57; Some 54] /\
  option_map m_vals (find_metric "chain_len_samples" (s_metrics (run st ops)))
    = Some [Some (-1); Some 10; Some 10; Some (-1)] /\
  nth 4 (outs st ops) OOk =
    OTable true (map m_name (s_metrics (run st ops)))
           (map (row (s_metrics (run st ops))) [1; 2]%nat).
Proof. exact CyclesObjFacts.c15_premises_hold. Qed.

Print Assumptions comparators_correct.
Print Assumptions comparators_missing.
Print Assumptions parse_cond_spec.
Print Assumptions literal_value.
Print Assumptions parse_cond_examples.
Print Assumptions get_matching_spec.
Print Assumptions init_total.
Print Assumptions inv_init.
Print Assumptions inv_step.
Print Assumptions inv_reachable.
Print Assumptions metric_lengths.
Print Assumptions computed_metric_spec.
Print Assumptions selection_spec.
Print Assumptions pick_spec.
Print Assumptions pick_fail_unchanged.
Print Assumptions chain_metric_spec.
Print Assumptions chain_timings_total.
Print Assumptions export_all_spec.
Print Assumptions export_conds_spec.
Print Assumptions export_subset_agrees.
Print Assumptions container_slices.
Print Assumptions slice_stat_label_stat.
Print Assumptions aug_stat_equal.
Print Assumptions cache_irrelevant.
Print Assumptions cache_irrelevant_v0_refuted.
Print Assumptions aug_definitions_v0_refuted.
Print Assumptions slice_cache_v0_no_cycles_refuted.
Print Assumptions pick_v0_refuted.
Print Assumptions pick_v0_stale_chain_ind.
Print Assumptions c15_premises_hold.
