(* C04 - single-IMF extraction obeys its stopping rule and always terminates.
   Statements only; every proof is [exact <lemma of proofs/SiftCoreFacts.v>].

   The theorems are about model/SiftCore.v [gni_loop] / [get_next_imf_gen] (emd/sift.py get_next_imf,
   lines 115-180) for EVERY signal type V, every envelope oracle [envs] (interp_envelope upper/lower;
   None when either is None), every stopping oracle and every iteration limit.  [iterate k X] is the
   sequence the property talks about: x_0 = X, x_{k+1} = x_k - step * mean(upper(x_k), lower(x_k)).
   The concrete sd / rilling formulas are model/Toys.v [sd_stop], [rilling_stop]; their
   characterisations are at the end. *)
From Coq Require Import ZArith QArith List Bool Lia.
From EmdV Require Import lib.NpLite model.Extrema model.SiftCore model.Toys proofs.SiftCoreFacts.
Import ListNotations.

Section C04.
  Variable V : Type.
  Variable vsub : V -> V -> V.
  Variable vstep : V -> V.
  Variable vavg : V -> V -> V.
  Variable envs : V -> option (V * V).
  Variable stop_sd stop_ril : V -> V -> bool.
  Variable energy_fires : V -> V -> bool.
  Variable method : stop_method.
  Variable max_iters : nat.
  Variable use_energy : bool.

  Let loop := gni_loop V vsub vstep vavg envs stop_sd stop_ril method max_iters false (max_iters + 2) 0.
  Let iter := iterate V vsub vstep vavg envs.
  Let fires := fires_at V vsub vavg envs stop_sd stop_ril method max_iters.
  Let unfired := unfired_upto V vsub vstep vavg envs stop_sd stop_ril method max_iters.
  Let gni := get_next_imf V vsub vstep vavg envs stop_sd stop_ril energy_fires method max_iters use_energy.

  (* the documented range: a fixed count of at least one iteration *)
  Definition in_range : Prop := method = Fixed -> (1 <= max_iters)%nat.

  (* The result is exactly one of three things:
     (a) the first iterate x_k at which the rule fires, with its FULL envelope mean removed;
     (b) the first iterate x_k left without envelopes (flagged final iff k = 0, i.e. the unmodified input);
     (c) the convergence error, after max_iters + 1 iterates none of which met the rule (sd / rilling only). *)
  Theorem gni_result_cases : forall X, in_range ->
    (exists k x u l, iter k X = Some x /\ envs x = Some (u, l) /\ unfired k X /\ fires k x = true /\
                     (method <> Fixed -> (k <= max_iters)%nat) /\
                     loop X = Imf (vsub x (vavg u l)) true (S k))
    \/ (exists k x, iter k X = Some x /\ envs x = None /\ unfired k X /\
                    (method <> Fixed -> (k <= max_iters)%nat) /\
                    loop X = Imf x (0 <? k)%nat (S k))
    \/ (method <> Fixed /\ unfired (S max_iters) X /\ loop X = ConvergeError (S max_iters)).
  Proof. exact (SiftCoreFacts.gni_result_cases V vsub vstep vavg envs stop_sd stop_ril method max_iters). Qed.

  (* extraction always terminates within the iteration limit: the fuel max_iters + 2 is never exhausted *)
  Theorem gni_never_out_of_fuel : forall X, in_range -> loop X <> GniOutOfFuel.
  Proof. exact (SiftCoreFacts.gni_never_out_of_fuel V vsub vstep vavg envs stop_sd stop_ril method max_iters). Qed.

  (* ... and never evaluates more than max_iters + 1 iterates *)
  Theorem gni_iteration_bound : forall X p f n, in_range ->
    loop X = Imf p f n -> (n <= max_iters + 1)%nat /\ (method = Fixed -> (n <= max_iters)%nat).
  Proof. exact (SiftCoreFacts.gni_iteration_bound V vsub vstep vavg envs stop_sd stop_ril method max_iters). Qed.

  (* SD and Rilling: the FIRST iterate meeting the criterion is returned, mean fully removed *)
  Theorem gni_first_stop : forall X k x u l, method <> Fixed -> (k <= max_iters)%nat ->
    iter k X = Some x -> envs x = Some (u, l) -> unfired k X -> fires k x = true ->
    loop X = Imf (vsub x (vavg u l)) true (S k).
  Proof. exact (SiftCoreFacts.gni_first_stop V vsub vstep vavg envs stop_sd stop_ril method max_iters). Qed.

  (* fixed count n: the n-th evaluation's iterate is returned, whatever the metrics say *)
  Theorem gni_fixed_count : forall X x u l, method = Fixed -> (1 <= max_iters)%nat ->
    iter (max_iters - 1) X = Some x -> envs x = Some (u, l) ->
    loop X = Imf (vsub x (vavg u l)) true max_iters.
  Proof. exact (SiftCoreFacts.gni_fixed_count V vsub vstep vavg envs stop_sd stop_ril method max_iters). Qed.

  (* failing that: the first iterate left with too few extrema *)
  Theorem gni_first_without_envelopes : forall X k x, (method <> Fixed -> (k <= max_iters)%nat) ->
    (method = Fixed -> (k < max_iters)%nat) ->
    iter k X = Some x -> envs x = None -> unfired k X ->
    loop X = Imf x (0 <? k)%nat (S k).
  Proof. exact (SiftCoreFacts.gni_first_without_envelopes V vsub vstep vavg envs stop_sd stop_ril method max_iters). Qed.

  (* the input is returned unmodified and flagged as the final residual exactly when the input itself
     has too few extrema *)
  Theorem gni_final_iff_input_has_no_envelopes : forall X p n, in_range ->
    (loop X = Imf p false n <-> envs X = None /\ p = X /\ n = 1%nat).
  Proof. exact (SiftCoreFacts.gni_final_iff_input_has_no_envelopes V vsub vstep vavg envs stop_sd stop_ril method max_iters). Qed.

  (* the convergence error is raised exactly when max_iters + 1 iterates passed without the rule firing *)
  Theorem gni_converge_error_iff : forall X n, in_range ->
    (loop X = ConvergeError n <-> method <> Fixed /\ n = S max_iters /\ unfired (S max_iters) X).
  Proof. exact (SiftCoreFacts.gni_converge_error_iff V vsub vstep vavg envs stop_sd stop_ril method max_iters). Qed.

  (* it never silently returns an unconverged iterate: whatever comes back flagged "stop rule met"
     either met the rule at that very iterate or had no envelopes left *)
  Theorem gni_no_unconverged_return : forall X p f n, in_range -> loop X = Imf p f n ->
    exists x, iter (n - 1) X = Some x /\ (1 <= n)%nat /\
      ((exists u l, envs x = Some (u, l) /\ fires (n - 1) x = true /\ p = vsub x (vavg u l)) \/
       (envs x = None /\ p = x)).
  Proof. exact (SiftCoreFacts.gni_no_unconverged_return V vsub vstep vavg envs stop_sd stop_ril method max_iters). Qed.

  (* the energy option changes neither the IMF nor the iteration count; it can only clear the flag *)
  Theorem energy_only_clears_flag : forall X p f n,
    gni X = Imf p f n ->
    exists f0, loop X = Imf p f0 n /\ (f = true -> f0 = true) /\ (use_energy = false -> f = f0) /\
               (f0 = true -> f = false -> energy_fires X (vsub X p) = true).
  Proof. exact (SiftCoreFacts.energy_only_clears_flag V vsub vstep vavg envs stop_sd stop_ril energy_fires method max_iters use_energy). Qed.
End C04.

(* ---- the concrete stopping rules (model/Toys.v, exact integer arithmetic) ---------------------- *)
Open Scope Z_scope.

(* sd: sum((proto - x1)^2) / sum(proto^2) < sn/sd_ ; a zero denominator (0/0 = nan, x/0 = inf) never stops *)
Theorem sd_stop_spec : forall sn sd_ proto x1, 0 < sd_ ->
  (sd_stop sn sd_ proto x1 = true <->
   0 < sumsq proto /\ ((sumsq (vsub proto x1) # 1) / (sumsq proto # 1) < sn # Z.to_pos sd_)%Q).
Proof. exact SiftCoreFacts.sd_stop_spec. Qed.

(* rilling: E = |u+l| / |u-l| per sample (|avg|/amp); stop iff the fraction of samples with E > sd1 is
   at most tol AND no sample has E > sd2 *)
Theorem ril_exceeds_spec : forall tn td u l, 0 < td -> u <> l ->
  (ril_exceeds tn td u l = true <-> (tn # Z.to_pos td < (Z.abs (u + l) # 1) / (Z.abs (u - l) # 1))%Q).
Proof. exact SiftCoreFacts.ril_exceeds_spec. Qed.

Theorem rilling_stop_spec : forall s1n s1d s2n s2d tn td u l,
  (rilling_stop s1n s1d s2n s2d tn td u l = true <->
   Z.of_nat (count_true (map (fun ul => ril_exceeds s1n s1d (fst ul) (snd ul)) (combine u l))) * td
     <= tn * Z.of_nat (length (combine u l)) /\
   forall a b, In (a, b) (combine u l) -> ril_exceeds s2n s2d a b = false).
Proof. exact SiftCoreFacts.rilling_stop_spec. Qed.

(* ---- the premises are met by concrete runs (toy instance, all three outcomes) ------------------ *)
Example c04_outcomes_occur :
  (* the sd rule (1/1024) fires at the 6th evaluation *)
  run_toy_gni [0; 0; 20; 1; 1; 0; 1; 1024; 1; 16; 1; 2; 1; 16; 1; 0; 0]
              [0; 40; -36; 44; -28; 36; -40; 32; -20; 12; 0; 24; -16; 8]
    = [0; 1; 6; -8; 24; -28; 36; -32; 36; -32; 32; -20; 16; -12; 16; -12; 8]
  /\ (* the input has too few extrema: returned unmodified, flag cleared *)
  run_toy_gni [0; 0; 20; 1; 1; 0; 1; 8; 1; 16; 1; 2; 1; 16; 1; 0; 0] [0; 4; 8; 12; 16]
    = [0; 0; 1; 0; 4; 8; 12; 16]
  /\ (* convergence error after max_iters + 1 = 3 evaluations *)
  run_toy_gni [0; 0; 2; 1; 4; 0; 1; 1024; 1; 16; 1; 2; 1; 16; 1; 0; 0]
              [0; 40; -36; 44; -28; 36; -40; 32; -20; 12; 0; 24; -16; 8]
    = [5; 3].
Proof. exact SiftCoreFacts.c04_outcomes_occur. Qed.

Print Assumptions gni_result_cases.
Print Assumptions gni_never_out_of_fuel.
Print Assumptions gni_iteration_bound.
Print Assumptions gni_first_stop.
Print Assumptions gni_fixed_count.
Print Assumptions gni_first_without_envelopes.
Print Assumptions gni_final_iff_input_has_no_envelopes.
Print Assumptions gni_converge_error_iff.
Print Assumptions gni_no_unconverged_return.
Print Assumptions energy_only_clears_flag.
Print Assumptions sd_stop_spec.
Print Assumptions ril_exceeds_spec.
Print Assumptions rilling_stop_spec.
Print Assumptions c04_outcomes_occur.
