(* TIE - model/CyclesObj.v (property C15), second part, against the source of emd/cycles.py class Cycles
   (notes/TIE_CYCLESOBJ2.md): compute_cycle_metric <-> step ComputeMetric, compute_cycle_timings <-> step Timings,
   get_metric_dataframe <-> step Export, compute_chain_metric <-> one round of chain_t_loop, __init__ <-> init.
   Statements only; every proof is [exact <lemma of proofs/SkelFacts_Cyclesobj2.v>].

   gen/Gen_Skel_Cyclesobj2.v is regenerated on every run from emd/cycles.py by harness/gen_skel_cyclesobj2.py
   (fail-closed structural translation into the mini language of lib/PyLoop.v, N16 on).  model/SkelPrims_Cyclesobj2.v
   maps every primitive name to an operation of the model and defines how a model result shows at the Python level.
   `self` is the variable "self" holding [OSelf st] (st : CyclesObj.cstate), as in the first part
   (Prop_Tie_Cyclesobj.v): attribute reads and stores are primitives, method calls written as expression statements
   that mutate the object are rewritten by [thread_self writers2] into `self = call(self, ..)` ([erases2]: nothing
   else is added), the state a method leaves behind is the value of "self" in [final_env].
   [trough] is the integer code of the constant 1.5*pi inside _cycles_support, [P0] the thresholds that the
   arguments phase_step / phase_edge of __init__ denote. *)
From Coq Require Import String Ascii List Bool Arith ZArith QArith.
From EmdV Require Import lib.NpLite model.CycleMaps model.CycleVec model.CycleStat model.CyclesObj.
From EmdV Require Import lib.PyLoop lib.PyLoopTools model.SkelPrims_Cyclesobj gen.Gen_Skel_Cyclesobj2
  model.SkelPrims_Cyclesobj2 proofs.SkelFacts_Cyclesobj2.
Import ListNotations.
Open Scope string_scope.

(* the transformation added the plumbing and nothing else *)
Theorem erases2 :
  erase_self writers2 tprog_compute_cycle_metric = prog_Cycles_compute_cycle_metric /\
  erase_self writers2 tprog_compute_cycle_timings = prog_Cycles_compute_cycle_timings /\
  erase_self writers2 tprog_compute_chain_metric = prog_Cycles_compute_chain_metric /\
  erase_self writers2 tprog_init = prog_Cycles_init.
Proof. exact (conj erase_ccm (conj erase_timings (conj erase_chain erase_init))). Qed.

(* compute_cycle_metric(name, vals, func, dtype, mode), mode 'cycle' / 'augmented', dtype None / int: None is
   returned, and the object left behind is - field by field - the model's [fst (step st (ComputeMetric ..))]: the
   statistic is computed the way the model's [compute_vals] dispatches on mode and on the presence of the cache,
   then handed to add_cycle_metric. dtype=int on a result with a nan is not modelled (hypothesis). *)
Theorem skeleton_compute_cycle_metric : forall (trough : Z) (P0 : cv_params) (st : cstate) (name : string)
    (f : list Z -> Z) (m : cmode) (vals : list Z) (toint : bool) fuel,
  s_trough st = trough ->
  (toint = true -> forallb is_some (compute_vals st f m vals) = true) ->
  let e0 := env0_compute_cycle_metric st name vals f toint (PyMode m) in
  let st' := fst (add_metric st name PAdded (compute_vals st f m vals)) in
  as_call2 (exec (obj_prims trough P0) tprog_compute_cycle_metric fuel e0) = Return VNone /\
  lookup "self" (final_env (obj_prims trough P0) tprog_compute_cycle_metric fuel e0) = Some (oself st') /\
  pyview st' = pyview (fst (step st (ComputeMetric name f m vals))) /\
  snd (step st (ComputeMetric name f m vals)) = OOk.
Proof. exact SkelFacts_Cyclesobj2.skeleton_compute_cycle_metric. Qed.

(* mode 'cycle' never produces a nan: the hypothesis on dtype=int holds there *)
Theorem compute_vals_cycle_total : forall (st : cstate) (f : list Z -> Z) (vals : list Z),
  forallb is_some (compute_vals st f MCycle vals) = true.
Proof. exact SkelFacts_Cyclesobj2.compute_vals_cycle_total. Qed.

(* any other mode string: ValueError, the object is unchanged *)
Theorem skeleton_compute_cycle_metric_badmode : forall (trough : Z) (P0 : cv_params) (st : cstate) (name : string)
    (f : list Z -> Z) (vals : list Z) (toint : bool) fuel,
  let e0 := env0_compute_cycle_metric st name vals f toint PyOther in
  exec (obj_prims trough P0) tprog_compute_cycle_metric fuel e0 = Raise "ValueError" /\
  lookup "self" (final_env (obj_prims trough P0) tprog_compute_cycle_metric fuel e0) = Some (oself st).
Proof. exact SkelFacts_Cyclesobj2.skeleton_compute_cycle_metric_badmode. Qed.

(* pyview is a congruence for the model's compute_metric: the ghost fields that a callee row writes do not matter
   to what the next call computes *)
Theorem compute_metric_view : forall (st1 st2 : cstate) n f m v, pyview st1 = pyview st2 ->
  pyview (compute_metric st1 n f m v) = pyview (compute_metric st2 n f m v).
Proof. exact SkelFacts_Cyclesobj2.compute_metric_view. Qed.

(* compute_cycle_timings: the three metrics, in the model's order, from the model's sources *)
Theorem skeleton_compute_cycle_timings : forall (trough : Z) (P0 : cv_params) (st : cstate) fuel,
  let e0 := env0_compute_cycle_timings st in
  as_call2 (exec (obj_prims trough P0) tprog_compute_cycle_timings fuel e0) = Return VNone /\
  lookup "self" (final_env (obj_prims trough P0) tprog_compute_cycle_timings fuel e0)
    = Some (oself (fst (step st Timings))) /\
  snd (step st Timings) = OOk.
Proof. exact SkelFacts_Cyclesobj2.skeleton_compute_cycle_timings. Qed.

(* get_metric_dataframe(subset, conditions): the DataFrame is the model's table (which cycles, which columns in
   which order, whether there is an 'index' column), a failure is the model's failure; the object is unchanged *)
Theorem skeleton_get_metric_dataframe : forall (trough : Z) (P0 : cv_params) (st : cstate) (subset : bool)
    (c : option (list string)) fuel,
  frame_ok st ->
  let e0 := env0_get_metric_dataframe st subset c in
  exec (obj_prims trough P0) prog_Cycles_get_metric_dataframe fuel e0 = export_outcome st (which_of subset c) /\
  lookup "self" (final_env (obj_prims trough P0) prog_Cycles_get_metric_dataframe fuel e0) = Some (oself st).
Proof. exact SkelFacts_Cyclesobj2.skeleton_get_metric_dataframe. Qed.

Theorem export_codes : forall (st : cstate) (w : which) (e : Z), export st w = ORaised e ->
  (exists cs, w = ExBoth cs /\ e = 2%Z) \/ get_matching st (conds_for st w) = Err e.
Proof. exact SkelFacts_Cyclesobj2.export_codes. Qed.

Theorem frame_ok_of_inv : forall st : cstate,
  Forall (metric_ok st) (s_metrics st) -> s_metrics st <> [] -> frame_ok st.
Proof. exact SkelFacts_Cyclesobj2.frame_ok_of_inv. Qed.

(* compute_chain_metric(name, vals, func, dtype): without a selection ValueError (the model's ORaised 2 of
   chain_timings) and nothing stored; with one, the chain statistic projected onto the cycles is stored *)
Theorem skeleton_compute_chain_metric : forall (trough : Z) (P0 : cv_params) (st : cstate) (name : string)
    (f : list Z -> Z) (vals : list Z) (toint : bool) fuel,
  let e0 := env0_compute_chain_metric st name vals f toint in
  match s_conds st, s_subset st, s_chain st with
  | None, _, _ =>
      exec (obj_prims trough P0) tprog_compute_chain_metric fuel e0 = Raise "ValueError" /\
      lookup "self" (final_env (obj_prims trough P0) tprog_compute_chain_metric fuel e0) = Some (oself st)
  | Some _, Some sv, Some chv =>
      match chain_metric_vals st f vals chv sv toint with
      | Some v =>
          as_call2 (exec (obj_prims trough P0) tprog_compute_chain_metric fuel e0) = Return VNone /\
          lookup "self" (final_env (obj_prims trough P0) tprog_compute_chain_metric fuel e0)
            = Some (oself (fst (add_metric st name PAdded v)))
      | None => exec (obj_prims trough P0) tprog_compute_chain_metric fuel e0 = Stuck
      end
  | _, _, _ => True
  end.
Proof. exact SkelFacts_Cyclesobj2.skeleton_compute_chain_metric. Qed.

(* the four calls of compute_chain_timings (kinds 0..3) are rounds of the model's chain_t_loop *)
Theorem skeleton_chain_round : forall (trough : Z) (P0 : cv_params) (st : cstate) (k : nat) cs sv chv v t fuel,
  (k < 4)%nat -> s_conds st = Some cs -> s_subset st = Some sv -> s_chain st = Some chv ->
  chain_t_vals st chv sv k = Some v ->
  let e0 := env0_compute_chain_metric st (chain_t_name k) (chain_t_src st k) (chain_t_f k) true in
  as_call2 (exec (obj_prims trough P0) tprog_compute_chain_metric fuel e0) = Return VNone /\
  exists st', lookup "self" (final_env (obj_prims trough P0) tprog_compute_chain_metric fuel e0) = Some (oself st') /\
              pyview st' = pyview (fst (add_metric st (chain_t_name k) (PChainT k) v)) /\
              chain_t_loop st chv sv (k :: t)
              = chain_t_loop (fst (add_metric st (chain_t_name k) (PChainT k) v)) chv sv t.
Proof. exact SkelFacts_Cyclesobj2.skeleton_chain_round. Qed.

(* __init__ on a non-empty phase, starting from an object with ARBITRARY junk in every attribute: the object built is
   the model's [init] (an equality, ghosts included: every attribute is written), with the timings when asked for; is_good is computed on the object's own phase with the caller's phase_edge *)
Theorem skeleton_init : forall (trough : Z) (P0 : cv_params) (j : junk) (ph : list Z) (compute_timings use_cache : bool)
    (mode : val oval) fuel,
  ph <> [] ->
  let e0 := env0_init P0 trough j ph compute_timings use_cache mode in
  match init P0 trough use_cache ph with
  | Some st =>
      as_call2 (exec (obj_prims trough P0) tprog_init fuel e0) = Return VNone /\
      lookup "self" (final_env (obj_prims trough P0) tprog_init fuel e0)
        = Some (oself (if compute_timings then timings st else st))
  | None => exec (obj_prims trough P0) tprog_init fuel e0 = Raise "ValueError"
  end.
Proof. exact SkelFacts_Cyclesobj2.skeleton_init. Qed.

(* FINDING: on the empty phase the translated constructor raises ValueError (as the implementation does) while the
   model's init succeeds *)
Theorem init_empty_phase : forall (trough : Z) (P0 : cv_params) (j : junk) (compute_timings use_cache : bool)
    (mode : val oval) fuel,
  exec (obj_prims trough P0) tprog_init fuel (env0_init P0 trough j [] compute_timings use_cache mode) = Raise "ValueError" /\
  init P0 trough use_cache [] <> None.
Proof. exact SkelFacts_Cyclesobj2.init_empty_phase. Qed.

Print Assumptions erases2.
Print Assumptions skeleton_compute_cycle_metric.
Print Assumptions compute_vals_cycle_total.
Print Assumptions skeleton_compute_cycle_metric_badmode.
Print Assumptions compute_metric_view.
Print Assumptions skeleton_compute_cycle_timings.
Print Assumptions skeleton_get_metric_dataframe.
Print Assumptions export_codes.
Print Assumptions frame_ok_of_inv.
Print Assumptions skeleton_compute_chain_metric.
Print Assumptions skeleton_chain_round.
Print Assumptions skeleton_init.
Print Assumptions init_empty_phase.
