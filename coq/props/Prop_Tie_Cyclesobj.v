(* TIE - model/CycleMaps.v get_subset_vector / get_chain_vector (property C16) and model/CyclesObj.v (property C15)
   against the source of emd/cycles.py (notes/TIE_CYCLESOBJ.md).
   Statements only; every proof is [exact <lemma of proofs/SkelFacts_Cyclesobj.v>].

   gen/Gen_Skel_Cyclesobj.v is regenerated on every run from emd/cycles.py by harness/gen_skel_cyclesobj.py
   (fail-closed structural translation into the mini language of lib/PyLoop.v).  model/SkelPrims_Cyclesobj.v maps
   every primitive name to a list operation / an operation of the model, and defines how a model result shows at
   the Python level.  `self` is the variable "self" holding [CSelf st] (st : CyclesObj.cstate); attribute reads and
   stores are primitives; method calls written as expression statements that mutate the object are rewritten by
   [thread_self writers] into `self = call(self, ..)`, and the call of the local variable `func` by [callvar "func"]
   into `call(func, ..)` - both transformations are checked to add that plumbing and nothing else ([erases]).
   The state a method leaves behind is the value of "self" in [final_env] (where the execution stopped, also after
   a Return or a Raise); states are compared through [pyview] (every non-ghost field). *)
From Coq Require Import String Ascii List Bool Arith ZArith QArith.
From EmdV Require Import lib.NpLite model.CycleMaps model.CyclesObj.
From EmdV Require Import lib.PyLoop lib.PyLoopTools gen.Gen_Skel_Cyclesobj model.SkelPrims_Cyclesobj
  proofs.SkelFacts_Cyclesobj.
Import ListNotations.
Open Scope string_scope.

(* ---- C16: the two vector builders, for EVERY input and EVERY fuel ------------------------------------- *)
Theorem skeleton_get_subset_vector : forall (valids : list bool) f,
  exec vectors_prims prog_get_subset_vector f (env0_get_subset_vector valids)
  = vec_outcome (CycleMaps.get_subset_vector valids).
Proof. exact SkelFacts_Cyclesobj.skeleton_get_subset_vector. Qed.

Theorem skeleton_get_chain_vector : forall (sv : list Z) f,
  exec vectors_prims prog_get_chain_vector f (env0_get_chain_vector sv)
  = vec_outcome (CycleMaps.get_chain_vector sv).
Proof. exact SkelFacts_Cyclesobj.skeleton_get_chain_vector. Qed.

(* ---- C15 ------------------------------------------------------------------------------------------------ *)
(* the two transformations added the plumbing and nothing else *)
Theorem erases :
  erase_self writers tprog_pick_cycle_subset = prog_Cycles_pick_cycle_subset /\
  erase_self writers tprog_add_cycle_metric = prog_Cycles_add_cycle_metric /\
  uncallvar "func" tprog_get_matching_cycles = prog_Cycles_get_matching_cycles.
Proof. exact (conj SkelFacts_Cyclesobj.erase_pick (conj SkelFacts_Cyclesobj.erase_add SkelFacts_Cyclesobj.erase_gm)). Qed.

(* pick_cycle_subset: what the caller sees is [pick_outcome]; the object left behind is, field by field, the
   model's [fst (pick st cs)] - in particular it is UNCHANGED when anything fails (the stores come after every
   computation that can raise) *)
Theorem skeleton_pick_cycle_subset : forall (st : cstate) (cs : list string) f,
  exists st',
    as_call (exec cycles_prims tprog_pick_cycle_subset f (env0_pick_cycle_subset st cs)) = pick_outcome st cs /\
    lookup "self" (final_env cycles_prims tprog_pick_cycle_subset f (env0_pick_cycle_subset st cs)) = Some (vself st') /\
    pyview st' = pyview (fst (pick st cs)).
Proof. exact SkelFacts_Cyclesobj.skeleton_pick_cycle_subset. Qed.

(* get_matching_cycles (ret_separate=False): the conjunction over the conditions, or the first failure *)
Theorem skeleton_get_matching_cycles : forall (st : cstate) (cs : list string) f, metrics_aligned st ->
  exec cycles_prims tprog_get_matching_cycles f (env0_get_matching_cycles st (vconds cs) false)
  = res_outcome (gm_row st cs).
Proof. exact SkelFacts_Cyclesobj.skeleton_get_matching_cycles. Qed.

Theorem skeleton_get_matching_cycles_str : forall (st : cstate) (s : string) f, metrics_aligned st ->
  exec cycles_prims tprog_get_matching_cycles f (env0_get_matching_cycles st (VStr s) false)
  = res_outcome (gm_row st [s]).
Proof. exact SkelFacts_Cyclesobj.skeleton_get_matching_cycles_str. Qed.

(* [gm_row] against the model's error codes, and the hypothesis against the invariant of C15 *)
Theorem gm_row_codes : forall (st : cstate) (cs : list string) (e : Z), get_matching st cs = Err e ->
  (e = 4%Z /\ gm_row st cs = Exc "KeyError") \/
  (e = 9%Z /\ exists s, In s cs /\ parse_cond s = None /\ gm_row st cs = parse_fail s).
Proof. exact SkelFacts_Cyclesobj.gm_row_codes. Qed.

Theorem aligned_of_metric_ok : forall st : cstate, Forall (metric_ok st) (s_metrics st) -> metrics_aligned st.
Proof. exact SkelFacts_Cyclesobj.aligned_of_metric_ok. Qed.

(* _parse_condition: [parse_row s] = the model's parse_cond when it accepts s, otherwise the exception of the code
   (or Stuck where Python raises UnboundLocalError) *)
Theorem skeleton_parse_condition : forall (self : val cval) (s : string) f,
  exec parse_prims prog_Cycles__parse_condition f (env0_parse_condition self s) = res_outcome (parse_row s).
Proof. exact SkelFacts_Cyclesobj.skeleton_parse_condition. Qed.

(* add_cycle_metric (dtype None / int): the length guard RETURNS the exception object and stores nothing *)
Theorem skeleton_add_cycle_metric : forall (st : cstate) (name : string) (vals : list (option Z)) (toint : bool) f,
  let vals' := if toint then nan_to_m1 vals else vals in
  as_call (exec cycles_prims tprog_add_cycle_metric f (env0_add_cycle_metric st name vals toint))
    = add_outcome (snd (add_metric st name PAdded vals')) /\
  lookup "self" (final_env cycles_prims tprog_add_cycle_metric f (env0_add_cycle_metric st name vals toint))
    = Some (vself (fst (add_metric st name PAdded vals'))).
Proof. exact SkelFacts_Cyclesobj.skeleton_add_cycle_metric. Qed.

Theorem skeleton_safe_add_metric : forall (st : cstate) (name : string) (vals : list (option Z)) f,
  as_call (exec cycles_prims prog_Cycles__safe_add_metric f (env0_safe_add_metric st name vals))
    = (if (length vals =? ncyc st)%nat then Return VNone else Raise "ValueError") /\
  lookup "self" (final_env cycles_prims prog_Cycles__safe_add_metric f (env0_safe_add_metric st name vals))
    = Some (vself (fst (add_metric st name PAdded vals))).
Proof. exact SkelFacts_Cyclesobj.skeleton_safe_add_metric. Qed.

Print Assumptions skeleton_get_subset_vector.
Print Assumptions skeleton_get_chain_vector.
Print Assumptions erases.
Print Assumptions skeleton_pick_cycle_subset.
Print Assumptions skeleton_get_matching_cycles.
Print Assumptions skeleton_get_matching_cycles_str.
Print Assumptions gm_row_codes.
Print Assumptions aligned_of_metric_ok.
Print Assumptions skeleton_parse_condition.
Print Assumptions skeleton_add_cycle_metric.
Print Assumptions skeleton_safe_add_metric.
