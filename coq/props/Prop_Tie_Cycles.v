(* TIE - cycle detection of model/CycleVec.v against the source emd/cycles.py (C12, C13; notes/TIE_CYCLES.md).
   Statements only; every proof is [exact <lemma of proofs/SkelFacts_Cycles.v>].

   gen/Gen_Skel_Cycles.v is regenerated on every run from emd/cycles.py by harness/gen_skel_cycles.py (fail-closed
   structural translation into the mini language of lib/PyLoop.v): the whole bodies of get_cycle_vector and is_good.
   model/SkelPrims_Cycles.v maps every opaque primitive name the translator emitted to the LITERAL list operation
   the numpy expression denotes (np.diff = zdiffs, np.where = positions, a[i:j] = slice, np.r_ = cons / append,
   the sliced store = set_slice, ...) over a concrete type of numpy values, and the comparisons with the real
   thresholds to the four integer thresholds of cv_params; the primitive "is_good" of get_cycle_vector is the
   translated body of is_good itself, run by the interpreter.
   The theorems say: under the interpreter of PyLoop.v the translated body of get_cycle_vector (phase-jump
   detection, the two conditional completions of the boundary list, the loop over the columns, the loop over the
   segments with the mask veto, the is_good / np.ones decision, the sliced store and the running counter) computes,
   column by column, exactly the model's get_cycle_vector - stated as "boundaries = 0 :: hits ++ [N], adjacent pairs,
   concatenation of constant blocks numbered by get_subset_vector" - for EVERY phase matrix, mask, thresholds,
   flag and fuel; and the translated body of is_good computes the four checks whose conjunction is the model's
   is_good. A change to the control flow of those functions changes Gen_Skel_Cycles.v and these proofs have to go
   through again. *)
From Coq Require Import String List Bool Arith ZArith.
From EmdV Require Import lib.PyLoop lib.NpLite model.CycleMaps model.CycleVec gen.Gen_Skel_Cycles
  model.SkelPrims_Cycles proofs.SkelFacts_Cycles.
Import ListNotations.
Open Scope nat_scope.
Open Scope string_scope.

(* ---- is_good(phase, waveform=None, ret_all_checks, phase_edge, mode='cycle') ---- *)
(* the four checks (None = IndexError on an empty segment); ret_all_checks selects the array or np.all of it *)
Theorem skeleton_is_good : forall P seg ret_all f,
  exec (isgood_prims P) prog_is_good f (isgood_env0 seg ret_all) = isgood_render ret_all (is_good_checks P seg).
Proof. exact SkelFacts_Cycles.skeleton_is_good. Qed.

(* their conjunction is the model's is_good *)
Theorem is_good_checks_model : forall P seg,
  is_good P seg = option_map (forallb (fun b => b)) (is_good_checks P seg).
Proof. exact SkelFacts_Cycles.is_good_checks_model. Qed.

Theorem skeleton_is_good_model : forall P seg f,
  exec (isgood_prims P) prog_is_good f (isgood_env0 seg false) =
  match is_good P seg with None => Raise "IndexError" | Some b => Return (VBool b) end.
Proof. exact SkelFacts_Cycles.skeleton_is_good_model. Qed.

(* ---- get_cycle_vector(phase, return_good, mask, imf, phase_step, phase_edge) ---- *)
(* the structural refinement behind it: writing the blocks one after the other into a vector of -1 with a running
   counter (the code's loop, [lab_loop]) is the concatenation of the blocks labelled by get_subset_vector *)
Theorem labelling_loop_is_model : forall P rg mask ph, wrap_hits P ph <> [] ->
  option_map fst (lab_loop (seg_accept P rg mask ph) (adj (boundaries P ph)) (repeat (-1)%Z (length ph)) 0)
  = get_cycle_vector P rg mask ph.
Proof. exact SkelFacts_Cycles.lab_loop_gcv. Qed.

(* the whole body, an equality for every fuel: returns the matrix of the model's vectors, one per column of the
   (possibly re-wrapped) phase; raises IndexError iff the model gives None for some column; never Stuck *)
Theorem skeleton_get_cycle_vector : forall P needs_wrap wrapped n cols rg mask imfv,
  gcv_shape_ok wrapped n cols mask -> forall f,
  exec (gcv_prims P needs_wrap wrapped) prog_get_cycle_vector f (gcv_env0 n cols rg mask imfv)
  = gcv_render n (gcv_model P needs_wrap wrapped rg mask cols).
Proof. exact SkelFacts_Cycles.skeleton_get_cycle_vector. Qed.

(* with detection_total (C12) the program always returns *)
Theorem skeleton_get_cycle_vector_returns : forall P needs_wrap wrapped n cols rg mask imfv,
  gcv_shape_ok wrapped n cols mask -> forall f,
  exists outs,
    exec (gcv_prims P needs_wrap wrapped) prog_get_cycle_vector f (gcv_env0 n cols rg mask imfv)
    = Return (VSig (CMat n outs)) /\
    Forall2 (fun ph out => get_cycle_vector P rg mask ph = Some out) (gcv_phase needs_wrap wrapped cols) outs.
Proof. exact SkelFacts_Cycles.skeleton_get_cycle_vector_returns. Qed.

(* one phase column, no re-wrapping: the model's get_cycle_vector verbatim *)
Theorem skeleton_get_cycle_vector_column : forall P ph rg mask imfv f,
  match mask with None => True | Some m => length m = length ph end ->
  exec (gcv_prims P false []) prog_get_cycle_vector f (gcv_env0 (length ph) [ph] rg mask imfv)
  = match get_cycle_vector P rg mask ph with
    | None => Raise "IndexError"
    | Some out => Return (VSig (CMat (length ph) [out]))
    end.
Proof. exact SkelFacts_Cycles.skeleton_get_cycle_vector_column. Qed.

Print Assumptions skeleton_is_good.
Print Assumptions is_good_checks_model.
Print Assumptions skeleton_is_good_model.
Print Assumptions labelling_loop_is_model.
Print Assumptions skeleton_get_cycle_vector.
Print Assumptions skeleton_get_cycle_vector_returns.
Print Assumptions skeleton_get_cycle_vector_column.
