(* TIE (C07, C06) - the masked-sift helpers of model/MaskSift.v against the source (notes/TIE_MASK.md).
   Statements only; every proof is [exact <lemma of proofs/SkelFacts_Mask.v>].

   gen/Gen_Skel_Mask.v is regenerated on every run from emd/sift.py by harness/gen_skel_mask.py (fail-closed
   structural translation into the mini language of lib/PyLoop.v): the whole bodies of get_next_imf_mask and
   get_mask_freqs and the option pre-processing of mask_sift (top-level statements 0..3, everything above the outer
   loop that props/Prop_Tie_Sift.v ties). model/SkelPrims_Mask.v maps every opaque primitive name the translator
   emitted to an oracle of the model. The theorems say that under the interpreter of PyLoop.v the translated programs
   compute exactly what MaskSift.gni_mask_pool / gni_mask, first_freq and mask_freqs (ladder, Variants.mask_cap) +
   amp_sd compute - for EVERY signal / amplitude / frequency type, EVERY behaviour of the oracles, EVERY pool schedule,
   EVERY input and EVERY fuel. *)
From Coq Require Import String List Bool Arith QArith.
From EmdV Require Import lib.PyLoop model.SiftCore model.Variants model.MaskSift gen.Gen_Skel_Mask model.SkelPrims_Mask
                         proofs.SkelFacts_Mask.
Import ListNotations.
Open Scope string_scope.

Section TieGetNextImfMask.
  Variables V A F : Type.
  Variable vzero : V.
  Variable vadd vsub : V -> V -> V.
  Variable vscale : A -> V -> V.
  Variable vdivn : nat -> V -> V.
  Variable cosm : F -> Q -> V.
  (* get_next_imf(a, envelope_opts=eo, extrema_opts=xo, **io) on worker w *)
  Variable gni : val V -> val V -> val V -> nat -> V -> gni_result V.
  Variable sched : schedule.
  Variable z : F.
  Variable amp : A.

  Let P := gnm_prims V A F vzero vadd vsub vscale vdivn cosm gni sched z amp.

  (* get_next_imf_mask, whole body, against the pool model: an EQUALITY for every schedule (valid or not), every
     nphases (0 included), every nprocesses / option values and every fuel. The SAME mask list is added and
     subtracted, the extraction is get_next_imf under exactly (envelope_opts, extrema_opts, imf_opts or {}), the
     flag is the disjunction of the task flags, a task that raised makes the call raise. *)
  Theorem skeleton_get_next_imf_mask_pool : forall X n np eo xo io f,
    exec P prog_get_next_imf_mask f (gnm_env0 V X n np io eo xo) =
    gnm_render V n (gni_mask_pool V A F vzero vadd vsub vscale vdivn cosm (gni eo xo (io_eff io)) sched X z amp n).
  Proof. exact (SkelFacts_Mask.skeleton_get_next_imf_mask_pool V A F vzero vadd vsub vscale vdivn cosm gni sched z amp). Qed.

  (* pure tasks and a valid schedule: the sequential model gni_mask that MaskSiftFacts.gni_mask_spec /
     gni_mask_zero_amp are about *)
  Theorem skeleton_get_next_imf_mask : forall X n np eo xo io f nworkers,
    (forall w a, gni eo xo (io_eff io) w a = gni eo xo (io_eff io) 0%nat a) ->
    valid_schedule nworkers n sched = true ->
    exec P prog_get_next_imf_mask f (gnm_env0 V X n np io eo xo) =
    gnm_render V n (gni_mask V A F vzero vadd vsub vscale vdivn cosm (gni eo xo (io_eff io) 0%nat) X z amp n).
  Proof. exact (SkelFacts_Mask.skeleton_get_next_imf_mask V A F vzero vadd vsub vscale vdivn cosm gni sched z amp). Qed.
End TieGetNextImfMask.

Section TieGetMaskFreqs.
  Variables V F : Type.
  Variable gni : val V -> val V -> val V -> V -> gni_result V.   (* get_next_imf(X, envelope_opts=, extrema_opts=, **io) *)
  Variable zc_freq2 if_freq2 : V -> V -> F.
  Variable fvalid : F -> bool.
  Variable lt_half le_zero ge_half : F -> bool.
  Variable fv : F -> val V.
  Hypothesis fvalid_spec : forall z, fvalid z = lt_half z && negb (le_zero z || ge_half z).

  Let P src := gmf_prims V F gni zc_freq2 if_freq2 lt_half le_zero ge_half fv src.
  Let model io eo xo src X :=
    first_freq V F (gni eo xo (io_eff io)) fvalid (fun p => zc_freq2 p p) (fun p => if_freq2 p p) src X.

  (* get_mask_freqs, whole body, modes 'zc' / 'if' / float: an EQUALITY for every fuel *)
  Theorem skeleton_get_mask_freqs : forall src X eo xo io f, src_single F src ->
    exec (P src) prog_get_mask_freqs f (gmf_env0 V F src X io eo xo) =
    gmf_outcome V F lt_half fv src (model io eo xo src X).
  Proof. exact (SkelFacts_Mask.skeleton_get_mask_freqs V F gni zc_freq2 if_freq2 fvalid lt_half le_zero ge_half fv fvalid_spec). Qed.

  (* FINDING: a float first_mask_mode that is not < .5 leaves z unassigned (Python: UnboundLocalError at `return z`,
     not the documented ValueError); the model says "raises" *)
  Theorem get_mask_freqs_not_lt_half_unbound : forall z X io eo xo f, lt_half z = false ->
    exec (P (FreqFloat F z)) prog_get_mask_freqs f (gmf_env0 V F (FreqFloat F z) X io eo xo) = Stuck /\
    model io eo xo (FreqFloat F z) X = None.
  Proof. exact (SkelFacts_Mask.get_mask_freqs_not_lt_half_unbound V F gni zc_freq2 if_freq2 fvalid lt_half le_zero ge_half fv fvalid_spec). Qed.
End TieGetMaskFreqs.

Section TieMaskSiftPre.
  Variables V F : Type.
  Variable vzero : V.
  Variable gni : val V -> val V -> val V -> V -> gni_result V.
  Variable fdiv : F -> F -> F.
  Variable fpow : F -> nat -> F.
  Variable fvalid : F -> bool.
  Variable zc_freq if_freq : V -> F.
  Variable fv : F -> val V.

  Let P src s := msp_prims V F gni fdiv fpow fvalid zc_freq if_freq fv src s.

  (* mask_sift statements 0..3: the frame handed to the outer loop holds the model's frequency list (explicit list, or
     the ladder z / s ** ii) as mask_freqs, the model's cap (Variants.mask_cap) as max_imfs and the model's initial
     amp_sd as sd; or the region raises what get_mask_freqs raised. An EQUALITY for every fuel. *)
  Theorem skeleton_mask_sift_pre : forall src s mode X k o f,
    exec (P src s) prog_mask_sift_pre f (msp_env0 V F fv src mode X k o) =
    msp_render V F vzero fv src mode X o
      (mask_freqs V F (gni (p_envelope_opts V o) (p_extrema_opts V o) (io_eff (p_imf_opts V o)))
                  fdiv fpow fvalid zc_freq if_freq src s k X).
  Proof. exact (SkelFacts_Mask.skeleton_mask_sift_pre V F vzero gni fdiv fpow fvalid zc_freq if_freq fv). Qed.

  (* what the outer loop reads from that frame *)
  Theorem mask_sift_pre_hands_over : forall src mode X freqs cap o,
    let e := msp_env1 V F vzero fv src mode X freqs cap o in
    lookup "X" e = Some (VSig X) /\
    lookup "mask_freqs" e = Some (VList (map fv freqs)) /\
    lookup "max_imfs" e = Some (VNat cap) /\
    lookup "sd" e = Some (sd_val V vzero mode X) /\
    lookup "mask_amp" e = Some (p_mask_amp V o) /\
    lookup "mask_amp_mode" e = Some (VStr (amp_mode_str mode)) /\
    lookup "imf_opts" e = Some (p_imf_opts V o) /\
    lookup "envelope_opts" e = Some (p_envelope_opts V o) /\
    lookup "extrema_opts" e = Some (p_extrema_opts V o).
  Proof. exact (SkelFacts_Mask.mask_sift_pre_hands_over V F vzero fv). Qed.
End TieMaskSiftPre.

Print Assumptions skeleton_get_next_imf_mask_pool.
Print Assumptions skeleton_get_next_imf_mask.
Print Assumptions skeleton_get_mask_freqs.
Print Assumptions get_mask_freqs_not_lt_half_unbound.
Print Assumptions skeleton_mask_sift_pre.
Print Assumptions mask_sift_pre_hands_over.
