(* TIE - the sift stopping rules of emd/sift.py against the exact models of model/Toys.v (property C04).
   Statements only; every proof is [exact <lemma of proofs/SkelFacts_Stops.v>].

   gen/Gen_Skel_Stops.v is regenerated on every run from emd/sift.py by harness/gen_skel_stops.py (fail-closed
   structural translation into the mini language of lib/PyLoop.v): the whole bodies of sd_stop, rilling_stop,
   fixed_stop, _energy_difference, energy_stop and zero_crossing_count. The driver's local normalisation N16 makes
   `/` and `**` primitives of their own, so each formula of the source is a COMPOSITION of the primitives
   - + ** / np.sum np.abs np.mean np.any < > == bool, and model/SkelPrims_Stops.v gives each of them its literal
   numpy meaning on integer arrays / exact rationals with inf and nan (x/0 = +-inf, 0/0 = nan, comparisons with nan
   are False). The theorems say: under the interpreter of PyLoop.v the translated bodies return exactly
   (decision of the cross-multiplied integer model of Toys.v, exact value of the metric) - for EVERY integer
   input, every rational threshold and every fuel. A change of a formula in the source (an operand, the order of a
   subtraction or division, < for <=, mean for any, a dropped abs) changes Gen_Skel_Stops.v and the proofs no longer
   go through. Float rounding, int64 overflow, rank > 1 and broadcasting are outside (see SkelPrims_Stops.v). *)
From Coq Require Import String List Bool Arith ZArith QArith.
From EmdV Require Import lib.NpLite model.Toys lib.PyLoop lib.PyLoopTools gen.Gen_Skel_Stops model.SkelPrims_Stops
  proofs.SkelFacts_Stops.
Import ListNotations.
Open Scope string_scope.

(* sd_stop(proto_imf, prev_imf, sd = sn/sd_, niters): (Toys.sd_stop, sum((proto-prev)^2) / sum(proto^2)) *)
Theorem skeleton_sd_stop : forall (sn : Z) (sd_ : positive) (proto x1 : list Z) (niters : val num) (f : nat),
  length proto = length x1 ->
  exec stops_prims prog_sd_stop f (sd_env0 proto x1 (sn # sd_) niters) = sd_render sn sd_ proto x1.
Proof. exact SkelFacts_Stops.skeleton_sd_stop. Qed.

(* rilling_stop(upper_env, lower_env, sd1 = s1n/s1d, sd2 = s2n/s2d, tol = tn/td, niters):
   (Toys.rilling_stop, the fraction of samples where Toys.ril_exceeds holds for sd1) *)
Theorem skeleton_rilling_stop :
  forall (s1n : Z) (s1d : positive) (s2n : Z) (s2d : positive) (tn : Z) (td : positive)
         (u l : list Z) (niters : val num) (f : nat),
  length u = length l ->
  exec stops_prims prog_rilling_stop f (ril_env0 u l (s1n # s1d) (s2n # s2d) (tn # td) niters)
  = ril_render s1n s1d s2n s2d tn td u l.
Proof. exact SkelFacts_Stops.skeleton_rilling_stop. Qed.

(* fixed_stop(niters, max_iters) = (niters == max_iters) *)
Theorem skeleton_fixed_stop : forall (niters max_iters f : nat),
  exec stops_prims prog_fixed_stop f (fixed_env0 niters max_iters) = fixed_render niters max_iters.
Proof. exact SkelFacts_Stops.skeleton_fixed_stop. Qed.

(* zero_crossing_count(X), X a 1-D integer array: the number of sign changes between neighbours *)
Theorem skeleton_zero_crossing_count : forall (X : list Z) (f : nat),
  exec stops_prims prog_zero_crossing_count f (zc_env0 X) = zc_render X.
Proof. exact SkelFacts_Stops.skeleton_zero_crossing_count. Qed.

(* _energy_difference(imf, residue) = 20*lg(sum imf^2) - 20*lg(sum residue^2), each lg guarded by `> 0`
   (uninitialised otherwise) - for EVERY log10 oracle lg and float operations dscale / dsub / dgt *)
Theorem skeleton_energy_difference :
  forall (D : Type) (lg : Z -> D) (uninit : D) (dscale : nat -> D -> D) (dsub : D -> D -> D) (dgt : D -> D -> bool)
         (imf residue : list Z) (f : nat),
  exec (energy_base_prims D lg uninit dscale dsub dgt) prog_energy_difference f (ediff_env0 D imf residue)
  = ediff_render D lg uninit dscale dsub imf residue.
Proof. exact SkelFacts_Stops.skeleton_energy_difference. Qed.

(* energy_stop(imf, residue, thresh, niters) = (energy_db > thresh, energy_db); the call of _energy_difference
   runs the translated body of _energy_difference *)
Theorem skeleton_energy_stop :
  forall (D : Type) (lg : Z -> D) (uninit : D) (dscale : nat -> D -> D) (dsub : D -> D -> D) (dgt : D -> D -> bool)
         (imf residue : list Z) (thresh : D) (niters : val (enum D)) (f : nat),
  exec (energy_prims D lg uninit dscale dsub dgt) prog_energy_stop f (estop_env0 D imf residue thresh niters)
  = estop_render D lg uninit dscale dsub dgt imf residue thresh.
Proof. exact SkelFacts_Stops.skeleton_energy_stop. Qed.

(* under the 20 dB contract of the log10 oracle (20 lg a - 20 lg b > t20 <-> a > 10 b for positive a, b) and with
   both sums of squares positive, energy_stop(X, res, t20) decides the model's energy_fires X res *)
Theorem energy_stop_fires :
  forall (D : Type) (lg : Z -> D) (uninit : D) (dscale : nat -> D -> D) (dsub : D -> D -> D) (dgt : D -> D -> bool)
         (t20 : D) (X res : list Z) (niters : val (enum D)) (f : nat),
  log10_contract D lg dscale dsub dgt t20 -> (0 < sumsq X)%Z -> (0 < sumsq res)%Z ->
  exec (energy_prims D lg uninit dscale dsub dgt) prog_energy_stop f (estop_env0 D X res t20 niters)
  = Return (VList [VBool (Toys.energy_fires X res); VSig (EDb (energy_db D lg uninit dscale dsub X res))]).
Proof. exact SkelFacts_Stops.energy_stop_fires. Qed.

(* numpy's division rows on concrete inputs: 0/0 = nan and x/0 = inf are not < sd; an ordinary ratio *)
Theorem sd_stop_division_examples :
  exec stops_prims prog_sd_stop 0 (sd_env0 [0; 0]%Z [0; 0]%Z (1 # 5) VNone)
    = Return (VList [VBool false; VSig (NX XNan)])
  /\ exec stops_prims prog_sd_stop 0 (sd_env0 [0; 0]%Z [1; 2]%Z (1 # 5) VNone)
    = Return (VList [VBool false; VSig (NX XPInf)])
  /\ exec stops_prims prog_sd_stop 0 (sd_env0 [4; -4]%Z [3; -4]%Z (1 # 5) VNone)
    = Return (VList [VBool true; VSig (NX (XQ (1 # 32)))]).
Proof. exact SkelFacts_Stops.sd_stop_division_examples. Qed.

(* amp = 0 with avg <> 0 (inf: go on), amp = 0 with avg = 0 (nan: stop), empty arrays (mean = nan: stop) *)
Theorem rilling_stop_division_examples :
  exec stops_prims prog_rilling_stop 0 (ril_env0 [2; 3]%Z [2; -3]%Z (1 # 20) (1 # 2) (1 # 20) VNone)
    = Return (VList [VBool false; VSig (NX (XQ (1 # 2)))])
  /\ exec stops_prims prog_rilling_stop 0 (ril_env0 [0]%Z [0]%Z (1 # 20) (1 # 2) (1 # 20) VNone)
    = Return (VList [VBool true; VSig (NX (XQ (0 # 1)))])
  /\ exec stops_prims prog_rilling_stop 0 (ril_env0 [] [] (1 # 20) (1 # 2) (1 # 20) VNone)
    = Return (VList [VBool true; VSig (NX XNan)]).
Proof. exact SkelFacts_Stops.rilling_stop_division_examples. Qed.

Print Assumptions skeleton_sd_stop.
Print Assumptions skeleton_rilling_stop.
Print Assumptions skeleton_fixed_stop.
Print Assumptions skeleton_zero_crossing_count.
Print Assumptions skeleton_energy_difference.
Print Assumptions skeleton_energy_stop.
Print Assumptions energy_stop_fires.
Print Assumptions sd_stop_division_examples.
Print Assumptions rilling_stop_division_examples.
