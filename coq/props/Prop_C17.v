(* C17 - feature matching returns a valid one-to-one pairing.
   Statements only; every proof is [exact <lemma of proofs/KdtMatchFacts.v>].
   The K-nearest-neighbour query is an oracle: the theorems hold for EVERY table (D, inds). *)
From Coq Require Import ZArith List Bool Lia.
From EmdV Require Import lib.NpLite model.KdtMatch proofs.KdtMatchFacts.
Import ListNotations.
Open Scope Z_scope.

(* the two returned index lists are equally long (they are the two projections of one pair list) *)
Theorem match_lengths_equal : forall D inds K ny,
  length (map fst (kdt_pairs D inds K ny)) = length (map snd (kdt_pairs D inds K ny)).
Proof. exact KdtMatchFacts.match_lengths_equal. Qed.

(* every index is in range *)
Theorem match_in_range : forall D inds K ny x y,
  In (x, y) (kdt_pairs D inds K ny) -> (x < length inds)%nat /\ (y < ny)%nat.
Proof. exact KdtMatchFacts.match_in_range. Qed.

(* no row of x appears twice *)
Theorem match_injective_x : forall D inds K ny, NoDup (map fst (kdt_pairs D inds K ny)).
Proof. exact KdtMatchFacts.match_injective_x. Qed.

(* no row of y appears twice *)
Theorem match_injective_y : forall D inds K ny, NoDup (map snd (kdt_pairs D inds K ny)).
Proof. exact KdtMatchFacts.match_injective_y. Qed.

(* every matched candidate is among the K nearest neighbours of its partner *)
Theorem match_among_knn : forall D inds K ny x y,
  In (x, y) (kdt_pairs D inds K ny) ->
  exists c, (c < K)%nat /\ nth c (nth x inds []) 0%nat = y.
Proof. exact KdtMatchFacts.match_among_knn. Qed.

(* no matched pair is farther apart than the distance bound, given the query's contract that
   every real neighbour it lists (index < ny) is within the bound *)
Theorem match_within_bound : forall D inds K ny B,
  (forall r c, (nth c (nth r inds []) 0 < ny)%nat -> nth c (nth r D []) 0 <= B) ->
  forall x y, In (x, y) (kdt_pairs D inds K ny) ->
  exists c, (c < K)%nat /\ nth c (nth x inds []) 0%nat = y /\ nth c (nth x D []) 0 <= B.
Proof. exact KdtMatchFacts.match_within_bound. Qed.

(* ---- the code before the repair (finding C17-duplicate-y-matches) ---- *)
Theorem kdt_v0_refuted : exists D inds K ny, ~ NoDup (map snd (kdt_pairs_v0 D inds K ny)).
Proof. exact KdtMatchFacts.kdt_v0_refuted. Qed.

(* non-vacuity: three rows competing for candidate 0; row 1 is closest; row 0 then loses candidate 1 to the
   (already matched) closer row 1 and is omitted *)
Example c17_premises_hold :
  kdt_pairs [[2; 5]; [1; 4]; [3; 1000]] [[0; 1]; [0; 1]; [0; 2]]%nat 2 2 = [(1, 0)]%nat.
Proof. exact KdtMatchFacts.c17_premises_hold. Qed.

Print Assumptions match_lengths_equal.
Print Assumptions match_in_range.
Print Assumptions match_injective_x.
Print Assumptions match_injective_y.
Print Assumptions match_among_knn.
Print Assumptions match_within_bound.
Print Assumptions kdt_v0_refuted.
Print Assumptions c17_premises_hold.
