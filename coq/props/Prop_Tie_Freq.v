(* TIE - the hand-written model of model/Freq.v (instantaneous phase / frequency / amplitude, property C09) against
   the source: emd/spectra.py (frequency_transform, phase_from_complex_signal, freq_from_phase, phase_from_freq)
   and emd/utils.py (wrap_phase, amplitude_normalise).
   Statements only; every proof is [exact <lemma of proofs/SkelFacts_Freq.v>].

   gen/Gen_Skel_Freq.v and gen/Gen_Skel_Frequtils.v are regenerated on every run from the two source files by
   harness/gen_skel_freq.py (fail-closed structural translation into the mini language of lib/PyLoop.v).
   model/SkelPrims_Freq.v gives every numpy / scipy expression the translator emitted its meaning: the model's list
   operation applied column by column (np.gradient, np.cumsum, np.unwrap, signal.medfilt(., 5), the float remainder
   with the model's rounding function [rnd]) or one of the model's oracles (signal.hilbert, np.angle, np.abs,
   interp_envelope). The theorems say: under the interpreter of PyLoop.v the translated WHOLE BODIES return exactly
   what the model defines - for every behaviour of the oracles, every 2-D input, every fuel.
   A change to the composition (which phase is unwrapped / smoothed / shifted, that IF is computed from the very
   unwrapped phase that IP is the wrap of, which signal each method takes the Hilbert transform of, where the
   amplitudes come from, the fold of the remainder, the stopping rule of the normalisation) changes the generated
   programs and these proofs have to go through again. *)
From Coq Require Import String List Bool Arith ZArith QArith Qcanon.
From EmdV Require Import lib.PyLoop model.Freq gen.Gen_Skel_Freq gen.Gen_Skel_Frequtils model.SkelPrims_Freq
     proofs.SkelFacts_Freq.
Import ListNotations.
Close Scope Q_scope.
Close Scope Z_scope.
Open Scope nat_scope.
Open Scope string_scope.

Section Statements.
  Variable tau : Qc.                                      (* 2 pi *)
  Variable rnd : Qc -> Qc.                                (* rounding of the float remainder *)
  Variable analytic : list Qc -> list (Qc * Qc).          (* signal.hilbert *)
  Variable angle : Qc * Qc -> Qc.                         (* np.angle *)
  Variable cabs : Qc * Qc -> Qc.                          (* np.abs *)
  Variable qsqrt : Qc -> Qc.
  Variable env_upper : list Qc -> option (list Qc).       (* interp_envelope(mode='upper') *)
  Variable env_comb : list Qc -> option (list Qc).        (* interp_envelope(mode='combined') *)
  Variable thresh : Qc.
  Local Notation P := (freq_prims tau rnd analytic angle cabs qsqrt env_upper env_comb thresh).

  (* utils.wrap_phase(IP) with the defaults ncycles=1, mode='2pi' IS the model's wrap, entry by entry, provided the
     rounded remainder never exceeds the period (true of any monotone rounding, as 2 pi is a double; without it the
     code returns r - period where the model says 0: SkelFacts_Freq.wrap_phase_needs_rnd_bound) *)
  Theorem skeleton_wrap_phase : forall (a : list (list Qc)) (f : nat),
    (forall x, (rnd (qmod x tau) <= tau)%Qc) ->
    exec P prog_wrap_phase f (wp_env0 a 1 "2pi") = Return (VSig (Arr (map2 (wrap tau rnd) a))).
  Proof. exact (SkelFacts_Freq.skeleton_wrap_phase tau rnd analytic angle cabs qsqrt env_upper env_comb thresh). Qed.

  (* any ncycles: the model's wrap with the period ncycles * 2 * pi *)
  Theorem skeleton_wrap_phase_2pi : forall (a : list (list Qc)) (n f : nat),
    (forall x, (rnd (qmod x (period_of tau n)) <= period_of tau n)%Qc) ->
    exec P prog_wrap_phase f (wp_env0 a n (wmode_str W2pi)) = res_outcome (wrap_spec tau rnd n a).
  Proof. exact (SkelFacts_Freq.skeleton_wrap_phase_2pi tau rnd analytic angle cabs qsqrt env_upper env_comb thresh). Qed.

  (* mode='-pi2pi' (no counterpart in model/Freq.v): wrap (x + half a period) - half a period *)
  Theorem skeleton_wrap_phase_pm : forall (a : list (list Qc)) (n f : nat),
    (forall x, (rnd (qmod x (period_of tau n)) <= period_of tau n)%Qc) ->
    exec P prog_wrap_phase f (wp_env0 a n (wmode_str Wpm)) = res_outcome (wrap_pm_spec tau rnd n a).
  Proof. exact (SkelFacts_Freq.skeleton_wrap_phase_pm tau rnd analytic angle cabs qsqrt env_upper env_comb thresh). Qed.

  (* any other mode string: ValueError, before anything is computed *)
  Theorem skeleton_wrap_phase_badmode : forall (a : list (list Qc)) (n f : nat) (mode : string),
    mode_known mode = false ->
    exec P prog_wrap_phase f (wp_env0 a n mode) = Raise "ValueError".
  Proof. exact (SkelFacts_Freq.skeleton_wrap_phase_badmode tau rnd analytic angle cabs qsqrt env_upper env_comb thresh). Qed.

  (* spectra.freq_from_phase: the model's freq_from_phase on every column; ValueError iff some column has < 2 samples *)
  Theorem skeleton_freq_from_phase : forall (a : list (list Qc)) (sr : Qc) (f : nat),
    exec P prog_freq_from_phase f (ffp_env0 a sr) = res_outcome (ffp_spec tau a sr).
  Proof. exact (SkelFacts_Freq.skeleton_freq_from_phase tau rnd analytic angle cabs qsqrt env_upper env_comb thresh). Qed.

  (* spectra.phase_from_freq: the model's phase_from_freq on every column *)
  Theorem skeleton_phase_from_freq : forall (a : list (list Qc)) (sr ps : Qc) (f : nat),
    exec P prog_phase_from_freq f (pff_env0 a sr ps) = res_outcome (pff_spec tau a sr ps).
  Proof. exact (SkelFacts_Freq.skeleton_phase_from_freq tau rnd analytic angle cabs qsqrt env_upper env_comb thresh). Qed.

  (* spectra.phase_from_complex_signal(cs, smoothing=s, ret_phase='unwrapped'): the model's unwrapped_phase of the
     angles of every column (unwrap, then the 5-point median iff smoothing is not None, then + pi / 2) *)
  Theorem skeleton_phase_from_complex_signal : forall (cs : list (list (Qc * Qc))) (s : option nat) (f : nat),
    exec P prog_phase_from_complex_signal f (pfcs_env0 cs s) = res_outcome (pfcs_spec tau angle s cs).
  Proof. exact (SkelFacts_Freq.skeleton_phase_from_complex_signal tau rnd analytic angle cabs qsqrt env_upper env_comb thresh). Qed.

  (* spectra.frequency_transform(imf, sample_rate, method, smooth_phase): for 'hilbert', 'nht' and 'quad' the three
     returned arrays are the IP / IFq / IA fields of the model's frequency_transform, column by column; ValueError
     exactly when the model says None; never Stuck. For 'quad' the columns must have at least 2 samples: *)
  Theorem skeleton_frequency_transform : forall (cols : list (list Qc)) (sr : Qc) (m : method) (s : option nat) (f : nat),
    (m = Quad -> short_col cols = false) ->
    exec P prog_frequency_transform f (ft_env0 cols sr (method_str m) s)
    = ft_render (frequency_transform tau rnd analytic angle cabs qsqrt env_upper env_comb thresh m (is_smooth s) sr cols).
  Proof. exact (SkelFacts_Freq.skeleton_frequency_transform tau rnd analytic angle cabs qsqrt env_upper env_comb thresh). Qed.

  (* ... with fewer than 2 samples 'quad' ends in quadrature_transform's IndexError (mask[-1] of an empty np.diff), not in
     np.gradient's ValueError as the other two methods do: the model's None does not tell the two apart *)
  Theorem skeleton_frequency_transform_quad_short : forall (cols : list (list Qc)) (sr : Qc) (s : option nat) (f : nat),
    short_col cols = true ->
    exec P prog_frequency_transform f (ft_env0 cols sr "quad" s) = Raise "IndexError".
  Proof. exact (SkelFacts_Freq.skeleton_frequency_transform_quad_short tau rnd analytic angle cabs qsqrt env_upper env_comb thresh). Qed.

  (* 'direct_quad' is refused *)
  Theorem skeleton_frequency_transform_direct_quad : forall (cols : list (list Qc)) (sr : Qc) (s : option nat) (f : nat),
    exec P prog_frequency_transform f (ft_env0 cols sr "direct_quad" s) = Raise "ValueError".
  Proof. exact (SkelFacts_Freq.skeleton_frequency_transform_direct_quad tau rnd analytic angle cabs qsqrt env_upper env_comb thresh). Qed.

  (* utils.amplitude_normalise(X, thresh, clip, interp_method, max_iters=k): every column is the model's
     normalise_loop with k iterations started from the combined envelope (left alone when there is none), clipped to
     [-1, 1] iff clip; for every fuel >= k (the only while loop runs at most max_iters times) *)
  Theorem skeleton_amplitude_normalise : forall (cols : list (list Qc)) (clip : bool) (im : val npv) (k f : nat), k <= f ->
    exec P prog_amplitude_normalise f (an_env0 thresh cols clip im k) = res_outcome (an_spec env_comb thresh k clip cols).
  Proof. exact (SkelFacts_Freq.skeleton_amplitude_normalise tau rnd analytic angle cabs qsqrt env_upper env_comb thresh). Qed.

  (* the defaults clip=False, max_iters=3: the model's amplitude_normalise *)
  Theorem skeleton_amplitude_normalise_default : forall (cols : list (list Qc)) (im : val npv) (f : nat), 3 <= f ->
    exec P prog_amplitude_normalise f (an_env0 thresh cols false im 3)
    = Return (VSig (Arr (map (amplitude_normalise env_comb thresh) cols))).
  Proof. exact (SkelFacts_Freq.skeleton_amplitude_normalise_default tau rnd analytic angle cabs qsqrt env_upper env_comb thresh). Qed.
End Statements.

(* the hypothesis of the wrap_phase theorems cannot be dropped: period 8 and a "rounding" that returns 9 *)
Theorem wrap_phase_needs_rnd_bound :
  let rnd0 := fun _ : Qc => Q2Qc 9 in
  let P0 := freq_prims tau8 rnd0 (fun _ => []) (fun _ => Q2Qc 0) (fun _ => Q2Qc 0) (fun x => x) (fun _ => None) (fun _ => None) (Q2Qc 0) in
  exec P0 prog_wrap_phase 0 (wp_env0 [[Q2Qc 0]] 1 "2pi") = Return (VSig (Arr [[Q2Qc 1]])) /\
  map2 (wrap tau8 rnd0) [[Q2Qc 0]] = [[Q2Qc 0]].
Proof. exact SkelFacts_Freq.wrap_phase_needs_rnd_bound. Qed.

Print Assumptions skeleton_wrap_phase.
Print Assumptions skeleton_wrap_phase_2pi.
Print Assumptions skeleton_wrap_phase_pm.
Print Assumptions skeleton_wrap_phase_badmode.
Print Assumptions skeleton_freq_from_phase.
Print Assumptions skeleton_phase_from_freq.
Print Assumptions skeleton_phase_from_complex_signal.
Print Assumptions skeleton_frequency_transform.
Print Assumptions skeleton_frequency_transform_quad_short.
Print Assumptions skeleton_frequency_transform_direct_quad.
Print Assumptions skeleton_amplitude_normalise.
Print Assumptions skeleton_amplitude_normalise_default.
Print Assumptions wrap_phase_needs_rnd_bound.
