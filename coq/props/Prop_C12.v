(* C12 - cycle detection partitions the phase series at its phase wraps.
   Statements only; every proof is [exact <lemma of proofs/CycleVecFacts.v>]. *)
From Coq Require Import ZArith List Bool Lia.
From EmdV Require Import lib.NpLite model.CycleMaps model.CycleVec proofs.CycleVecFacts.
Import ListNotations.
Open Scope Z_scope.

(* detection never fails, whatever the phase, thresholds, mask and mode *)
Theorem detection_total : forall P rg mask ph, get_cycle_vector P rg mask ph <> None.
Proof. exact CycleVecFacts.detection_total. Qed.

Theorem cycle_vector_length : forall P rg mask ph out,
  get_cycle_vector P rg mask ph = Some out -> length out = length ph.
Proof. exact CycleVecFacts.cycle_vector_length. Qed.

(* segments are non-empty and inside the recording (the boundary list is only used when a wrap exists) *)
Theorem segments_nonempty : forall P ph a b,
  wrap_hits P ph <> [] ->
  In (a, b) (adj (boundaries P ph)) -> (a < b <= length ph)%nat.
Proof. exact CycleVecFacts.segments_nonempty. Qed.

(* labels are exactly 0..K-1, everything else is -1, and labels appear in temporal order *)
Theorem labels_consecutive : forall P rg mask ph out,
  get_cycle_vector P rg mask ph = Some out ->
  exists K,
    (forall x, In x out -> x = -1 \/ 0 <= x < K) /\
    (forall l, 0 <= l < K -> In l out) /\
    (forall i j x y, (i <= j)%nat -> nth_error out i = Some x -> nth_error out j = Some y ->
                     0 <= x -> 0 <= y -> x <= y).
Proof. exact CycleVecFacts.labels_consecutive. Qed.

(* each label covers one contiguous run of samples *)
Theorem label_runs_contiguous : forall P rg mask ph out i j m l,
  get_cycle_vector P rg mask ph = Some out ->
  nth_error out i = Some l -> nth_error out j = Some l -> 0 <= l ->
  (i <= m <= j)%nat -> nth_error out m = Some l.
Proof. exact CycleVecFacts.label_runs_contiguous. Qed.

(* a run contains no internal phase wrap *)
Theorem no_internal_wrap : forall P rg mask ph out i l,
  get_cycle_vector P rg mask ph = Some out ->
  nth_error out i = Some l -> nth_error out (S i) = Some l -> 0 <= l ->
  ~ wrap_at P ph (S i).
Proof. exact CycleVecFacts.no_internal_wrap. Qed.

(* a run begins at the start of the recording or at a wrap ... *)
Theorem run_begins_at_wrap_or_start : forall P rg mask ph out i l,
  get_cycle_vector P rg mask ph = Some out ->
  nth_error out i = Some l -> 0 <= l ->
  (i = 0%nat \/ exists x, nth_error out (i - 1) = Some x /\ x <> l) ->
  i = 0%nat \/ wrap_at P ph i.
Proof. exact CycleVecFacts.run_begins_at_wrap_or_start. Qed.

(* ... and ends just before a wrap or at the end of the recording *)
Theorem run_ends_at_wrap_or_end : forall P rg mask ph out i l,
  get_cycle_vector P rg mask ph = Some out ->
  nth_error out i = Some l -> 0 <= l ->
  (S i = length ph \/ exists x, nth_error out (S i) = Some x /\ x <> l) ->
  S i = length ph \/ wrap_at P ph (S i).
Proof. exact CycleVecFacts.run_ends_at_wrap_or_end. Qed.

(* all cycles requested, nothing masked, at least one wrap: every sample belongs to a cycle *)
Theorem all_cycles_cover : forall P ph out,
  get_cycle_vector P false None ph = Some out ->
  (exists i, wrap_at P ph i) ->
  Forall (fun x => 0 <= x) out.
Proof. exact CycleVecFacts.all_cycles_cover. Qed.

(* wrap-free series yield no cycles *)
Theorem no_wrap_no_cycles : forall P rg mask ph,
  (forall i, ~ wrap_at P ph i) ->
  get_cycle_vector P rg mask ph = Some (repeat (-1) (length ph)).
Proof. exact CycleVecFacts.no_wrap_no_cycles. Qed.

(* ---- the code before the repair (findings C12-last-sample, C12-wrap-on-last-sample) ---- *)
Theorem all_cycles_cover_v0_refuted : exists P ph out,
  get_cycle_vector_v0 P false None ph = Some out /\
  (exists i, wrap_at P ph i) /\ ~ Forall (fun x => 0 <= x) out.
Proof. exact CycleVecFacts.all_cycles_cover_v0_refuted. Qed.

Theorem detection_total_v0_refuted : exists P ph, get_cycle_vector_v0 P true None ph = None.
Proof. exact CycleVecFacts.detection_total_v0_refuted. Qed.

(* non-vacuity: a series with two wraps, one of them on the final sample *)
Example c12_premises_hold :
  let P := {| step := 37; e_lo := 2; e_hi := 49; twopi := 50 |} in
  get_cycle_vector P false None [2; 24; 50; 2; 36; 50; 2] = Some [0; 0; 0; 1; 1; 1; 2] /\
  wrap_at P [2; 24; 50; 2; 36; 50; 2] 6.
Proof. exact CycleVecFacts.c12_premises_hold. Qed.

Print Assumptions detection_total.
Print Assumptions cycle_vector_length.
Print Assumptions segments_nonempty.
Print Assumptions labels_consecutive.
Print Assumptions label_runs_contiguous.
Print Assumptions no_internal_wrap.
Print Assumptions run_begins_at_wrap_or_start.
Print Assumptions run_ends_at_wrap_or_end.
Print Assumptions all_cycles_cover.
Print Assumptions no_wrap_no_cycles.
Print Assumptions all_cycles_cover_v0_refuted.
Print Assumptions detection_total_v0_refuted.
Print Assumptions c12_premises_hold.
