(* TIE "wave" - emd/cycles.py get_cycle_vector_from_waveform, get_chain_stat, basis_project, mean_vector against list-level
   models (C12, C15/C14, C19; notes/TIE_WAVE.md).
   Statements only; every proof is [exact <lemma of proofs/SkelFacts_Wave.v>].

   gen/Gen_Skel_Wave.v is regenerated on every run from emd/cycles.py by harness/gen_skel_wave.py (fail-closed
   structural translation into the mini language of lib/PyLoop.v): the whole bodies of the four functions.
   model/SkelPrims_Wave.v maps every opaque primitive name the translator emitted to the LITERAL list operation
   the numpy expression denotes (a[i:j] = slice, x[a:b] = v -> set_range, np.where = positions, np.diff = zdiffs,
   np.sign = Z.sgn, ...); sift._find_extrema is an ORACLE (any function), func of get_chain_stat is an oracle.
   The theorems say: under the interpreter of PyLoop.v the translated body of get_cycle_vector_from_waveform (input
   normalisation, the 'desc' refusal, the loop over the columns, the two extrema calls, the loop over
   range(len(peak_loc) - 1), the three labelling modes with their `continue`s and IndexErrors, the sliced stores)
   computes exactly wave_model, for EVERY input, mode, oracle and fuel; in 'peaks' and 'troughs' mode the result is
   the blocks between consecutive extrema painted 1, 2, ... over zeros, which - shifted by one to the convention of
   get_cycle_vector (-1 = no cycle) - is a valid cycle vector in the sense of the C12 theorems whenever the extrema
   are strictly increasing sample positions. A change to the control flow of those functions changes
   Gen_Skel_Wave.v and these proofs have to go through again. *)
From Coq Require Import String List Bool Arith ZArith Sorted.
From EmdV Require Import lib.PyLoop lib.NpLite model.CycleMaps model.CycleVec gen.Gen_Skel_Wave
  model.SkelPrims_Wave proofs.SkelFacts_Wave.
From EmdV Require model.Shapes.
Import ListNotations.
Open Scope nat_scope.
Open Scope string_scope.

(* ---- get_cycle_vector_from_waveform(imf, cycle_start) ---- *)
(* the whole function, every mode: an equality for every input array (vector or 2-d), oracle and fuel *)
Theorem skeleton_get_cycle_vector_from_waveform : forall ext a m f, wave_input a ->
  exec (wave_prims ext) prog_get_cycle_vector_from_waveform f (wave_env0 a m) = wave_render (wave_model ext m a).
Proof. exact SkelFacts_Wave.skeleton_get_cycle_vector_from_waveform. Qed.

(* the entry check as mapped in the table is model/Shapes.v e1d_one on the shape of the argument (C19) *)
Theorem wave_norm_shapes : forall a, wave_input a ->
  match wave_norm a with
  | Some (n, cols) => Shapes.e1d_one (wshape a) = Shapes.Ok [n; length cols]
  | None => Shapes.e1d_one (wshape a) = Shapes.Err Shapes.ValueErr
  end.
Proof. exact SkelFacts_Wave.wave_norm_shapes. Qed.

(* 'peaks': the index loop is the block model, whatever the oracle returns *)
Theorem wave_col_peaks : forall ext n col,
  wave_col ext SPeaks n col = Some (paint (adj (fst (ext col))) 1 (repeat 0%Z n)).
Proof. exact SkelFacts_Wave.wave_col_peaks. Qed.

(* 'troughs': the loop still runs len(peak_loc) - 1 times *)
Theorem wave_col_troughs : forall ext n col,
  wave_col ext STroughs n col =
  if (length (fst (ext col)) - 1 <=? length (fst (ext (map Z.opp col))) - 1)%nat
  then Some (paint (firstn (length (fst (ext col)) - 1) (adj (fst (ext (map Z.opp col))))) 1 (repeat 0%Z n))
  else None.
Proof. exact SkelFacts_Wave.wave_col_troughs. Qed.

(* blocks between strictly increasing boundaries, shifted to the labels of get_cycle_vector: a valid cycle vector *)
Theorem paint_valid : forall l n, StronglySorted lt l -> Forall (fun x => x <= n) l ->
  valid_cycle_vector (shift_labels (paint (adj l) 1 (repeat 0%Z n))) (length l - 1).
Proof. exact SkelFacts_Wave.paint_valid. Qed.

(* the translated program on a vector, 'peaks' *)
Theorem skeleton_wave_peaks_valid : forall ext col f,
  StronglySorted lt (fst (ext col)) -> Forall (fun x => x <= length col) (fst (ext col)) ->
  exists out,
    exec (wave_prims ext) prog_get_cycle_vector_from_waveform f (wave_env0 (WVec col) SPeaks)
    = Return (VSig (WMat (length col) [out])) /\
    out = paint (adj (fst (ext col))) 1 (repeat 0%Z (length col)) /\
    valid_cycle_vector (shift_labels out) (length (fst (ext col)) - 1).
Proof. exact SkelFacts_Wave.skeleton_wave_peaks_valid. Qed.

(* 'troughs' with as many troughs as peaks *)
Theorem skeleton_wave_troughs_valid : forall ext col f,
  let pk := fst (ext col) in let tl := fst (ext (map Z.opp col)) in
  length pk = length tl ->
  StronglySorted lt tl -> Forall (fun x => x <= length col) tl ->
  exists out,
    exec (wave_prims ext) prog_get_cycle_vector_from_waveform f (wave_env0 (WVec col) STroughs)
    = Return (VSig (WMat (length col) [out])) /\
    out = paint (adj tl) 1 (repeat 0%Z (length col)) /\
    valid_cycle_vector (shift_labels out) (length tl - 1).
Proof. exact SkelFacts_Wave.skeleton_wave_troughs_valid. Qed.

(* FINDING: 'troughs' with fewer troughs than peaks (a recording that starts and ends on a peak) raises IndexError *)
Theorem skeleton_wave_troughs_short : forall ext col f,
  2 <= length (fst (ext col)) -> length (fst (ext (map Z.opp col))) < length (fst (ext col)) ->
  exec (wave_prims ext) prog_get_cycle_vector_from_waveform f (wave_env0 (WVec col) STroughs) = Raise "IndexError".
Proof. exact SkelFacts_Wave.skeleton_wave_troughs_short. Qed.

(* FINDING: 'asc' leaves gaps in the labels when a cycle is skipped *)
Theorem wave_asc_label_gap :
  let x := [2; -2; -4; -2; 2; 4; 2; 1; 2; 4; 2; -2; -4; -2; 2; 4; 2; -2; -4; -2; 2; 4; 2]%Z in
  let out := [0; 0; 0; 0; 0; 0; 0; 0; 0; 0; 0; 0; 0; 3; 3; 3; 3; 3; 3; 0; 0; 0; 0]%Z in
  wave_col toy_ext SAsc 23 x = Some out /\ forall K, ~ valid_cycle_vector (shift_labels out) K.
Proof. exact SkelFacts_Wave.wave_asc_label_gap. Qed.

(* non-vacuity: the model on concrete inputs (the Python outputs on the same inputs are in notes/TIE_WAVE.md) *)
Theorem wave_examples :
  let x1 := [0; 1; 0; -1; 0; 1; 0; -1; 0; 1; 0]%Z in
  let x2 := [0; -1; 0; 1; 0; -1; 0; 1; 0; -1; 0; 1; 0; -1; 0]%Z in
  let x3 := [1; -1; -2; -1; 1; 2; 1; -1; -2; -1; 1; 2; 1; -1; -2; -1; 1; 2; 1]%Z in
  wave_col toy_ext SPeaks 11 x1 = Some [0; 1; 1; 1; 1; 2; 2; 2; 2; 0; 0]%Z /\
  wave_col toy_ext STroughs 11 x1 = None /\
  wave_col toy_ext SAsc 11 x1 = None /\
  wave_col toy_ext SPeaks 15 x2 = Some [0; 0; 0; 1; 1; 1; 1; 2; 2; 2; 2; 0; 0; 0; 0]%Z /\
  wave_col toy_ext STroughs 15 x2 = Some [0; 1; 1; 1; 1; 2; 2; 2; 2; 0; 0; 0; 0; 0; 0]%Z /\
  wave_col toy_ext SAsc 15 x2 = None /\
  wave_col toy_ext SAsc 19 x3 = Some [0; 0; 0; 1; 1; 1; 1; 1; 1; 2; 2; 2; 2; 2; 2; 0; 0; 0; 0]%Z /\
  wave_col toy_ext SOther 11 x1 = Some (repeat 0%Z 11).
Proof. exact SkelFacts_Wave.wave_examples. Qed.

(* ---- get_chain_stat(chains, var, func) ---- *)
Theorem skeleton_get_chain_stat : forall f chs vals fuel,
  exec (gcs_prims f) prog_get_chain_stat fuel (gcs_env0 chs vals) = gcs_render (chain_stat_list f chs vals).
Proof. exact SkelFacts_Wave.skeleton_get_chain_stat. Qed.

(* the shape of model/CyclesObj.v chain_stat (all_some of option_map (f . take_inds vals) over an index map) *)
Theorem chain_stat_is_model : forall (f : list Z -> Z) (g : nat -> option (list nat)) cs chs vals,
  all_some (map g cs) = Some chs ->
  all_some (map (fun c => option_map (fun inds => f (take_inds vals inds)) (g c)) cs)
  = Some (map (fun x => f (take_inds vals x)) chs).
Proof. exact SkelFacts_Wave.chain_stat_is_model. Qed.

Theorem skeleton_get_chain_stat_model : forall f (g : nat -> option (list nat)) cs chs vals fuel,
  all_some (map g cs) = Some chs -> inds_ok (length vals) chs = true ->
  exists r, exec (gcs_prims f) prog_get_chain_stat fuel (gcs_env0 chs vals) = Return (VSig (SVec r)) /\
            all_some (map (fun c => option_map (fun inds => f (take_inds vals inds)) (g c)) cs) = Some r /\
            length r = length cs.
Proof. exact SkelFacts_Wave.skeleton_get_chain_stat_model. Qed.

(* ---- basis_project(X, ncomps, ret_basis) ---- *)
Theorem skeleton_basis_project : forall n ncomps rb f,
  exec bp_prims prog_basis_project f (bp_env0 n ncomps rb) = bp_render n rb (basis_rows ncomps).
Proof. exact SkelFacts_Wave.skeleton_basis_project. Qed.

Theorem basis_rows_length : forall ncomps,
  length (basis_rows ncomps) = if (1 <? ncomps)%nat then 2 * (ncomps + 1) else 2.
Proof. exact SkelFacts_Wave.basis_rows_length. Qed.

(* FINDING: for ncomps >= 2 the basis has ncomps + 1 sine-cosine pairs, not the documented ncomps *)
Theorem basis_rows_not_ncomps_pairs : forall ncomps, (2 <= ncomps)%nat -> length (basis_rows ncomps) <> 2 * ncomps.
Proof. exact SkelFacts_Wave.basis_rows_not_ncomps_pairs. Qed.

(* ---- mean_vector(IP, X, mask) ---- *)
Theorem skeleton_mean_vector : forall (C : Type) (fcos fsin : C -> C) (imag : C) (cadd cmul : C -> C -> C)
    (cmean : list C -> C) IP X mask f, length IP = length X ->
  exec (mv_prims C fcos fsin imag cadd cmul cmean) prog_mean_vector f (mv_env0 C IP X mask)
  = Return (VSig (MVec C (mean_vector_model C fcos fsin imag cadd cmul cmean
                             (match X with [] => 0 | r :: _ => length r end) IP X))).
Proof. exact SkelFacts_Wave.skeleton_mean_vector. Qed.

Theorem mean_vector_length : forall (C : Type) (fcos fsin : C -> C) (imag : C) (cadd cmul : C -> C -> C)
    (cmean : list C -> C) k IP X,
  length (mean_vector_model C fcos fsin imag cadd cmul cmean k IP X) = k.
Proof. exact SkelFacts_Wave.mean_vector_length. Qed.

Print Assumptions skeleton_get_cycle_vector_from_waveform.
Print Assumptions wave_norm_shapes.
Print Assumptions wave_col_peaks.
Print Assumptions wave_col_troughs.
Print Assumptions paint_valid.
Print Assumptions skeleton_wave_peaks_valid.
Print Assumptions skeleton_wave_troughs_valid.
Print Assumptions skeleton_wave_troughs_short.
Print Assumptions wave_asc_label_gap.
Print Assumptions wave_examples.
Print Assumptions skeleton_get_chain_stat.
Print Assumptions chain_stat_is_model.
Print Assumptions skeleton_get_chain_stat_model.
Print Assumptions skeleton_basis_project.
Print Assumptions basis_rows_length.
Print Assumptions basis_rows_not_ncomps_pairs.
Print Assumptions skeleton_mean_vector.
Print Assumptions mean_vector_length.
