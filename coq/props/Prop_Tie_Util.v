(* TIE `Util` - the small functions of emd/spectra.py and emd/utils.py that no other tie covers, against the source:
     emd/spectra.py  phase_angle, direct_quadrature, phase_from_control_points, frequency_stats
     emd/utils.py    est_orthogonality, apply_epochs, find_extrema_locked_epochs
   Statements only; every proof is [exact <lemma of proofs/SkelFacts_Util.v>].

   gen/Gen_Skel_Util.v and gen/Gen_Skel_Utilutils.v are regenerated on every run from the two source files by
   harness/gen_skel_util.py (fail-closed structural translation into the mini language of lib/PyLoop.v).
   model/SkelPrims_Util.v holds the list-level models (style of model/Freq.v: canonical rationals, oracles for
   arctan / sqrt / scipy's interp1d / the extrema detector / np.percentile) and the table that gives every numpy
   expression the translator emitted its meaning. Part 1: under the interpreter of PyLoop.v the translated WHOLE
   BODIES return exactly what the models define - for every behaviour of the oracles, every input of the stated
   shape, every fuel. Part 2: the laws of those models that users rely on, and the findings as concrete theorems. *)
From Coq Require Import String List Bool Arith ZArith QArith Qcanon.
From EmdV Require Import lib.PyLoop model.Freq gen.Gen_Skel_Util gen.Gen_Skel_Utilutils model.SkelPrims_Util
     proofs.SkelFacts_Util.
Import ListNotations.
Close Scope Q_scope.
Close Scope Z_scope.
Open Scope nat_scope.
Open Scope string_scope.

(* ==================================================================================================== *)
(* Part 1: the programs compute the models                                                              *)
(* ==================================================================================================== *)
Section Statements.
  Variable tau : Qc.                                              (* 2 pi *)
  Variable qsqrt : Qc -> Qc.                                      (* np.sqrt / np.lib.scimath.sqrt on x >= 0 *)
  Variable atan : Qc -> Qc.                                       (* np.arctan *)
  Variable interp_eval : list Qc -> list Qc -> list Qc -> option (list Qc).   (* interp1d(xs, ys)(query) *)
  Variable extrema : lockmode -> list Qc -> option (list nat * list Qc).      (* get_padded_extrema(pad_width=0) *)
  Variable pctl : list Qc -> Qc -> Qc.                            (* np.percentile *)
  Variable ft_call : val uv -> val uv -> res (val uv).            (* frequency_transform( *args, **kwargs) *)
  Local Notation P := (util_prims tau qsqrt atan interp_eval extrema pctl ft_call).

  (* spectra.phase_angle: arctan(x / sqrt(1 - x^2)) entry by entry, with numpy's division by zero; on inputs
     with some |x| > 1 (complex arithmetic in numpy) the table has no meaning: [in_domain] *)
  Theorem skeleton_phase_angle : forall (a : list (list (option Qc))) (f : nat), in_domain a = true ->
    exec P prog_phase_angle f (pa_env0 a) = Return (VSig (UArr (phase_angle_model tau qsqrt atan a))).
  Proof. exact (SkelFacts_Util.skeleton_phase_angle tau qsqrt atan interp_eval extrema pctl ft_call). Qed.

  (* spectra.direct_quadrature: the phase angle, then every row holding a NaN is replaced IN ALL COLUMNS by the mean
     of its two neighbouring rows (row -1 = the last row); IndexError when the last row holds a NaN *)
  Theorem skeleton_direct_quadrature : forall (a : list (list (option Qc))) (f : nat), in_domain a = true ->
    exec P prog_direct_quadrature f (dq_env0 a) = dq_render (dq_model tau qsqrt atan a).
  Proof. exact (SkelFacts_Util.skeleton_direct_quadrature tau qsqrt atan interp_eval extrema pctl ft_call). Qed.

  (* spectra.phase_from_control_points (statements after the function-level import): a fold over the cycles
     1 .. max(cycles); a cycle whose control points hold a NaN is skipped; ValueError / IndexError as numpy raises them *)
  Theorem skeleton_phase_from_control_points : forall (ctrl : list (list (option Qc))) (c : list nat) (f : nat),
    exec P prog_phase_from_control_points f (pfcp_env0 ctrl c) = pfcp_render (pfcp_model tau interp_eval ctrl c).
  Proof. exact (SkelFacts_Util.skeleton_phase_from_control_points tau qsqrt atan interp_eval extrema pctl ft_call). Qed.

  (* spectra.frequency_stats is a deprecated alias: it warns with the literal deprecation text and then returns or
     raises exactly what frequency_transform does with the same positional and keyword arguments *)
  Theorem skeleton_frequency_stats : forall (args kwargs : val uv) (f : nat),
    exec P prog_frequency_stats f (fs_env0 args kwargs) = res_outcome (ft_call args kwargs).
  Proof. exact (SkelFacts_Util.skeleton_frequency_stats tau qsqrt atan interp_eval extrema pctl ft_call). Qed.

  (* utils.est_orthogonality: the matrix |<ci, cj>| / (sqrt<cj, cj> * sqrt<ci, ci>), every entry *)
  Theorem skeleton_est_orthogonality : forall (a : list (list Qc)) (f : nat),
    exec P prog_est_orthogonality f (eo_env0 a) = eo_render (est_orth_model qsqrt a).
  Proof. exact (SkelFacts_Util.skeleton_est_orthogonality tau qsqrt atan interp_eval extrema pctl ft_call). Qed.

  (* utils.apply_epochs: one slice X[start:stop, :] per trial, stored into an array of the length of the FIRST
     trial (a slice of length 1 is broadcast, any other length mismatch is a ValueError; no trial: IndexError).
     A first trial with stop < start (numpy: "negative dimensions") is outside the statement *)
  Theorem skeleton_apply_epochs : forall (X : list (list Qc)) (trls : list (nat * nat)) (f : nat),
    (forall tr0 rest, trls = tr0 :: rest -> trl_start tr0 <= trl_stop tr0) ->
    exec P prog_apply_epochs f (ae_env0 X trls) = res_outcome (ae_model X trls).
  Proof. exact (SkelFacts_Util.skeleton_apply_epochs tau qsqrt atan interp_eval extrema pctl ft_call). Qed.

  (* utils.find_extrema_locked_epochs for the three accepted values of lock_to, any winsize, percentile None or a number *)
  Theorem skeleton_find_extrema_locked_epochs :
    forall (mode : lockmode) (x : list Qc) (w : nat) (pct : option Qc) (f : nat),
    exec P prog_find_extrema_locked_epochs f (fele_env0 x w (lock_str mode) pct)
    = fele_render (fele_model extrema pctl mode x w pct).
  Proof. exact (SkelFacts_Util.skeleton_find_extrema_locked_epochs tau qsqrt atan interp_eval extrema pctl ft_call). Qed.

  (* any other lock_to (including the docstring's 'max' / 'min'): ValueError before anything is computed *)
  Theorem skeleton_find_extrema_locked_epochs_badmode :
    forall (s : string) (x : list Qc) (w : nat) (pct : option Qc) (f : nat), lock_known s = false ->
    exec P prog_find_extrema_locked_epochs f (fele_env0 x w s pct) = Raise "ValueError".
  Proof. exact (SkelFacts_Util.skeleton_find_extrema_locked_epochs_badmode tau qsqrt atan interp_eval extrema pctl ft_call). Qed.
End Statements.

(* ==================================================================================================== *)
(* Part 2: laws of the models                                                                           *)
(* ==================================================================================================== *)
Section Laws.
  Variable tau : Qc.
  Variable qsqrt : Qc -> Qc.
  Variable atan : Qc -> Qc.

  (* ---- phase_angle (nearest property: C09) ---- *)
  (* the output has the shape of the input (the list of column lengths) *)
  Theorem phase_angle_shape : forall a : list (list (option Qc)),
    map (@length _) (phase_angle_model tau qsqrt atan a) = map (@length _) a.
  Proof. exact (SkelFacts_Util.phase_angle_shape tau qsqrt atan). Qed.

  (* the docstring's equation *)
  Theorem phase_angle_formula : forall x : Qc, qsqrt (1 - x * x)%Qc <> 0%Qc ->
    pa_entry tau qsqrt atan (Some x) = Some (atan (x / qsqrt (1 - x * x))%Qc).
  Proof. exact (SkelFacts_Util.phase_angle_formula tau qsqrt atan). Qed.

  (* at fm = +-1 the division by zero gives +-inf and the phase is +-pi/2: NOT a NaN *)
  Theorem phase_angle_at_one : qsqrt 0%Qc = 0%Qc ->
    pa_entry tau qsqrt atan (Some 1%Qc) = Some (tau / q4)%Qc /\
    pa_entry tau qsqrt atan (Some (- (1))%Qc) = Some (- (tau / q4))%Qc.
  Proof. exact (SkelFacts_Util.phase_angle_at_one tau qsqrt atan). Qed.

  (* a NaN comes out only where a NaN went in: the comment "occasional nans where fm==1 or -1" does not hold *)
  Theorem phase_angle_finite : qsqrt 1%Qc <> 0%Qc -> forall x : Qc, pa_entry tau qsqrt atan (Some x) <> None.
  Proof. exact (SkelFacts_Util.phase_angle_finite tau qsqrt atan). Qed.

  (* the range: [-pi/2, pi/2] whenever arctan stays in it *)
  Theorem phase_angle_range : (forall q, (- (tau / q4) <= atan q)%Qc /\ (atan q <= tau / q4)%Qc) ->
    forall x v, pa_entry tau qsqrt atan x = Some v -> (- (tau / q4) <= v)%Qc /\ (v <= tau / q4)%Qc.
  Proof. exact (SkelFacts_Util.phase_angle_range tau qsqrt atan). Qed.

  (* ---- direct_quadrature ---- *)
  Theorem direct_quadrature_no_nan : forall a : list (list (option Qc)),
    argwhere (isnan2 (phase_angle_model tau qsqrt atan a)) = [] ->
    dq_model tau qsqrt atan a = Ok (phase_angle_model tau qsqrt atan a).
  Proof. exact (SkelFacts_Util.direct_quadrature_no_nan tau qsqrt atan). Qed.

  Theorem direct_quadrature_columns : forall (a r : list (list (option Qc))),
    dq_model tau qsqrt atan a = Ok r -> length r = length a.
  Proof. exact (SkelFacts_Util.direct_quadrature_columns tau qsqrt atan). Qed.

  (* ---- est_orthogonality ---- *)
  Theorem est_orth_shape : forall a : list (list Qc),
    length (est_orth_model qsqrt a) = length a /\ Forall (fun r => length r = length a) (est_orth_model qsqrt a).
  Proof. exact (SkelFacts_Util.est_orth_shape qsqrt). Qed.

  Theorem est_orth_nth : forall (a : list (list Qc)) (i j : nat), i < length a -> j < length a ->
    nth j (nth i (est_orth_model qsqrt a) []) XNan = ortho_entry qsqrt a i j.
  Proof. exact (SkelFacts_Util.est_orth_nth qsqrt). Qed.

  (* symmetric, for ANY sqrt (only commutativity of the products is used: also true in floating point) *)
  Theorem est_orth_symmetric : forall (a : list (list Qc)) (i j : nat), i < length a -> j < length a ->
    nth j (nth i (est_orth_model qsqrt a) []) XNan = nth i (nth j (est_orth_model qsqrt a) []) XNan.
  Proof. exact (SkelFacts_Util.est_orth_symmetric qsqrt). Qed.

  (* the arguments of np.sqrt are never negative *)
  Theorem dot_self_nonneg : forall c : list Qc, (0 <= dot c c)%Qc.
  Proof. exact SkelFacts_Util.dot_self_nonneg. Qed.

  (* exact arithmetic: the diagonal is 1 for a non-zero column and NaN (0/0) for a zero column *)
  Theorem ortho_diagonal : sqrt_exact qsqrt -> forall (a : list (list Qc)) (i : nat),
    dot (colq a i) (colq a i) <> 0%Qc -> ortho_entry qsqrt a i i = XF 1%Qc.
  Proof. exact (SkelFacts_Util.ortho_diagonal qsqrt). Qed.

  Theorem ortho_zero_column : sqrt_exact qsqrt -> forall (a : list (list Qc)) (i : nat),
    dot (colq a i) (colq a i) = 0%Qc -> ortho_entry qsqrt a i i = XNan.
  Proof. exact (SkelFacts_Util.ortho_zero_column qsqrt). Qed.
End Laws.

(* ---- direct_quadrature: FINDINGS on concrete inputs (toy oracles: sqrt = 1, arctan = identity) ---- *)
Theorem direct_quadrature_first_row_wraps :
  in_domain dq_in_first = true /\
  res_map qshow (toy_dq dq_in_first)
  = Ok [[Some (1, 4); Some (1, 8); Some (3, 8)]; [Some (1, 2); Some (7, 8); Some (1, 8)]]%Z.
Proof. exact SkelFacts_Util.direct_quadrature_first_row_wraps. Qed.

Theorem direct_quadrature_last_row_raises :
  in_domain dq_in_last = true /\ toy_dq dq_in_last = Exc "IndexError".
Proof. exact SkelFacts_Util.direct_quadrature_last_row_raises. Qed.

(* ---- apply_epochs ---- *)
Theorem apply_epochs_shape : forall (X : list (list Qc)) (trls : list (nat * nat)) (v : val uv),
  ae_model X trls = Ok v ->
  exists L eps, v = VSig (UEp L (length X) eps) /\ length eps = length trls /\
                Forall (fun ep => length ep = length X /\ Forall (fun c => length c = L) ep) eps.
Proof. exact SkelFacts_Util.apply_epochs_shape. Qed.

(* a window that fits is copied: the epoch's column is X[start : start + L] of that column *)
Theorem apply_epochs_window : forall (L s : nat) (c : list Qc), s + L <= length c ->
  fit_col L (slice_tr (s, s + L) c) = Some (firstn L (skipn s c)).
Proof. exact SkelFacts_Util.apply_epochs_window. Qed.

(* ---- find_extrema_locked_epochs ---- *)
(* every window lies inside the data, is centred on an extremum and has the width 2 * int(winsize / 2);
   windows that do not fit are DROPPED (not sliced) *)
Theorem fele_windows :
  forall (extrema : lockmode -> list Qc -> option (list nat * list Qc)) (pctl : list Qc -> Qc -> Qc)
         (mode : lockmode) (x : list Qc) (w : nat) (pct : option Qc) (t : list (Z * Z)) (a b : Z),
  fele_model extrema pctl mode x w pct = Ok t -> In (a, b) t ->
  (0 <= a)%Z /\ (b <= Z.of_nat (length x))%Z /\ (b - a = 2 * Z.of_nat (half w))%Z /\
  exists locs pks l, extrema mode x = Some (locs, pks) /\ In l locs /\ a = (Z.of_nat l - Z.of_nat (half w))%Z.
Proof. exact SkelFacts_Util.fele_windows. Qed.

(* FINDING. lock_to='combined' passes the function's own check and then fails inside get_padded_extrema *)
Theorem fele_combined_raises :
  forall (extrema : lockmode -> list Qc -> option (list nat * list Qc)) (pctl : list Qc -> Qc -> Qc)
         (x : list Qc) (w : nat) (pct : option Qc),
  lock_known "combined" = true /\ fele_model extrema pctl LCombined x w pct = Exc "ValueError".
Proof. exact SkelFacts_Util.fele_combined_raises. Qed.

(* ---- phase_from_control_points ---- *)
Theorem pfcp_shape :
  forall (tau : Qc) (interp_eval : list Qc -> list Qc -> list Qc -> option (list Qc))
         (ctrl : list (list (option Qc))) (c : list nat) (r : list Qc),
  pfcp_model tau interp_eval ctrl c = Ok r -> length r = length c.
Proof. exact SkelFacts_Util.pfcp_shape. Qed.

(* samples outside every cycle keep phase 0 *)
Theorem pfcp_outside_zero :
  forall (tau : Qc) (interp_eval : list Qc -> list Qc -> list Qc -> option (list Qc))
         (ctrl : list (list (option Qc))) (c : list nat) (r : list Qc) (k : nat),
  pfcp_model tau interp_eval ctrl c = Ok r -> nth k c 0 = 0 -> nth k r 0%Qc = 0%Qc.
Proof. exact SkelFacts_Util.pfcp_outside_zero. Qed.

Print Assumptions skeleton_phase_angle.
Print Assumptions skeleton_direct_quadrature.
Print Assumptions skeleton_phase_from_control_points.
Print Assumptions skeleton_frequency_stats.
Print Assumptions skeleton_est_orthogonality.
Print Assumptions skeleton_apply_epochs.
Print Assumptions skeleton_find_extrema_locked_epochs.
Print Assumptions skeleton_find_extrema_locked_epochs_badmode.
Print Assumptions phase_angle_shape.
Print Assumptions phase_angle_formula.
Print Assumptions phase_angle_at_one.
Print Assumptions phase_angle_finite.
Print Assumptions phase_angle_range.
Print Assumptions direct_quadrature_no_nan.
Print Assumptions direct_quadrature_columns.
Print Assumptions est_orth_shape.
Print Assumptions est_orth_nth.
Print Assumptions est_orth_symmetric.
Print Assumptions dot_self_nonneg.
Print Assumptions ortho_diagonal.
Print Assumptions ortho_zero_column.
Print Assumptions direct_quadrature_first_row_wraps.
Print Assumptions direct_quadrature_last_row_raises.
Print Assumptions apply_epochs_shape.
Print Assumptions apply_epochs_window.
Print Assumptions fele_windows.
Print Assumptions fele_combined_raises.
Print Assumptions pfcp_shape.
Print Assumptions pfcp_outside_zero.
