(* C09 - instantaneous phase, frequency and amplitude are consistent and accurate.
   Statements only; every proof is [exact <lemma of proofs/FreqFacts.v>].

   PARTIAL.  What is proved (for ALL inputs, over exact rationals): shapes, phase in [0, 2pi) (for every
   monotone rounding of the remainder), IF = (sample_rate / 2pi) * np.gradient(U) with IP = wrap U for the same
   unwrapped U, the unwrap / wrap facts, the frequency -> phase -> frequency round trip (two-sample averaging,
   exact where the profile is constant), constant IF for a linear phase, median smoothing leaves an advancing
   phase untouched, and invariance under positive rescaling (phase, frequency unchanged, amplitude times c).
   What is NOT proved: "for a pure sinusoid the interior estimates recover frequency, amplitude and phase
   within a small tolerance".  That clause is a statement about scipy's FFT Hilbert transform and the envelope
   interpolants, of which no Gallina model exists here; it is watched by the oracle (harness/props/c09.py,
   accuracy sweep, a regression guard at 3x the error measured on the current tree), nothing more.
   TRUSTED contracts (Section hypotheses, discharged at End into premises of the theorems): scipy.signal.hilbert
   is positively homogeneous, np.angle is scale free, np.abs and the envelope interpolants are homogeneous of
   degree one, all preserve the length.  [toy_contracts_hold] shows that they are jointly satisfiable. *)
From Coq Require Import ZArith QArith Qcanon List Bool.
From EmdV Require Import lib.NpLite model.Freq proofs.FreqFacts.
Import ListNotations.
Open Scope Qc_scope.

Section Oracles.
Variable tau : Qc.                                   (* 2 pi *)
Variable rnd : Qc -> Qc.                             (* rounding of the remainder in wrap_phase *)
Variable analytic : list Qc -> list (Qc * Qc).       (* scipy.signal.hilbert *)
Variable angle : Qc * Qc -> Qc.                      (* np.angle *)
Variable cabs : Qc * Qc -> Qc.                       (* np.abs *)
Variable qsqrt : Qc -> Qc.
Variable env_upper : list Qc -> option (list Qc).    (* interp_envelope(mode='upper') *)
Variable env_comb : list Qc -> option (list Qc).     (* interp_envelope(mode='combined') *)
Variable thresh : Qc.

Hypothesis analytic_len : forall x, length (analytic x) = length x.
Hypothesis env_upper_len : forall x e, env_upper x = Some e -> length e = length x.
Hypothesis env_comb_len : forall x e, env_comb x = Some e -> length e = length x.

Notation ftcol := (ft_col tau rnd analytic angle cabs qsqrt env_upper env_comb thresh).
Notation ftrans := (frequency_transform tau rnd analytic angle cabs qsqrt env_upper env_comb thresh).

(* outputs have the input's number of columns and each column the input's length *)
Theorem ft_shapes : forall m s sr cols outs, ftrans m s sr cols = Some outs ->
  length outs = length cols /\
  forall j x o, nth_error cols j = Some x -> nth_error outs j = Some o ->
    length (IP o) = length x /\ length (IFq o) = length x /\ (forall a, IA o = Some a -> length a = length x).
Proof. exact (FreqFacts.ft_shapes tau rnd analytic angle cabs qsqrt env_upper env_comb thresh analytic_len env_upper_len env_comb_len). Qed.

(* the call fails exactly on columns with fewer than two samples (np.gradient's ValueError) *)
Theorem ft_col_fails_iff : forall m s sr x, ftcol m s sr x = None <-> (length x < 2)%nat.
Proof. exact (FreqFacts.ft_col_fails_iff tau rnd analytic angle cabs qsqrt env_upper env_comb thresh analytic_len env_comb_len). Qed.

(* IF is the sample-rate-scaled np.gradient of the same unwrapped phase U whose wrap is returned as IP *)
Theorem if_is_scaled_gradient : forall m s sr x o, ftcol m s sr x = Some o ->
  let U := unwrapped_phase tau s (map angle (complex_signal analytic qsqrt env_comb thresh m x)) in
  exists g, gradient U = Some g /\
            IFq o = map (fun d => d / tau * sr) g /\
            IP o = map (wrap tau rnd) U.
Proof. exact (FreqFacts.if_is_scaled_gradient tau rnd analytic angle cabs qsqrt env_upper env_comb thresh). Qed.

(* ---- positive rescaling ---- *)
Hypothesis analytic_scale : forall c x, 0 < c -> analytic (qscale c x) = map (cscale c) (analytic x).
Hypothesis angle_scale : forall c z, 0 < c -> angle (cscale c z) = angle z.
Hypothesis cabs_scale : forall c z, 0 < c -> cabs (cscale c z) = c * cabs z.
Hypothesis env_upper_scale : forall c x, 0 < c -> env_upper (qscale c x) = option_map (qscale c) (env_upper x).
Hypothesis env_comb_scale : forall c x, 0 < c -> env_comb (qscale c x) = option_map (qscale c) (env_comb x).

(* phase and frequency unchanged, amplitude times c; for 'quad' the IMF must have an envelope, otherwise
   the clip to [-1, 1] of the un-normalised signal is not scale free *)
Theorem scale_invariance : forall m s sr c x, 0 < c -> (m = Quad -> env_comb x <> None) ->
  ftcol m s sr (qscale c x) = option_map (scale_out c) (ftcol m s sr x).
Proof. exact (FreqFacts.scale_invariance tau rnd analytic angle cabs qsqrt env_upper env_comb thresh
                analytic_scale angle_scale cabs_scale env_upper_scale env_comb_scale). Qed.

Theorem scale_invariance_array : forall m s sr c cols, 0 < c ->
  (m = Quad -> forall x, In x cols -> env_comb x <> None) ->
  ftrans m s sr (map (qscale c) cols) = option_map (map (scale_out c)) (ftrans m s sr cols).
Proof. exact (FreqFacts.scale_invariance_array tau rnd analytic angle cabs qsqrt env_upper env_comb thresh
                analytic_scale angle_scale cabs_scale env_upper_scale env_comb_scale). Qed.
End Oracles.

(* ---- phase range ---- *)
(* the repaired wrap_phase returns a phase in [0, tau) for every rounding that keeps non-negative numbers
   non-negative; without rounding it is numpy's floor remainder *)
Theorem wrap_range : forall tau, 0 < tau -> forall rnd, (forall v, 0 <= v -> 0 <= rnd v) ->
  forall x, 0 <= wrap tau rnd x /\ wrap tau rnd x < tau.
Proof. exact FreqFacts.wrap_range. Qed.

Theorem wrap_exact : forall tau, 0 < tau -> forall x, wrap tau id_rnd x = qmod x tau.
Proof. exact FreqFacts.wrap_exact. Qed.

(* the code before the repair (finding C09-wrap-phase-returns-2pi): on a toy floating point grid the rounded
   remainder of the representable phase -1/4 is the period itself; the repaired code returns zero *)
Theorem wrap_v0_range_refuted :
  (forall v, 0 <= v -> 0 <= toy_rnd v) /\
  exists x, toy_rnd x = x /\ wrap_v0 tau8 toy_rnd x = tau8 /\ wrap tau8 toy_rnd x = 0.
Proof. exact FreqFacts.wrap_v0_range_refuted. Qed.

(* ---- unwrap ---- *)
Theorem unwrap_length : forall tau p, length (unwrap tau p) = length p.
Proof. exact FreqFacts.unwrap_length. Qed.

(* unwrapping adds whole periods only, so wrapping the unwrapped phase gives the wrapped original *)
Theorem wrap_unwrap : forall tau, 0 < tau -> forall rnd p k, (k < length p)%nat ->
  wrap tau rnd (nthq (unwrap tau p) k) = wrap tau rnd (nthq p k).
Proof. exact FreqFacts.wrap_unwrap. Qed.

(* and leaves no step larger than half a period *)
Theorem unwrap_steps_bounded : forall tau, 0 < tau -> forall p k, (S k < length p)%nat ->
  - (tau / q2) <= nthq (unwrap tau p) (S k) - nthq (unwrap tau p) k /\
  nthq (unwrap tau p) (S k) - nthq (unwrap tau p) k <= tau / q2.
Proof. exact FreqFacts.unwrap_steps_bounded. Qed.

(* ---- smoothing ---- *)
Theorem medfilt_increasing_interior : forall l k, (2 <= k)%nat -> (k + 2 < length l)%nat ->
  nthq l (k - 2) < nthq l (k - 1) -> nthq l (k - 1) < nthq l k ->
  nthq l k < nthq l (k + 1) -> nthq l (k + 1) < nthq l (k + 2) ->
  nthq (medfilt5 l) k = nthq l k.
Proof. exact FreqFacts.medfilt_increasing_interior. Qed.

(* ---- frequency <-> phase ---- *)
(* index convention of the code: interior sample k of the round trip is the mean of f[k] and f[k+1] *)
Theorem roundtrip_interior : forall tau, 0 < tau -> forall f sr ps k, sr <> 0 -> (0 < k)%nat -> (k + 1 < length f)%nat ->
  exists F, freq_from_phase tau (phase_from_freq tau f sr ps) sr = Some F /\ length F = length f /\
            nthq F k = (nthq f k + nthq f (k + 1)) / q2.
Proof. exact FreqFacts.roundtrip_interior. Qed.

(* the one-sided end samples: F[0] = f[1], F[n-1] = f[n-1] *)
Theorem roundtrip_ends : forall tau, 0 < tau -> forall f sr ps, sr <> 0 -> (2 <= length f)%nat ->
  exists F, freq_from_phase tau (phase_from_freq tau f sr ps) sr = Some F /\ length F = length f /\
            nthq F 0 = nthq f 1 /\ nthq F (length f - 1) = nthq f (length f - 1).
Proof. exact FreqFacts.roundtrip_ends. Qed.

(* exact where the profile is constant *)
Theorem roundtrip_constant : forall tau, 0 < tau -> forall f sr ps k, sr <> 0 -> (0 < k)%nat -> (k + 1 < length f)%nat ->
  nthq f k = nthq f (k + 1) ->
  exists F, freq_from_phase tau (phase_from_freq tau f sr ps) sr = Some F /\ nthq F k = nthq f k.
Proof. exact FreqFacts.roundtrip_constant. Qed.

(* a phase advancing by b per sample has instantaneous frequency b * sample_rate / tau at every sample *)
Theorem linear_phase_constant_if : forall tau, 0 < tau -> forall U sr a b, (2 <= length U)%nat ->
  (forall k, (k < length U)%nat -> nthq U k = a + b * qn k) ->
  exists F, freq_from_phase tau U sr = Some F /\ length F = length U /\
            forall k, (k < length U)%nat -> nthq F k = b / tau * sr.
Proof. exact FreqFacts.linear_phase_constant_if. Qed.

(* ---- the hypotheses are satisfiable / met by concrete data ---- *)
Theorem toy_contracts_hold :
  (forall x, length (toy_analytic x) = length x) /\
  (forall x e, toy_env x = Some e -> length e = length x) /\
  (forall c x, 0 < c -> toy_analytic (qscale c x) = map (cscale c) (toy_analytic x)) /\
  (forall c z, 0 < c -> toy_angle (cscale c z) = toy_angle z) /\
  (forall c z, 0 < c -> toy_cabs (cscale c z) = c * toy_cabs z) /\
  (forall c x, 0 < c -> toy_env (qscale c x) = option_map (qscale c) (toy_env x)).
Proof. exact FreqFacts.toy_contracts_hold. Qed.

Example c09_premises_hold :
  0 < tau8 /\
  (forall k, (k < 4)%nat -> nthq (zq [1; 3; 5; 7]%Z) k = 1 + q2 * qn k) /\
  nthq (zq [0; 1; 3; 4; 9; 11; 12]%Z) 1 < nthq (zq [0; 1; 3; 4; 9; 11; 12]%Z) 2 /\
  toy_env (zq [3; -1; 2; -4; 1; 5; -2; -3; 4]%Z) <> None /\
  option_map (fun o => (map this (IP o), map this (IFq o), option_map (map this) (IA o)))
             (toy_ft Quad true (Q2Qc 16) (zq [3; -1; 2; -4; 1; 5; -2; -3; 4]%Z))
    = Some ([2; 2; 2; 2; 2; 6; 2; 2; 2]%Q, [0; 0; 0; 0; 4; 0; -4; 0; 0]%Q, Some [3; 1; 2; 4; 1; 5; 2; 3; 4]%Q) /\
  option_map (fun o => (map this (IP o), map this (IFq o), option_map (map this) (IA o)))
             (toy_ft Hilbert false (Q2Qc 16) (zq [3; -1; 2; -4; 1; 5; -2; -3; 4]%Z))
    = Some ([3; 1; 3; 1; 3; 3; 1; 1; 3]%Q, [-4; 0; 0; 0; 2; -2; -2; 2; 4]%Q, Some [9; 3; 6; 12; 3; 15; 6; 9; 12]%Q).
Proof. exact FreqFacts.c09_premises_hold. Qed.

Print Assumptions ft_shapes.
Print Assumptions ft_col_fails_iff.
Print Assumptions if_is_scaled_gradient.
Print Assumptions scale_invariance.
Print Assumptions scale_invariance_array.
Print Assumptions wrap_range.
Print Assumptions wrap_exact.
Print Assumptions wrap_v0_range_refuted.
Print Assumptions unwrap_length.
Print Assumptions wrap_unwrap.
Print Assumptions unwrap_steps_bounded.
Print Assumptions medfilt_increasing_interior.
Print Assumptions roundtrip_interior.
Print Assumptions roundtrip_ends.
Print Assumptions roundtrip_constant.
Print Assumptions linear_phase_constant_if.
Print Assumptions toy_contracts_hold.
Print Assumptions c09_premises_hold.
