(* C01 - the classic sift is a complete additive decomposition of its input.
   Statements only; every proof is [exact <lemma of proofs/SiftCoreFacts.v>].

   [peel_loop] (model/SiftCore.v) is the outer loop of emd.sift.sift (lines 459-487): the running
   residual is recomputed as X - sum(imfs so far) before every extraction.  The theorems hold for
   EVERY signal type with the two group laws below on well-formed (length-N) signals, every
   extraction step and every threshold test; the concrete instance (integer signals, toy envelopes,
   the real stopping formulas) is shown to meet the hypotheses at the end. *)
From Coq Require Import ZArith List Bool Lia.
From EmdV Require Import lib.NpLite model.Extrema model.SiftCore model.Toys model.Envelope proofs.SiftCoreFacts proofs.EnvelopeFacts.
Import ListNotations.

Section C01.
  Variable V : Type.
  Variable wf : V -> Prop.                              (* a signal of the right length *)
  Variable vzero : V.
  Variable vadd vsub : V -> V -> V.
  Variable small : V -> bool.
  Variable extract : nat -> list V -> V -> gni_result V.

  Hypothesis wf_zero : wf vzero.
  Hypothesis wf_add : forall a b, wf a -> wf b -> wf (vadd a b).
  Hypothesis wf_sub : forall a b, wf a -> wf b -> wf (vsub a b).
  Hypothesis add_zero_l : forall a, wf a -> vadd vzero a = a.
  Hypothesis add_sub_cancel : forall a b, wf a -> wf b -> vadd b (vsub a b) = a.      (* b + (a - b) = a *)
  Hypothesis extract_wf : forall n acc r p f k, wf r -> extract n acc r = Imf p f k -> wf p.

  Let vsum := vsum V vzero vadd.
  Let residual := residual V vzero vadd vsub.
  Let peel := peel_loop V vzero vadd vsub small extract.

  (* every layer is extracted from input minus the sum of the layers before it *)
  Theorem sift_residual_inv : forall fuel cap X imfs e k,
    peel fuel cap X [] = (imfs, e) -> (k < length imfs)%nat ->
    exists f n, extract k (firstn k imfs) (residual X (firstn k imfs)) = Imf (nth k imfs vzero) f n.
  Proof. exact (SiftCoreFacts.sift_residual_inv V vzero vadd vsub small extract). Qed.

  (* COMPLETENESS.  If the loop ends because the extraction cleared its flag (not because of the cap,
     and whether or not the threshold test also fired), and a cleared flag means "the residual was
     returned unmodified" (the extraction contract, proved of get_next_imf below), then the
     components sum back to the input. *)
  Theorem sift_complete : forall fuel cap X imfs e, wf X ->
    (forall n acc r p k, extract n acc r = Imf p false k -> p = r) ->
    peel fuel cap X [] = (imfs, e) -> flag_stop e = true ->
    vsum imfs = X.
  Proof. exact (SiftCoreFacts.sift_complete V wf vzero vadd vsub small extract wf_zero wf_add wf_sub add_zero_l add_sub_cancel extract_wf). Qed.

  (* ... and the final component is the last residual itself *)
  Theorem sift_last_is_residual : forall fuel cap X imfs e,
    (forall n acc r p k, extract n acc r = Imf p false k -> p = r) ->
    peel fuel cap X [] = (imfs, e) -> flag_stop e = true ->
    exists init p, imfs = init ++ [p] /\ p = residual X init.
  Proof. exact (SiftCoreFacts.sift_last_is_residual V vzero vadd vsub small extract). Qed.

  (* the exit reasons are exactly the documented ones *)
  Theorem sift_exit_reasons : forall fuel cap X imfs e,
    peel fuel cap X [] = (imfs, e) ->
    out_of_fuel e = false -> raised e = false ->
    cap_hit e = true \/ small_hit e = true \/ flag_stop e = true.
  Proof. exact (SiftCoreFacts.sift_exit_reasons V vzero vadd vsub small extract). Qed.

  Theorem sift_cap_hit_only_with_cap : forall fuel X imfs e,
    peel fuel None X [] = (imfs, e) -> cap_hit e = false.
  Proof. exact (SiftCoreFacts.sift_cap_hit_only_with_cap V vzero vadd vsub small extract). Qed.
End C01.

(* ---- the extraction contract, for get_next_imf as repaired --------------------------------- *)
Section Contract.
  Variable V : Type.
  Variable vsub : V -> V -> V.
  Variable vstep : V -> V.
  Variable vavg : V -> V -> V.
  Variable envs : V -> option (V * V).
  Variable stop_sd stop_ril : V -> V -> bool.
  Variable energy_fires : V -> V -> bool.
  Variable method : stop_method.
  Variable max_iters : nat.

  (* without the energy option a cleared flag means: the input had too few extrema and came back unmodified *)
  Theorem gni_flag_contract : forall X p n, (method = Fixed -> (1 <= max_iters)%nat) ->
    get_next_imf V vsub vstep vavg envs stop_sd stop_ril energy_fires method max_iters false X = Imf p false n ->
    p = X /\ envs X = None.
  Proof. exact (SiftCoreFacts.gni_flag_contract V vsub vstep vavg envs stop_sd stop_ril energy_fires method max_iters). Qed.

  (* with it, a cleared flag means that, or that the energy threshold fired (the documented exception) *)
  Theorem gni_flag_contract_energy : forall X p n, (method = Fixed -> (1 <= max_iters)%nat) ->
    get_next_imf V vsub vstep vavg envs stop_sd stop_ril energy_fires method max_iters true X = Imf p false n ->
    (p = X /\ envs X = None) \/ energy_fires X (vsub X p) = true.
  Proof. exact (SiftCoreFacts.gni_flag_contract_energy V vsub vstep vavg envs stop_sd stop_ril energy_fires method max_iters). Qed.
End Contract.

(* ---- concrete instance: integer signals of one length meet every hypothesis ------------------ *)
Open Scope Z_scope.

Theorem zvec_group_laws : forall N (a b : list Z), length a = N -> length b = N ->
  length (Toys.vadd a b) = N /\ length (Toys.vsub a b) = N /\
  Toys.vadd (Toys.vzero N) a = a /\ Toys.vadd b (Toys.vsub a b) = a.
Proof. exact SiftCoreFacts.zvec_group_laws. Qed.

Theorem toy_gni_preserves_length : forall c v0 X p f n,
  toy_gni c v0 X = Imf p f n -> length p = length X.
Proof. exact SiftCoreFacts.toy_gni_preserves_length. Qed.

(* so the classic sift over the toy envelopes is complete whenever it ends of its own accord without
   the energy option, and its last component has fewer than two maxima or fewer than two minima *)
Theorem toy_sift_complete : forall c fuel X imfs e,
  cg c 5 <> 1 -> (cg c 1 <> 0 -> cg c 1 <> 1 -> 1 <= cg c 2) ->
  toy_sift c false fuel X = (imfs, e) -> flag_stop e = true ->
  vsum (list Z) (Toys.vzero (length X)) Toys.vadd imfs = X /\
  exists init p, imfs = init ++ [p] /\ ((nmaxima p < 2)%nat \/ (nminima p < 2)%nat).
Proof. exact SiftCoreFacts.toy_sift_complete. Qed.

(* the real envelope is None exactly when there are fewer than two extrema of the kind it interpolates
   (restated from C05: get_padded_extrema returns (None, None) iff at most one extremum) *)
Theorem no_envelope_iff_few_extrema : forall x p m,
  get_padded_extrema x p m = NoExtrema <-> (length (fst (extrema m x)) <= 1)%nat.
Proof. exact SiftCoreFacts.no_envelope_iff_few_extrema. Qed.

(* ---- the concrete extrema layer under the abstract [envs] oracle --------------------------------------
   get_next_imf's envelope pair (model/Envelope.v: real extrema detection and padding of model/Extrema.v, the
   spline/PCHIP evaluation an oracle) is undefined exactly when the signal has fewer than two strict interior
   maxima or fewer than two strict interior minima ... *)
Theorem no_envelope_pair_iff : forall (A : Type) (interp : list Z -> list Z -> Z -> A) p x, (1 <= p)%nat ->
  (envelope_pair A interp p x = None <->
   (length (find_maxima x) <= 1)%nat \/ (length (find_maxima (map Z.opp x)) <= 1)%nat).
Proof. exact EnvelopeFacts.no_envelope_pair_iff. Qed.

(* ... so for EVERY interpolant, step operator, stopping oracle and threshold test: when the classic sift over
   integer-valued signals ends because the extraction cleared its flag (no energy option), its final component is
   a non-oscillatory residual *)
Theorem concrete_sift_final_nonoscillatory :
  forall (interp : list Z -> list Z -> Z -> Z) p vzero vadd vsub vstep vavg stop_sd stop_ril energy method max_iters small
         fuel cap X imfs e,
  (1 <= p)%nat -> (method = Fixed -> (1 <= max_iters)%nat) ->
  peel_loop (list Z) vzero vadd vsub small
            (fun _ _ => get_next_imf (list Z) vsub vstep vavg (envelope_pair Z interp p) stop_sd stop_ril energy
                                     method max_iters false)
            fuel cap X [] = (imfs, e) ->
  flag_stop e = true ->
  exists init last_, imfs = init ++ [last_] /\
    ((length (find_maxima last_) <= 1)%nat \/ (length (find_maxima (map Z.opp last_)) <= 1)%nat).
Proof. exact EnvelopeFacts.concrete_sift_final_nonoscillatory. Qed.

(* ---- the code before the repair (finding C01-partial-sift-residual-dropped) ------------------
   get_next_imf cleared the flag whenever ANY iterate lost its extrema and returned that partly
   sifted iterate: the sift then stopped and the remaining residual was dropped. *)
Theorem sift_complete_v0_refuted : exists c X imfs e,
  toy_sift c true 60 X = (imfs, e) /\ flag_stop e = true /\ cap_hit e = false /\ small_hit e = false /\
  vsum (list Z) (Toys.vzero (length X)) Toys.vadd imfs <> X.
Proof. exact SiftCoreFacts.sift_complete_v0_refuted. Qed.

Example c01_premises_hold : exists imfs e,
  toy_sift [0; 0; 20; 1; 1; 0; 1; 8; 1; 16; 1; 2; 1; 16; 1; 0; 0] false 60
           [0; 40; -36; 44; -28; 36; -40; 32; -20; 12; 0; 24; -16; 8] = (imfs, e) /\
  flag_stop e = true /\ (2 <= length imfs)%nat.
Proof. exact SiftCoreFacts.c01_premises_hold. Qed.

Print Assumptions sift_residual_inv.
Print Assumptions sift_complete.
Print Assumptions sift_last_is_residual.
Print Assumptions sift_exit_reasons.
Print Assumptions sift_cap_hit_only_with_cap.
Print Assumptions gni_flag_contract.
Print Assumptions gni_flag_contract_energy.
Print Assumptions zvec_group_laws.
Print Assumptions toy_gni_preserves_length.
Print Assumptions toy_sift_complete.
Print Assumptions no_envelope_iff_few_extrema.
Print Assumptions sift_complete_v0_refuted.
Print Assumptions c01_premises_hold.
Print Assumptions no_envelope_pair_iff.
Print Assumptions concrete_sift_final_nonoscillatory.
