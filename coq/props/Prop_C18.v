(* C18 - sift configurations are faithful, addressable and persistable.
   Statements only; every proof is [exact <lemma of proofs/ConfigFacts.v>].
   Model: model/Config.v; tables of today's defaults: gen/Gen_Defaults.v (regenerated from
   emd/sift.py by harness/gen_tables.py before every proof run). *)
From Coq Require Import ZArith List Bool String.
From EmdV Require Import model.Config gen.Gen_Defaults proofs.ConfigFacts.
Import ListNotations.
Open Scope Z_scope.

(* ---- key paths address exactly what nested indexing addresses ---- *)
(* the item methods, written one case per depth, are nested indexing along the parts of the key *)
Theorem getitem_follows_parts : forall key s,
  getitem key s = match keytransform key with Ok ps => nget ps s | Err e => Err e end.
Proof. exact ConfigFacts.getitem_nget. Qed.

Theorem setitem_follows_parts : forall key v s,
  setitem key v s = match keytransform key with Ok ps => nset ps v s | Err e => Err e end.
Proof. exact ConfigFacts.setitem_nset. Qed.

Theorem delitem_follows_parts : forall key s,
  delitem key s = match keytransform key with Ok ps => ndel ps s | Err e => Err e end.
Proof. exact ConfigFacts.delitem_ndel. Qed.

Theorem path_get_eq_nested : forall ks s, plain_keys ks -> getitem (join_slash ks) s = nget ks s.
Proof. exact ConfigFacts.path_get_eq_nested. Qed.

Theorem path_set_eq_nested : forall ks v s, plain_keys ks -> setitem (join_slash ks) v s = nset ks v s.
Proof. exact ConfigFacts.path_set_eq_nested. Qed.

Theorem path_del_eq_nested : forall ks s, plain_keys ks -> delitem (join_slash ks) s = ndel ks s.
Proof. exact ConfigFacts.path_del_eq_nested. Qed.

(* splitting and joining are inverse: a key string names one list of plain keys and vice versa *)
Theorem path_names_one_entry : forall key,
  join_slash (split_slash key) = key /\ forallb no_slash (split_slash key) = true /\ split_slash key <> [].
Proof. exact ConfigFacts.path_names_one_entry. Qed.

Theorem split_join : forall ks, ks <> [] -> forallb no_slash ks = true -> split_slash (join_slash ks) = ks.
Proof. exact ConfigFacts.split_join. Qed.

(* more than three levels: refused by all three methods *)
Theorem path_too_deep : forall ks v s, forallb no_slash ks = true -> (3 < List.length ks)%nat ->
  getitem (join_slash ks) s = Err ETooDeep /\ setitem (join_slash ks) v s = Err ETooDeep
  /\ delitem (join_slash ks) s = Err ETooDeep.
Proof. exact ConfigFacts.path_too_deep. Qed.

(* ---- a write / delete touches exactly its entry (any depth, nested form) ---- *)
Theorem nset_get_same : forall ks v t t', nset ks v t = Ok t' -> nget ks t' = Ok v.
Proof. exact ConfigFacts.nset_get_same. Qed.

Theorem nset_get_other : forall ks ks' v t t',
  diverge ks ks' = true -> nset ks v t = Ok t' -> nget ks' t' = nget ks' t.
Proof. exact ConfigFacts.nset_get_other. Qed.

Theorem ndel_get_same : forall ks t t', ndel ks t = Ok t' -> nget ks t' = Err EKey.
Proof. exact ConfigFacts.ndel_get_same. Qed.

Theorem ndel_get_other : forall ks ks' t t',
  diverge ks ks' = true -> ndel ks t = Ok t' -> nget ks' t' = nget ks' t.
Proof. exact ConfigFacts.ndel_get_other. Qed.

Theorem ndel_ok_iff : forall ks t, ks <> [] ->
  ((exists t', ndel ks t = Ok t') <-> (exists x, nget ks t = Ok x)).
Proof. exact ConfigFacts.ndel_ok_iff. Qed.

Theorem nset_ok_iff : forall ks v t, ks <> [] ->
  ((exists t', nset ks v t = Ok t') <-> (exists kids, nget (removelast ks) t = Ok (Node kids))).
Proof. exact ConfigFacts.nset_ok_iff. Qed.

(* ---- the same for key paths ---- *)
Theorem set_get_same : forall key v s s', setitem key v s = Ok s' -> getitem key s' = Ok v.
Proof. exact ConfigFacts.set_get_same. Qed.

Theorem set_get_other : forall key key' ps ps' v s s',
  keytransform key = Ok ps -> keytransform key' = Ok ps' -> diverge ps ps' = true ->
  setitem key v s = Ok s' -> getitem key' s' = getitem key' s.
Proof. exact ConfigFacts.set_get_other. Qed.

Theorem del_get_same : forall key s s', delitem key s = Ok s' -> getitem key s' = Err EKey.
Proof. exact ConfigFacts.del_get_same. Qed.

Theorem del_get_other : forall key key' ps ps' s s',
  keytransform key = Ok ps -> keytransform key' = Ok ps' -> diverge ps ps' = true ->
  delitem key s = Ok s' -> getitem key' s' = getitem key' s.
Proof. exact ConfigFacts.del_get_other. Qed.

Theorem del_ok_iff_present : forall key s,
  (exists s', delitem key s = Ok s') <-> (exists x, getitem key s = Ok x).
Proof. exact ConfigFacts.del_ok_iff_present. Qed.

(* ---- persistence ---- *)
(* what is written has the same keys and values, tuples / arrays having become lists *)
Theorem listify_same_options : forall t, tree_sim t (listify t) = true.
Proof. exact ConfigFacts.listify_same_options. Qed.

(* exporting converts the live configuration below the first level in place: nothing but the kind of
   sequences changes and a second export writes the same thing *)
Theorem export_keeps_options : forall s,
  tree_sim s (store_after_export s) = true /\ listify (store_after_export s) = listify s.
Proof. exact ConfigFacts.export_keeps_options. Qed.

(* PyYAML is an oracle: any dump_all / load_all (dump / load) that give back ndarray-free documents *)
Theorem yaml_file_roundtrip :
  forall (ytext : Type) (dump_all : list ydoc -> ytext) (load_all : ytext -> list ydoc),
  (forall ds, forallb doc_plain ds = true -> load_all (dump_all ds) = ds) ->
  forall c, tree_exportable (cstore c) = true ->
  from_yaml_file ytext load_all (to_yaml_file ytext dump_all c) = roundtrip_spec c.
Proof. exact ConfigFacts.yaml_file_roundtrip. Qed.

Theorem yaml_text_roundtrip :
  forall (ytext : Type) (dump : ydoc -> ytext) (load : ytext -> option ydoc),
  (forall d, doc_plain d = true -> load (dump d) = Some d) ->
  forall c, tree_exportable (cstore c) = true ->
  from_yaml_stream ytext load (to_yaml_text ytext dump c) = roundtrip_spec c.
Proof. exact ConfigFacts.yaml_text_roundtrip. Qed.

Theorem yaml_contract_inhabited :
  (forall d, loadI (dumpI d) = Some d) /\ (forall ds, load_allI (dump_allI ds) = ds).
Proof. exact ConfigFacts.yaml_contract_inhabited. Qed.

(* ---- the text route before the repair (finding C18-text-route-loses-type-and-options) ---- *)
Theorem yaml_text_v0_installs_list :
  forall (ytext : Type) (dump : ydoc -> ytext) (load : ytext -> option ydoc),
  (forall d, doc_plain d = true -> load (dump d) = Some d) ->
  forall c, tree_exportable (cstore c) = true ->
  from_yaml_stream_v0 ytext load (to_yaml_text ytext dump c)
  = Ok (Leaf (VStr DEFAULT_NAME), DSeq [type_doc c; listify (cstore c)]).
Proof. exact ConfigFacts.yaml_text_v0_installs_list. Qed.

Theorem yaml_text_roundtrip_v0_refuted : exists c,
  tree_exportable (cstore c) = true /\ text_roundtrip_v0 c <> roundtrip_spec c.
Proof. exact ConfigFacts.yaml_text_roundtrip_v0_refuted. Qed.

(* ---- the file route before the repair (finding C18-file-route-raises-on-non-dict-stage-option):
   extrema_opts = None, the functions' own default, could not be saved ---- *)
Theorem yaml_file_roundtrip_v0_refuted : exists c,
  tree_exportable (cstore c) = true /\ file_roundtrip c = roundtrip_spec c
  /\ file_roundtrip_v0 c <> roundtrip_spec c.
Proof. exact ConfigFacts.yaml_file_roundtrip_v0_refuted. Qed.

(* ---- defaults: re-proved by computation against today's signatures and literal fall-backs ---- *)
Theorem default_config_faithful : forall v t, In (v, t) config_trees ->
  effective_options sig_defaults fallbacks v t = effective_options sig_defaults fallbacks v (Node [])
  /\ keys_accepted sig_defaults v t = true.
Proof. exact ConfigFacts.default_config_faithful. Qed.

Theorem default_config_exportable : forall v t, In (v, t) config_trees -> tree_exportable t = true.
Proof. exact ConfigFacts.default_config_exportable. Qed.

(* ---- non-vacuity ---- *)
Example c18_defaults_nonvacuous :
  (exists t, In ("sift"%string, t) config_trees)
  /\ (exists r, lookup "imf_opts/sd_thresh"
                  (effective_options sig_defaults fallbacks "sift" (Node [])) = Some (Leaf (VFloat r)))
  /\ (exists g, lookup "extrema_opts/mag_pad_opts"
                  (effective_options sig_defaults fallbacks "mask_sift" (Node [])) = Some (Node g) /\ g <> [])
  /\ (10 <= List.length (effective_options sig_defaults fallbacks "sift" (Node [])))%nat.
Proof. exact ConfigFacts.defaults_nonvacuous. Qed.

Example c18_premises_hold :
  plain_keys ["extrema_opts"; "mag_pad_opts"; "stat_length"]%string
  /\ (exists t s', In ("sift"%string, t) config_trees
        /\ setitem "extrema_opts/mag_pad_opts/stat_length" (Leaf (VInt 3)) t = Ok s'
        /\ getitem "extrema_opts/mag_pad_opts/stat_length" s' = Ok (Leaf (VInt 3))
        /\ getitem "extrema_opts/mag_pad_opts/mode" s' = Ok (Leaf (VStr "median"))
        /\ (exists s'', delitem "extrema_opts/mag_pad_opts/stat_length" s' = Ok s''
              /\ getitem "extrema_opts/mag_pad_opts/stat_length" s'' = Err EKey)
        /\ diverge ["extrema_opts"; "mag_pad_opts"; "stat_length"]%string
                   ["extrema_opts"; "mag_pad_opts"; "mode"]%string = true
        /\ tree_exportable t = true
        /\ listify t <> t).
Proof. exact ConfigFacts.c18_premises_hold. Qed.

Print Assumptions getitem_follows_parts.
Print Assumptions setitem_follows_parts.
Print Assumptions delitem_follows_parts.
Print Assumptions path_get_eq_nested.
Print Assumptions path_set_eq_nested.
Print Assumptions path_del_eq_nested.
Print Assumptions path_names_one_entry.
Print Assumptions split_join.
Print Assumptions path_too_deep.
Print Assumptions nset_get_same.
Print Assumptions nset_get_other.
Print Assumptions ndel_get_same.
Print Assumptions ndel_get_other.
Print Assumptions ndel_ok_iff.
Print Assumptions nset_ok_iff.
Print Assumptions set_get_same.
Print Assumptions set_get_other.
Print Assumptions del_get_same.
Print Assumptions del_get_other.
Print Assumptions del_ok_iff_present.
Print Assumptions listify_same_options.
Print Assumptions export_keeps_options.
Print Assumptions yaml_file_roundtrip.
Print Assumptions yaml_text_roundtrip.
Print Assumptions yaml_contract_inhabited.
Print Assumptions yaml_text_v0_installs_list.
Print Assumptions yaml_text_roundtrip_v0_refuted.
Print Assumptions yaml_file_roundtrip_v0_refuted.
Print Assumptions default_config_faithful.
Print Assumptions default_config_exportable.
Print Assumptions c18_defaults_nonvacuous.
Print Assumptions c18_premises_hold.
