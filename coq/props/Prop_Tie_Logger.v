(* TIE - model/Logger.v (property C20) against the source of emd/logger.py (notes/TIE_LOGGER.md).
   Statements only; every proof is [exact <lemma of proofs/SkelFacts_Logger.v>].

   gen/Gen_Skel_Logger.v is regenerated on every run from emd/logger.py by harness/gen_skel_logger.py (fail-closed
   structural translation into the mini language of lib/PyLoop.v).  model/SkelPrims_Logger.v applies the
   state-passing translation [thread_logger] to the generated programs (the global logger state becomes the variable
   "$logger", handed to the primitives that read it and assigned by the ones that write it), maps every primitive
   name to an operation of the model, and defines how a model result shows at the Python level.
   [run_eff P prog fuel env] = (the outcome, the value of "$logger" where the execution stopped).
   Layer 1: wrap_verbose.inner_verbose against [Logger.step s (Call verbose outcome)], for EVERY logger state, EVERY
   `verbose` argument, EVERY behaviour of the wrapped function (which may depend on the logger state it runs in) and
   EVERY fuel.  Layer 2: set_level / get_level / disable / enable / is_active on a [world] (the handler list of
   logging.getLogger('emd') + the two disable flags) against Logger.set_level / get_level / Disable / Enable
   through the abstraction [abs], for EVERY world. *)
From Coq Require Import String List Bool Arith ZArith.
From EmdV Require Import lib.PyLoop lib.PyLoopTools gen.Gen_Skel_Logger model.SkelPrims_Logger proofs.SkelFacts_Logger.
From EmdV Require model.Logger.
Import ListNotations.
Open Scope string_scope.

(* [thread_logger] added the state plumbing and nothing else: removing it gives back the generated programs *)
Theorem thread_erases :
  erase_logger tprog_inner_verbose = prog_inner_verbose /\ erase_logger tprog_set_level = prog_set_level /\
  erase_logger tprog_get_level = prog_get_level /\ erase_logger tprog_disable = prog_disable /\
  erase_logger tprog_enable = prog_enable /\ erase_logger tprog_is_active = prog_is_active.
Proof. exact SkelFacts_Logger.thread_erases. Qed.

Section TieInnerVerbose.
  Variable kwv : option (option Z).           (* kwargs: no 'verbose' key / verbose=None / verbose=<name of level z> *)
  Variable registered : Z -> bool.            (* the keys of logging._levelToName *)
  Variable fres : Logger.lstate -> res lv.    (* the wrapped function run in a logger state: value or exception *)

  Let P := verbose_prims kwv registered fres.

  (* the translated body of inner_verbose, entered in logger state s: what the caller sees and the state left
     behind are exactly Logger.step s (Call verbose outcome); in particular never Stuck *)
  Theorem skeleton_inner_verbose : forall s func args kwargs f,
    level_registered registered s ->
    fres (seen_state kwv s) <> Bad ->
    run_eff P tprog_inner_verbose f (verbose_env0 s func args kwargs)
    = verbose_render (fres (seen_state kwv s)) (Logger.step s (verbose_op kwv fres s)).
  Proof. exact (SkelFacts_Logger.skeleton_inner_verbose kwv registered fres). Qed.

  (* with the facts proved about the model (LoggerFacts.call_restores_state, outcome_preserved): the caller gets the
     function's own value / exception and the whole logger state is back, whether the function returned or raised *)
  Theorem inner_verbose_transparent : forall s func args kwargs f,
    level_registered registered s ->
    fres (seen_state kwv s) <> Bad ->
    run_eff P tprog_inner_verbose f (verbose_env0 s func args kwargs)
    = (match fres (seen_state kwv s) with Ok v => Return v | Exc x => Raise x | Bad => Stuck end,
       Some (state_val s)).
  Proof. exact (SkelFacts_Logger.inner_verbose_transparent kwv registered fres). Qed.

  (* FINDING, outside the model: a console level that is not a key of logging._levelToName makes the restore raise
     KeyError - the result (or the function's own exception) is lost and the override stays in force *)
  Theorem inner_verbose_unregistered_level : forall c d tf z func args kwargs f,
    kwv = Some (Some z) ->
    registered c = false ->
    fres (Logger.set_level (Logger.Build_lstate true c d tf) z) <> Bad ->
    run_eff P tprog_inner_verbose f (verbose_env0 (Logger.Build_lstate true c d tf) func args kwargs)
    = (Raise "KeyError", Some (state_val (Logger.set_level (Logger.Build_lstate true c d tf) z))).
  Proof. exact (SkelFacts_Logger.inner_verbose_unregistered_level kwv registered fres). Qed.
End TieInnerVerbose.

(* ---- layer 2: the functions behind the primitives "get_level" / "set_level", and disable / enable / is_active ---- *)
(* set_level(level=<name of z>) returns None and sets the level of every console handler *)
Theorem skeleton_set_level : forall w z hd f,
  eff_result (run_eff world_prims tprog_set_level f (set_level_env0 w z hd))
  = (Ok VNone, Some (world_val (w_set_level w z))).
Proof. exact SkelFacts_Logger.skeleton_set_level. Qed.

Theorem abs_set_level : forall w z, abs (w_set_level w z) = Logger.set_level (abs w) z.
Proof. exact SkelFacts_Logger.abs_set_level. Qed.

Theorem skeleton_set_level_model : forall w z hd f,
  exists w', eff_result (run_eff world_prims tprog_set_level f (set_level_env0 w z hd)) = (Ok VNone, Some (world_val w')) /\
             abs w' = fst (Logger.step (abs w) (Logger.SetLevel z)).
Proof. exact SkelFacts_Logger.skeleton_set_level_model. Qed.

(* get_level() returns the level of the first console handler / None: Logger.get_level *)
Theorem skeleton_get_level_model : forall w hd f,
  py_result (exec world_prims tprog_get_level f (get_level_env0 w hd)) = Ok (level_val (Logger.get_level (abs w))).
Proof. exact SkelFacts_Logger.skeleton_get_level_model. Qed.

Theorem skeleton_disable_model : forall w f,
  exists w', eff_result (run_eff world_prims tprog_disable f (disable_env0 w)) = (Ok VNone, Some (world_val w')) /\
             abs w' = fst (Logger.step (abs w) Logger.Disable).
Proof. exact SkelFacts_Logger.skeleton_disable_model. Qed.

Theorem skeleton_enable_model : forall w f,
  exists w', eff_result (run_eff world_prims tprog_enable f (enable_env0 w)) = (Ok VNone, Some (world_val w')) /\
             abs w' = fst (Logger.step (abs w) Logger.Enable).
Proof. exact SkelFacts_Logger.skeleton_enable_model. Qed.

(* get_level and is_active do not write the state *)
Theorem readers_read_only :
  mem st_var (assigned tprog_get_level []) = false /\ mem st_var (assigned tprog_is_active []) = false.
Proof. exact SkelFacts_Logger.readers_read_only. Qed.

(* is_active() (no operation of model/Logger.v): False with the single NullHandler, otherwise `logger.disabled is False` *)
Theorem skeleton_is_active : forall w f,
  exec world_prims tprog_is_active f (is_active_env0 w) = Return (VBool (w_is_active w)).
Proof. exact SkelFacts_Logger.skeleton_is_active. Qed.

(* FINDING: is_active() does not see disable() / enable() *)
Theorem is_active_ignores_disable : forall w b, w_is_active (with_mgr w b) = w_is_active w.
Proof. exact SkelFacts_Logger.is_active_ignores_disable. Qed.

Print Assumptions thread_erases.
Print Assumptions skeleton_inner_verbose.
Print Assumptions inner_verbose_transparent.
Print Assumptions inner_verbose_unregistered_level.
Print Assumptions skeleton_set_level.
Print Assumptions abs_set_level.
Print Assumptions skeleton_set_level_model.
Print Assumptions skeleton_get_level_model.
Print Assumptions skeleton_disable_model.
Print Assumptions skeleton_enable_model.
Print Assumptions readers_read_only.
Print Assumptions skeleton_is_active.
Print Assumptions is_active_ignores_disable.
