(* TIE - get_padded_extrema, interp_envelope and _find_extrema of emd/sift.py against the hand-written
   model/Extrema.v and model/Envelope.v (property C05; C01 through the envelope pair).
   Statements only; every proof is [exact <lemma of proofs/SkelFacts_Extrema.v>].

   gen/Gen_Skel_Extrema.v is regenerated on every run from emd/sift.py by harness/gen_skel_extrema.py (fail-closed
   structural translation into the mini language of lib/PyLoop.v): the whole bodies of the three functions.
   model/SkelPrims_Extrema.v maps every opaque primitive name the translator emitted to an operation of the model
   (np.pad with the default options -> pad_reflect_odd / pad_edge, max / min -> list_max / list_min, _find_extrema ->
   find_maxima and the values there, -X / np.abs / -max_ext -> the sign handling of Extrema.extrema,
   np.arange(np.ceil(locs[0]), locs[-1]) -> zrange, the interpolators -> the oracle interp_of, env[tinds] -> select,
   signal.argrelextrema -> find_maxima, ...). The theorems say: under the interpreter of PyLoop.v the translated
   bodies compute exactly what Extrema.get_padded_extrema / Envelope.envelope / Extrema.find_maxima compute, for every
   integer signal, every pad_width, every mode, every spelling of the default options, and every fuel.
   Limits (notes/TIE_EXTREMA.md): default pad options only; parabolic_extrema=False in get_padded_extrema /
   interp_envelope; `d.pop('mode')` does not mutate d. *)
From Coq Require Import String List Bool Arith ZArith.
From EmdV Require Import model.Extrema model.Envelope lib.PyLoop lib.PyLoopTools gen.Gen_Skel_Extrema
  model.SkelPrims_Extrema proofs.SkelFacts_Extrema.
Import ListNotations.
Open Scope string_scope.

(* ---- 1. get_padded_extrema ---------------------------------------------------------------------- *)
(* two_d: X is 2-D (first column x) or 1-D; lo / mo: loc_pad_opts / mag_pad_opts given as None, {} or the default
   dict spelled out; p = pad_width; m = mode. EVERY fuel f: f executions of the re-padding loop's body allowed =
   the model's pad_loop on fuel S f (gpe_fuel = Extrema.get_padded_extrema with its fuel as a parameter) *)
Theorem skeleton_gpe_fuel :
  forall (A : Type) (two_d : bool) (x : list Z) (p : nat) (m : emode) (lo mo : pad_opt) (f : nat),
  exec (gpe_prims A) prog_get_padded_extrema f (gpe_env0 A two_d x (VNat p) (VStr (mode_str m)) lo mo)
  = gpe_render A (gpe_fuel (S f) x p m).
Proof. exact SkelFacts_Extrema.skeleton_gpe_fuel. Qed.

Theorem gpe_fuel_model : forall x p m, gpe_fuel (length x + 2) x p m = get_padded_extrema x p m.
Proof. exact SkelFacts_Extrema.gpe_fuel_model. Qed.

(* the model's fuel length x + 2 is never exhausted (ExtremaFacts.pad_loop_terminates), so with that much fuel or
   more the program returns exactly the model's result: (None, None) or the padded (locations, magnitudes) *)
Theorem skeleton_gpe :
  forall (A : Type) (two_d : bool) (x : list Z) (p : nat) (m : emode) (lo mo : pad_opt) (f : nat),
  (length x + 1 <= f)%nat ->
  exec (gpe_prims A) prog_get_padded_extrema f (gpe_env0 A two_d x (VNat p) (VStr (mode_str m)) lo mo)
  = gpe_render A (get_padded_extrema x p m).
Proof. exact SkelFacts_Extrema.skeleton_gpe. Qed.

(* a mode that is none of 'peaks' / 'troughs' / 'abs_peaks': ValueError, whatever pad_width is *)
Theorem skeleton_gpe_bad_mode :
  forall (A : Type) (two_d : bool) (x : list Z) (pw : val (xval A)) (lo mo : pad_opt) (f : nat),
  exec (gpe_prims A) prog_get_padded_extrema f (gpe_env0 A two_d x pw (bad_mode A) lo mo) = Raise "ValueError".
Proof. exact SkelFacts_Extrema.skeleton_gpe_bad_mode. Qed.

(* pad_width=None: `max_locs.size < pad_width` raises TypeError before `pad_width is None` is tested *)
Theorem skeleton_gpe_pad_none :
  forall (A : Type) (two_d : bool) (x : list Z) (m : emode) (lo mo : pad_opt) (f : nat),
  exec (gpe_prims A) prog_get_padded_extrema f (gpe_env0 A two_d x VNone (VStr (mode_str m)) lo mo)
  = if (length (fst (extrema m x)) <=? 1)%nat then Return (VList [VNone; VNone]) else Raise "TypeError".
Proof. exact SkelFacts_Extrema.skeleton_gpe_pad_none. Qed.

(* ---- 2. interp_envelope ------------------------------------------------------------------------- *)
(* m = mode (upper / lower / combined), im = interp_method, eo = extrema_opts (None, {} or a dict with pad_width p
   and default pad options), re = ret_extrema. The call `pchip(t)` of the local callable receives the object built by
   interp.PchipInterpolator / interp.pchip from (locs, pks) (translator option N16).
   ie_outcome = Envelope.envelope with `return None` and the ValueError of the
   length check told apart (ie_outcome_envelope). *)
Theorem skeleton_interp_envelope :
  forall (A : Type) (interp_of : imeth -> list Z -> list Z -> Z -> A)
         (x : list Z) (m : emode) (im : imeth) (eo : ext_opt) (re : bool) (f : nat),
  exec (ie_prims A interp_of) prog_interp_envelope f
       (ie_env0 A x (VStr (env_mode_str m)) (VStr (imeth_str im)) eo re)
  = ie_outcome A interp_of x (ext_pad eo) m im re.
Proof. exact SkelFacts_Extrema.skeleton_interp_envelope. Qed.

Theorem ie_outcome_envelope :
  forall (A : Type) (interp_of : imeth -> list Z -> list Z -> Z -> A)
         (x : list Z) (p : nat) (m : emode) (im : imeth) (re : bool),
  envelope_of_outcome A re (ie_outcome A interp_of x p m im re) = envelope A (interp_of im) x p m.
Proof. exact SkelFacts_Extrema.ie_outcome_envelope. Qed.

Theorem ie_outcome_no_value_error :
  forall (A : Type) (interp_of : imeth -> list Z -> list Z -> Z -> A)
         (x : list Z) (p : nat) (m : emode) (im : imeth) (re : bool),
  (1 <= p)%nat -> ie_outcome A interp_of x p m im re <> Raise "ValueError".
Proof. exact SkelFacts_Extrema.ie_outcome_no_value_error. Qed.

Theorem skeleton_interp_envelope_bad_method :
  forall (A : Type) (interp_of : imeth -> list Z -> list Z -> Z -> A) (x : list Z)
         (md : val (xval A)) (eo : ext_opt) (re : bool) (f : nat),
  exec (ie_prims A interp_of) prog_interp_envelope f (ie_env0 A x md (bad_method A) eo re)
  = Raise "ValueError".
Proof. exact SkelFacts_Extrema.skeleton_interp_envelope_bad_method. Qed.

Theorem skeleton_interp_envelope_bad_mode :
  forall (A : Type) (interp_of : imeth -> list Z -> list Z -> Z -> A) (x : list Z)
         (im : imeth) (eo : ext_opt) (re : bool) (f : nat),
  exec (ie_prims A interp_of) prog_interp_envelope f
       (ie_env0 A x (bad_mode A) (VStr (imeth_str im)) eo re)
  = Raise "ValueError".
Proof. exact SkelFacts_Extrema.skeleton_interp_envelope_bad_mode. Qed.

(* ---- 3. _find_extrema --------------------------------------------------------------------------- *)
(* th: peak_prom_thresh is a threshold (true) or None; the prominence filter (prom_keep) and the parabolic refinement
   (parab_locs, parab_mags) are oracles applied to the maxima found by argrelextrema = Extrema.find_maxima *)
Theorem skeleton_find_extrema :
  forall (A : Type) (parab_locs parab_mags : list Z -> list nat -> val (xval A))
         (prom_keep : list Z -> list nat -> list nat) (y : list Z) (th parabolic : bool) (f : nat),
  exec (fe_prims A parab_locs parab_mags prom_keep) prog_find_extrema f (fe_env0 A y th parabolic)
  = fe_render A parab_locs parab_mags prom_keep y th parabolic.
Proof. exact SkelFacts_Extrema.skeleton_find_extrema. Qed.

(* ---- 4. the callee rows of the tables are what the callee ties prove ----------------------------- *)
Theorem callee_find_extrema :
  forall (A : Type) (parab_locs parab_mags : list Z -> list nat -> val (xval A))
         (prom_keep : list Z -> list nat -> list nat) (y : list Z) (f : nat),
  exec (fe_prims A parab_locs parab_mags prom_keep) prog_find_extrema f (fe_env0 A y false false)
  = Return (fe_value A y).
Proof. exact SkelFacts_Extrema.callee_find_extrema. Qed.

Theorem callee_get_padded_extrema : forall (A : Type) (x : list Z) (p : nat) (m : emode) (f : nat),
  (length x + 1 <= f)%nat ->
  exists v, gpe_value A (get_padded_extrema x p m) = Ok v /\
    exec (gpe_prims A) prog_get_padded_extrema f (gpe_env0 A false x (VNat p) (VStr (mode_str m)) OptNone OptNone)
    = Return v.
Proof. exact SkelFacts_Extrema.callee_get_padded_extrema. Qed.

Print Assumptions skeleton_gpe_fuel.
Print Assumptions gpe_fuel_model.
Print Assumptions skeleton_gpe.
Print Assumptions skeleton_gpe_bad_mode.
Print Assumptions skeleton_gpe_pad_none.
Print Assumptions skeleton_interp_envelope.
Print Assumptions ie_outcome_envelope.
Print Assumptions ie_outcome_no_value_error.
Print Assumptions skeleton_interp_envelope_bad_method.
Print Assumptions skeleton_interp_envelope_bad_mode.
Print Assumptions skeleton_find_extrema.
Print Assumptions callee_find_extrema.
Print Assumptions callee_get_padded_extrema.
