(* Control-skeleton tie "gcp" (notes/TIE_GCP.md): emd/cycles.py get_control_points (whole body, regenerated into
   gen/Gen_Skel_Gcp.v on every run) against the list-level model of model/SkelPrims_Gcp.v.  The cycle iterator and the
   cf_ helpers are oracles (tied in Prop_Tie_Cycgen.v / Prop_Tie_Ctrl.v). *)
From Coq Require Import String List Bool Arith ZArith.
From EmdV Require Import lib.PyLoop lib.PyLoopTools gen.Gen_Skel_Gcp model.SkelPrims_Gcp proofs.SkelFacts_Gcp.
Import ListNotations.
Open Scope string_scope.

Section Statements.
  Variable A N : Type.
  Variable is_ndarray : bool.
  Variable ens_x : A -> eres A.
  Variable ens_cycles : eres unit.
  Variable nsamples : nat.
  Variable alen : A -> nat.
  Variable yielded : bool -> eres (list item).
  Variable gather : A -> list nat -> A.
  Variable cf_asc cf_pk cf_desc cf_tr : bool -> A -> option N.
  Local Notation P := (gcp_prims A N is_ndarray ens_x ens_cycles nsamples alen yielded gather cf_asc cf_pk cf_desc cf_tr).
  Local Notation raw := (raw_rows A N alen gather cf_asc cf_pk cf_desc cf_tr).
  Local Notation model := (gcp_model A N is_ndarray ens_x ens_cycles nsamples alen yielded gather cf_asc cf_pk cf_desc cf_tr).
  Local Notation row1 := (the_row A N alen gather cf_asc cf_pk cf_desc cf_tr).

  (* THE TIE: every oracle, every input, every fuel *)
  Theorem skeleton_get_control_points : forall f x m interp,
    exec P prog_get_control_points f (gcp_env0 A N x m interp) = gcp_render A N (model x m interp).
  Proof. exact (SkelFacts_Gcp.skeleton_get_control_points A N is_ndarray ens_x ens_cycles nsamples alen yielded gather cf_asc cf_pk cf_desc cf_tr). Qed.

  (* (1) one row per item the iterator yields, in the iterator's order *)
  Theorem gcp_rows_known_mode : forall m interp xv its, m <> GOther ->
    final_rows N (raw m interp xv its) = map (row1 (is_aug m) interp xv) its.
  Proof. exact (SkelFacts_Gcp.gcp_rows_known_mode A N alen gather cf_asc cf_pk cf_desc cf_tr). Qed.

  Theorem gcp_row_count : forall m interp xv its, m <> GOther ->
    length (final_rows N (raw m interp xv its)) = length its.
  Proof. exact (SkelFacts_Gcp.gcp_row_count A N alen gather cf_asc cf_pk cf_desc cf_tr). Qed.

  Theorem gcp_row_nth : forall m interp xv its k it, m <> GOther -> nth_error its k = Some it ->
    nth_error (final_rows N (raw m interp xv its)) k = Some (row1 (is_aug m) interp xv it).
  Proof. exact (SkelFacts_Gcp.gcp_row_nth A N alen gather cf_asc cf_pk cf_desc cf_tr). Qed.

  (* (2) the number of columns: 6 in the augmented mode, 5 otherwise *)
  Theorem gcp_columns : forall m interp xv its r,
    In r (final_rows N (raw m interp xv its)) -> length r = ncols m.
  Proof. exact (SkelFacts_Gcp.gcp_columns A N alen gather cf_asc cf_pk cf_desc cf_tr). Qed.

  (* (3) which helper fills which column; None never survives *)
  Theorem gcp_bad_item_row : forall aug interp xv it, bad_item it = true ->
    row1 aug interp xv it = repeat KNan (if aug then 6 else 5).
  Proof. exact (SkelFacts_Gcp.gcp_bad_item_row A N alen gather cf_asc cf_pk cf_desc cf_tr). Qed.

  Theorem gcp_good_item_row_cycle : forall interp xv i inds, (5 <= length inds)%nat ->
    row1 false interp xv (i, Some inds) =
    let c := gather xv inds in
    [KInt 0; nan_opt N (cf_pk interp c); nan_opt N (cf_desc interp c); nan_opt N (cf_tr interp c);
     KInt (Z.of_nat (alen c) - 1)].
  Proof. exact (SkelFacts_Gcp.gcp_good_item_row_cycle A N alen gather cf_asc cf_pk cf_desc cf_tr). Qed.

  Theorem gcp_good_item_row_augmented : forall interp xv i inds, (5 <= length inds)%nat ->
    row1 true interp xv (i, Some inds) =
    let c := gather xv inds in
    [KInt 0; nan_opt N (cf_asc interp c); nan_opt N (cf_pk interp c); nan_opt N (cf_desc interp c);
     nan_opt N (cf_tr interp c); KInt (Z.of_nat (alen c) - 1)].
  Proof. exact (SkelFacts_Gcp.gcp_good_item_row_augmented A N alen gather cf_asc cf_pk cf_desc cf_tr). Qed.

  Theorem gcp_no_none : forall (rows : list (list (cell N))) r c, In r (final_rows N rows) -> In c r -> c <> KNone.
  Proof. exact (SkelFacts_Gcp.gcp_no_none N). Qed.

  (* (4) an unknown mode: a row of 5 nans for every item without 5 samples, NOTHING for the others *)
  Theorem gcp_rows_other_mode : forall interp xv its,
    final_rows N (raw GOther interp xv its) = map (fun _ => repeat KNan 5) (filter (@bad_item) its).
  Proof. exact (SkelFacts_Gcp.gcp_rows_other_mode A N alen gather cf_asc cf_pk cf_desc cf_tr). Qed.

  Theorem skeleton_get_control_points_other_mode : forall f x interp xv its,
    ens_x x = EOk xv -> ens_cycles = EOk tt -> nsamples = alen xv -> yielded false = EOk its ->
    exec P prog_get_control_points f (gcp_env0 A N x GOther interp) =
    Return (VSig (GTab (map (fun _ => repeat KNan 5) (filter (@bad_item) its)))).
  Proof. exact (SkelFacts_Gcp.skeleton_get_control_points_other_mode A N is_ndarray ens_x ens_cycles nsamples alen yielded gather cf_asc cf_pk cf_desc cf_tr). Qed.
End Statements.

Print Assumptions skeleton_get_control_points.
Print Assumptions gcp_rows_known_mode.
Print Assumptions gcp_row_count.
Print Assumptions gcp_row_nth.
Print Assumptions gcp_columns.
Print Assumptions gcp_bad_item_row.
Print Assumptions gcp_good_item_row_cycle.
Print Assumptions gcp_good_item_row_augmented.
Print Assumptions gcp_no_none.
Print Assumptions gcp_rows_other_mode.
Print Assumptions skeleton_get_control_points_other_mode.
